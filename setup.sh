#!/bin/bash
# offline setup: prebuild the common variants of the current /repo tree and the harnesses (files on disk only)
cd "$(dirname "$0")"
python3 - <<'PY'
import sys, importlib, glob, os
sys.path.insert(0, '.')
from vlib import build
build.build_many([('h_c01', 'asan'), ('h_c01', 'plain')])
for f in sorted(glob.glob('checks/c[0-9][0-9].py')):
    m = importlib.import_module('checks.' + os.path.basename(f)[:-3])
    try:
        build.build_many(list(m.HARNESSES.values()))
    except Exception as e:
        print('setup: could not prebuild for', f, e)
print('setup done')
PY
