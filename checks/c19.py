"""C19 - the command-line tool never loses or silently damages user data.
Kill points are enumerated exhaustively with a ptrace supervisor (h/killat.c): for every syscall index k of every invocation the
process tree is SIGKILLed just before syscall k and the file-system state is judged by the library decoder + R (never by the CLI)."""
import re
import os, sys, glob, shutil, subprocess, hashlib, random, json, time
from concurrent.futures import ThreadPoolExecutor
from vlib import build, core

PROGS = sorted('programs/' + os.path.basename(p) for p in glob.glob(os.path.join(build.REPO, 'programs', '*.c')))
HARNESSES = {
    'zstdcli': ('zstdcli', 'plain', dict(sources=['empty.c'], repo_sources=PROGS, cflags=['-I' + os.path.join(build.REPO, 'programs'), '-w'], refdec=False, hash_subdirs=['programs'])),
    'killat': ('killat', 'plain', dict(refdec=False)),
    'h_c19tool': ('h_c19tool', 'plain'),
}


def sha(path):
    try:
        with open(path, 'rb') as f:
            return hashlib.sha1(f.read()).hexdigest()
    except OSError:
        return None


def gen_bytes(rng, n, kind):
    if kind == 'text':
        words = [b'alpha', b'beta', b'gamma', b'delta', b'zstd', b'frame', b'block', b'window', b'\n', b' ', b'0123456789']
        out = bytearray()
        while len(out) < n:
            out += rng.choice(words)
        return bytes(out[:n])
    if kind == 'random':
        return bytes(rng.getrandbits(8) for _ in range(n)) if n < 4096 else rng.randbytes(n)
    raise ValueError(kind)


def zero_layout(rng, spec):
    """spec: list of ('d', n) data / ('z', n) zero runs"""
    out = bytearray()
    for k, n in spec:
        out += (rng.randbytes(n) if k == 'd' else bytes(n))
    return bytes(out)


class Env:
    def __init__(self, exes, tmp):
        self.cli, self.killat, self.tool = exes
        self.tmp = tmp

    def run_cli(self, cwd, args, timeout=120):
        p = subprocess.run([self.cli] + args, cwd=cwd, stdin=subprocess.DEVNULL, stdout=subprocess.PIPE, stderr=subprocess.PIPE, timeout=timeout)
        return p.returncode, p.stdout, p.stderr

    def verify(self, zst, orig, dict_=None):
        p = subprocess.run([self.tool, 'verify', zst, orig] + ([dict_] if dict_ else []), stdout=subprocess.PIPE, stderr=subprocess.PIPE)
        return p.returncode == 0

    def verdict(self, f, dict_=None):
        p = subprocess.run([self.tool, 'verdict', f] + ([dict_] if dict_ else []), stdout=subprocess.PIPE, stderr=subprocess.PIPE, text=True)
        return p.stdout.strip()


def scenarios(rng, thorough):
    """each scenario: name, files {name: bytes} (names ending .zst are produced by compressing the given content with the CLI),
    argv, pairs [(source, destination, kind)] with kind 'c' (dest must decode to source content) or 'd' (dest must equal decoded content),
    keep: files that must never change"""
    small = gen_bytes(rng, 20000, 'text')
    small2 = gen_bytes(rng, 9000, 'text') + rng.randbytes(3000)
    big = gen_bytes(rng, 1200000, 'text') + rng.randbytes(300000)
    zl = zero_layout(rng, [('d', 65536), ('z', 65536), ('d', 30000), ('z', 200000), ('d', 10), ('z', 32768)])
    old = b'previous content of the destination\n' * 50
    S = [
        dict(name='compress', files={'a': small}, argv=['a'], pairs=[('a', 'a.zst', 'c')]),
        dict(name='compress-rm', files={'a': small}, argv=['--rm', 'a'], pairs=[('a', 'a.zst', 'c')]),
        dict(name='decompress-rm', files={'a.zst': small}, argv=['-d', '--rm', 'a.zst'], pairs=[('a.zst', 'a', 'd')]),
        dict(name='compress-existing-dst-noforce', files={'a': small, 'a.zst!': old}, argv=['a'], pairs=[('a', None, 'c')], keep=['a.zst']),
        dict(name='compress-force-rm', files={'a': small, 'a.zst!': old}, argv=['-f', '--rm', 'a'], pairs=[('a', 'a.zst', 'c')]),
        dict(name='compress-T2-rm-big', files={'big': big}, argv=['-T2', '--rm', 'big'], pairs=[('big', 'big.zst', 'c')]),
        dict(name='compress-two-rm', files={'a': small, 'b': small2}, argv=['--rm', 'a', 'b'], pairs=[('a', 'a.zst', 'c'), ('b', 'b.zst', 'c')]),
        dict(name='decompress-big-rm', files={'big.zst': big}, argv=['-d', '--rm', 'big.zst'], pairs=[('big.zst', 'big', 'd')]),
        dict(name='decompress-o-existing-noforce', files={'a.zst': small, 'out!': old}, argv=['-d', 'a.zst', '-o', 'out'], pairs=[('a.zst', None, 'd')], keep=['out']),
        dict(name='compress-o-rm', files={'a': small}, argv=['--rm', 'a', '-o', 'b.zst'], pairs=[('a', 'b.zst', 'c')]),
        dict(name='decompress-sparse-rm', files={'z.zst': zl}, argv=['-d', '--sparse', '--rm', 'z.zst'], pairs=[('z.zst', 'z', 'd')]),
        dict(name='compress-outdir-rm', files={'a': small, 'b': small2}, argv=['--rm', '--output-dir-flat', 'od', 'a', 'b'], pairs=[('a', 'od/a.zst', 'c'), ('b', 'od/b.zst', 'c')], mkdirs=['od']),
    ]
    if thorough:
        S += [
            dict(name='compress-long-rm', files={'big': big}, argv=['--long=20', '--rm', 'big'], pairs=[('big', 'big.zst', 'c')]),
            dict(name='decompress-force-rm', files={'a.zst': small, 'a!': old}, argv=['-d', '-f', '--rm', 'a.zst'], pairs=[('a.zst', 'a', 'd')]),
            dict(name='compress-19-rm', files={'a': small}, argv=['-19', '--rm', 'a'], pairs=[('a', 'a.zst', 'c')]),
            dict(name='decompress-two-rm', files={'a.zst': small, 'b.zst': small2}, argv=['-d', '--rm', 'a.zst', 'b.zst'], pairs=[('a.zst', 'a', 'd'), ('b.zst', 'b', 'd')]),
            dict(name='compress-T0-two-rm', files={'big': big, 'a': small}, argv=['-T0', '--rm', 'big', 'a'], pairs=[('big', 'big.zst', 'c'), ('a', 'a.zst', 'c')]),
            dict(name='decompress-nosparse-rm', files={'z.zst': zl}, argv=['-d', '--no-sparse', '--rm', 'z.zst'], pairs=[('z.zst', 'z', 'd')]),
        ]
    return S


def materialise(env, sc, d):
    """create the initial state of a scenario in directory d; returns {relname: sha1} and {relname: plain-content path}"""
    os.makedirs(d, exist_ok=True)
    plain = {}
    for m in sc.get('mkdirs', []):
        os.makedirs(os.path.join(d, m), exist_ok=True)
    for name, content in sc['files'].items():
        raw = name.endswith('!')
        name = name.rstrip('!')
        path = os.path.join(d, name)
        if name.endswith('.zst') and not raw:
            tmp = path[:-4] + '.plain-src'
            open(tmp, 'wb').write(content)
            rc, _, err = env.run_cli(d, ['-q', '-f', os.path.basename(tmp), '-o', name])
            if rc != 0 or not env.verify(path, tmp):
                raise build.BuildError('C19 setup: cannot produce %s: %s' % (name, err[-300:]))
            os.rename(tmp, os.path.join(d, '.orig-' + name))
            plain[name] = os.path.join(d, '.orig-' + name)
        else:
            open(path, 'wb').write(content)
            plain[name] = path
    return plain


def judge_state(env, sc, d, init_hash, orig_plain):
    """state oracle after an abrupt stop (or a normal end): returns list of (key, message); also a short state descriptor"""
    out = []
    desc = []
    for k in sc.get('keep', []):
        if sha(os.path.join(d, k)) != init_hash[k]:
            out.append(('existing-destination-modified-without-force', '%s: %s changed' % (sc['name'], k)))
    for src, dst, kind in sc['pairs']:
        sp = os.path.join(d, src)
        src_ok = sha(sp) == init_hash[src]
        dst_state = 'absent'
        dst_ok = False
        if dst is not None:
            dp = os.path.join(d, dst)
            if os.path.exists(dp):
                if kind == 'c':
                    dst_ok = env.verify(dp, orig_plain[src])
                else:
                    dst_ok = sha(dp) == sha(orig_plain[src])
                dst_state = 'complete' if dst_ok else 'partial'
        desc.append('%s:%s' % ('src' if src_ok else 'nosrc', dst_state))
        if not src_ok and not dst_ok:
            out.append(('data-loss:source-gone-and-destination-not-complete', '%s: %s missing/changed while %s is %s' % (sc['name'], src, dst, dst_state)))
    return out, '+'.join(desc)


def run(prop, tier, seed, t0):
    thorough = tier == 'thorough'
    exes = build.build_many([HARNESSES['zstdcli'], HARNESSES['killat'], HARNESSES['h_c19tool']])
    R = core.Runner(prop, tier, seed)
    res = core.Result()
    env = Env(exes, R.tmp)
    rng = random.Random(seed * 7919 + 19)
    viol = []
    states = {}
    stats = dict(kill_runs=0, int_runs=0, invocations=0, endstate_checks=0, kill_points={}, unlink_vs_close={})
    samples = []

    def add(key, msg, case):
        viol.append({'key': key, 'case': case, 'msg': msg, 'replay': {'label': 'c19', 'case': case, 'seed': seed, 'args': [], 'what': msg}})

    # ------------------------------------------------------------------ kill-point sweeps (exhaustive over k)
    scs = scenarios(rng, thorough)
    for si, sc in enumerate(scs):
        tmpl = os.path.join(R.tmp, 'tmpl-%d' % si)
        orig_plain_t = materialise(env, sc, tmpl)
        init_hash = {n.rstrip('!'): sha(os.path.join(tmpl, n.rstrip('!'))) for n in sc['files']}
        # count run (also the end-state of the unkilled invocation)
        d0 = os.path.join(R.tmp, 'run-%d-count' % si)
        shutil.copytree(tmpl, d0)
        slog = os.path.join(R.tmp, 'syscalls-%d.log' % si)
        p = subprocess.run([env.killat, 'count', '--', env.cli, '-q'] + sc['argv'], cwd=d0, stdout=subprocess.PIPE, text=True, env=dict(os.environ, KILLAT_LOG=slog))
        # indices of rt_sigaction(SIGINT, ...) calls: installation and removal of the interrupt handler alternate (addHandler / clearHandler)
        sigint_calls = [int(l.split()[0]) for l in open(slog).read().split('\n') if l and l.split()[1] == '13' and l.split()[2] == '2'] if os.path.exists(slog) else []
        try:
            N = int(p.stdout.split('N=')[1].split()[0])
        except Exception:
            raise build.BuildError('C19: killat count failed: %r' % p.stdout)
        stats['invocations'] += 1
        ksweep = list(range(1, N + 12))
        stats['kill_points'][sc['name']] = N
        v0, st0 = judge_state(env, sc, d0, init_hash, orig_plain_t)   # original contents are read from the (never modified) template
        for key, msg in v0:
            add('end-state:' + key, msg + ' (uninterrupted run)', si * 100000)
        shutil.rmtree(d0, ignore_errors=True)

        def one(k, mode='kill'):
            d = os.path.join(R.tmp, 'run-%d-%s-%d' % (si, mode, k))
            shutil.copytree(tmpl, d)
            try:
                q = subprocess.run([env.killat, mode, str(k), '--', env.cli, '-q'] + sc['argv'], cwd=d, stdout=subprocess.PIPE, text=True, timeout=300)
                vv, st = judge_state(env, sc, d, init_hash, orig_plain_t)
                extra = []
                if mode == 'int':
                    # after SIGINT the tool must leave no partial destination behind
                    parts = st.split('+')
                    for pi, (src, dst, kind) in enumerate(sc['pairs']):
                        if dst and pi < len(parts) and parts[pi].endswith(':partial'):
                            extra.append(('sigint:partial-destination-left-behind', '%s: SIGINT at syscall %d (%s): destination %s left incomplete' % (sc['name'], k, q.stdout.strip(), dst), pi))
                            break
                return k, q.stdout.strip(), vv + extra, st
            finally:
                shutil.rmtree(d, ignore_errors=True)

        created_at = {}     # per pair: first kill point at which its destination already exists = index of the syscall following its creation
        k_created = None    # first kill point at which a destination already exists = index of the syscall following its creation
        with ThreadPoolExecutor(core.NPROC) as ex:
            for k, outp, vv, st in ex.map(one, ksweep):
                stats['kill_runs'] += 1
                states.setdefault(sc['name'], set()).add(st)
                if k_created is None and ('partial' in st or 'complete' in st) and not sc.get('keep'):
                    k_created = k
                for pi, part in enumerate(st.split('+')):
                    if not part.endswith(':absent') and pi not in created_at:
                        created_at[pi] = k
                for key, msg in vv:
                    add(key, msg + ' after SIGKILL just before syscall %d of %d (%s)' % (k, N, outp), si * 100000 + k)
        if len(samples) < 6:
            samples.append({'invocation': 'zstd -q ' + ' '.join(sc['argv']), 'syscalls': N, 'kill_points': len(ksweep), 'states_seen': sorted(states[sc['name']])})
        # SIGINT sweep on the simple invocations
        if sc['name'] in ('compress', 'decompress-rm', 'compress-rm') or thorough:
            with ThreadPoolExecutor(core.NPROC) as ex:
                for k, outp, vv, st in ex.map(lambda kk: one(kk, 'int'), ksweep[:N]):
                    stats['int_runs'] += 1
                    for item in vv:
                        key, msg = item[0], item[1]
                        if key.startswith('sigint:partial'):
                            # where in the life of this destination did the interrupt arrive? The handler is installed after the creation of the destination
                            # (deliberately, F21a) and removed once it is closed: rt_sigaction(SIGINT) calls alternate install / remove; the tracer reports how many
                            # of them, and whether a file creation since the last one, preceded the interrupt IN THIS RUN (syscall indices differ between runs).
                            m_ = re.search(r'sigint_actions_before=(\d+) creat_after_last_sigint_action=(\d+)', outp); ran = 'status=exit 2' in outp
                            nact, creat = (int(m_.group(1)), int(m_.group(2))) if m_ else (-1, 0)
                            if ran: key += ':handler-ran'
                            elif nact == 0 or (nact > 0 and nact % 2 == 0 and creat): key += ':around-destination-creation(before-handler-installation)'      # no handler was ever installed in this run, or a file was created since the last removal
                            elif nact >= 0 and nact % 2 == 0: key += ':after-handler-removal'
                            else: key += ':handler-installed-but-default-action'
                        add(key, msg + ' [SIGINT k=%d, destination created at k=%s]' % (k, k_created), si * 100000 + 50000 + k)
        # SIGINT handled on ANOTHER thread (process-directed signal while the stopped thread is not eligible): the handler deletes the artefact while
        # the main thread keeps running towards --rm. Only the data-recoverability rule is judged here (keys carry the delivery mode).
        if sc['name'] in ('compress-rm', 'decompress-rm') or (thorough and '--rm' in sc['argv']):
            lo = max(1, (k_created or 1) - 2)
            with ThreadPoolExecutor(core.NPROC) as ex:
                for rep in range(3 if thorough else 2):
                    for k, outp, vv, st in ex.map(lambda kk: one(kk, 'intany'), list(range(lo, N + 1))):
                        stats['intany_runs'] = stats.get('intany_runs', 0) + 1
                        for key, msg in vv:
                            if key.startswith('data-loss'):
                                add('sigint-handled-on-worker-thread:' + key, msg + ' [process-directed SIGINT at k=%d of %d, handler ran on a pool thread while the main thread went on]' % (k, N), si * 100000 + 70000 + k)
        shutil.rmtree(tmpl, ignore_errors=True)

    # ------------------------------------------------------------------ injected I/O faults (strace -e inject): the k-th write / read / close / openat of the
    # process tree fails with ENOSPC / EIO / EACCES. When the failed call was on a source or destination of the invocation the operation has failed:
    # non-zero exit, no (partial) destination left behind, and - as always - no data loss.
    stats['iofault_runs'] = 0; stats['iofault_fired_on_operands'] = 0; stats['iofault_cells'] = {}
    fault_scs = [sc for sc in scenarios(random.Random(seed * 7919 + 19), thorough) if sc['name'] in ('compress-rm', 'decompress-rm', 'compress-force-rm', 'compress-two-rm', 'decompress-big-rm', 'compress-T2-rm-big', 'decompress-sparse-rm', 'compress-o-rm', 'compress-outdir-rm')]
    FAULTS = [('write', 'ENOSPC'), ('write', 'EIO'), ('read', 'EIO'), ('close', 'EIO'), ('openat', 'EACCES')]
    for si, sc in enumerate(fault_scs):
        tmpl = os.path.join(R.tmp, 'ftmpl-%d' % si)
        orig_plain_t = materialise(env, sc, tmpl)
        init_hash = {n.rstrip('!'): sha(os.path.join(tmpl, n.rstrip('!'))) for n in sc['files']}
        operands = set()
        for src, dst, kind in sc['pairs']:
            operands.add(src)
            if dst: operands.add(dst)

        def fone(arg):
            sysc, errn, k = arg
            d = os.path.join(R.tmp, 'frun-%d-%s-%s-%d' % (si, sysc, errn, k))
            shutil.copytree(tmpl, d)
            try:
                log = os.path.join(d, '.strace.log')
                q = subprocess.run(['strace', '-f', '-y', '-q', '-o', log, '-e', 'trace=' + sysc, '-e', 'inject=%s:error=%s:when=%d' % (sysc, errn, k), env.cli, '-q'] + sc['argv'],
                                   cwd=d, stdout=subprocess.PIPE, stderr=subprocess.PIPE, text=True, errors='replace', timeout=300)
                inj = [l for l in open(log, errors='replace').read().split('\n') if '(INJECTED)' in l] if os.path.exists(log) else []
                try: os.unlink(log)
                except OSError: pass
                if not inj:
                    return arg, None, q.returncode, [], ''
                m = re.search(r'<([^>]*)>', inj[0]) or re.search(r'"([^"]*)"', inj[0])
                path = m.group(1) if m else ''
                rel = os.path.relpath(path, d) if path.startswith(d + '/') else None
                vv, st = judge_state(env, sc, d, init_hash, orig_plain_t)
                extra = []
                if rel in operands and not (sysc == 'close' and rel in [p_[0] for p_ in sc['pairs']]):     # a failed close of a SOURCE is harmless
                    if q.returncode == 0:
                        extra.append(('io-fault:failed-operation-exits-0', '%s: %s(%s) failed with %s, exit status 0' % (sc['name'], sysc, rel, errn)))
                    for src, dst, kind in sc['pairs']:
                        if dst and rel in (src, dst):
                            dp = os.path.join(d, dst)
                            if os.path.exists(dp):
                                okd = env.verify(dp, orig_plain_t[src]) if kind == 'c' else sha(dp) == sha(orig_plain_t[src])
                                if not okd and not (dst in init_hash and sha(dp) == init_hash[dst]):     # an untouched pre-existing destination is not an output of this run
                                    extra.append(('io-fault:partial-destination-left-behind:%s-%s:%s' % (sysc, 'destination' if rel == dst else 'source', 'empty-destination' if os.path.getsize(dp) == 0 else 'non-empty-destination'), '%s: %s(%s) failed with %s (exit %d): %s left with %d bytes: %s' % (sc['name'], sysc, rel, errn, q.returncode, dst, os.path.getsize(dp), q.stderr.strip()[-120:])))
                return arg, rel, q.returncode, vv + extra, st
            finally:
                shutil.rmtree(d, ignore_errors=True)

        for sysc, errn in FAULTS:
            k0 = 1
            done = False
            while not done and k0 < 400:
                batch = [(sysc, errn, k) for k in range(k0, k0 + core.NPROC)]
                k0 += core.NPROC
                with ThreadPoolExecutor(core.NPROC) as ex:
                    for arg, rel, rc, vv, st in ex.map(fone, batch):
                        if rel is None and not vv and st == '':
                            done = True      # k beyond the number of such calls
                            continue
                        stats['iofault_runs'] += 1
                        if rel in operands:
                            stats['iofault_fired_on_operands'] += 1
                            cell = '%s|%s(%s)|exit%s' % (sc['name'], arg[0], 'dst' if rel in [p_[1] for p_ in sc['pairs']] else 'src', 'nonzero' if rc else '0')
                            stats['iofault_cells'][cell] = stats['iofault_cells'].get(cell, 0) + 1
                        for key, msg in vv:
                            add(key, msg + ' [injected %s %s at call %d]' % (arg[0], arg[1], arg[2]), 900000 + si * 10000 + arg[2])
        shutil.rmtree(tmpl, ignore_errors=True)

    # ------------------------------------------------------------------ end-state checks
    ed = os.path.join(R.tmp, 'end')
    os.makedirs(ed)
    x = gen_bytes(rng, 70000, 'text')
    open(os.path.join(ed, 'x'), 'wb').write(x)
    env.run_cli(ed, ['-q', 'x', '-o', 'x.zst'])
    good = open(os.path.join(ed, 'x.zst'), 'rb').read()

    def endcase(name, blob, args, expect_ok, dst='o'):
        d = os.path.join(ed, name)
        os.makedirs(d)
        open(os.path.join(d, 'in.zst'), 'wb').write(blob)
        lib = env.verdict(os.path.join(d, 'in.zst'))
        rc, so, se = env.run_cli(d, ['-q'] + args)
        stats['endstate_checks'] += 1
        lib_ok = lib.startswith('ACCEPT')
        if lib_ok != expect_ok:
            add('end-state:harness-expectation-differs-from-library', '%s: library says %s' % (name, lib), 0)
        if (rc == 0) != lib_ok:
            add('end-state:cli-verdict-differs-from-library', '%s: zstd %s exits %d, library verdict %s' % (name, ' '.join(args), rc, lib), 0)
        outp = os.path.join(d, dst)
        if not lib_ok:
            if os.path.exists(outp) and '-t' not in args:
                add('end-state:failed-operation-left-an-output-file', '%s: %s exists (%d bytes) after exit %d' % (name, dst, os.path.getsize(outp), rc), 0)
            if not os.path.exists(os.path.join(d, 'in.zst')):
                add('end-state:failed-operation-removed-the-source', name, 0)
        elif '-t' not in args:
            got = open(outp, 'rb').read() if os.path.exists(outp) else None
            if got is None or ('%016x' % 0) is None:
                add('end-state:successful-decompression-wrote-nothing', name, 0)
            else:
                import struct
                # compare with the library's bytes through hash + size reported by the tool
                size = int(lib.split()[1])
                if len(got) != size:
                    add('end-state:decompressed-file-differs-from-library-output', '%s: %d bytes vs %d' % (name, len(got), size), 0)
        return rc

    endcase('valid', good, ['-d', '--rm', 'in.zst', '-o', 'o'], True)
    endcase('valid-test', good, ['-t', 'in.zst'], True)
    bad = bytearray(good); bad[len(bad) // 2] ^= 0x10
    endcase('corrupted', bytes(bad), ['-d', '--rm', 'in.zst', '-o', 'o'], False)
    endcase('corrupted-test', bytes(bad), ['-t', 'in.zst'], False)
    for cut in (1, 3, 5, 9, len(good) // 2, len(good) - 5, len(good) - 1):
        endcase('truncated-%d' % cut, good[:cut], ['-d', '--rm', 'in.zst', '-o', 'o'], False)
    endcase('trailing-garbage', good + b'\x01\x02\x03\x04 trailing bytes that are not a frame', ['-d', '--rm', 'in.zst', '-o', 'o'], False)
    endcase('two-frames', good + good, ['-d', '--rm', 'in.zst', '-o', 'o'], True)
    endcase('empty-file', b'', ['-d', '--rm', 'in.zst', '-o', 'o'], False)
    # multi-file lists: a damaged file must not change the verdict on the files around it
    for which in ('truncated-first', 'corrupted-first', 'damaged-middle'):
        d = os.path.join(ed, 'list-' + which); os.makedirs(d)
        blobs = {'f1.zst': good, 'f2.zst': good, 'f3.zst': good}
        if which == 'truncated-first': blobs['f1.zst'] = good[:len(good) // 3]
        if which == 'corrupted-first': blobs['f1.zst'] = bytes(bad)
        if which == 'damaged-middle': blobs['f2.zst'] = good[:len(good) - 7]
        for n_, b_ in blobs.items(): open(os.path.join(d, n_), 'wb').write(b_)
        rc, so, se = env.run_cli(d, ['-q', '-d', 'f1.zst', 'f2.zst', 'f3.zst'])
        stats['endstate_checks'] += 1
        for n_ in blobs:
            lib_ok = env.verdict(os.path.join(d, n_)).startswith('ACCEPT')
            outp = os.path.join(d, n_[:-4])
            if lib_ok and (not os.path.exists(outp) or open(outp, 'rb').read() != x):
                add('end-state:valid-file-in-a-list-not-decompressed', '%s: %s is valid per the library but was not (correctly) decompressed; exit %d' % (which, n_, rc), 0)
            if not lib_ok and os.path.exists(outp):
                add('end-state:failed-operation-left-an-output-file', '%s: %s' % (which, n_), 0)
        if rc == 0:
            add('end-state:cli-verdict-differs-from-library', 'list %s: exit 0 although one file is invalid' % which, 0)
    # exit status over LONG lists: one invocation over k files that all fail (k around the multiples of 256: an exit status is reported modulo 256) must exit non-zero
    for k in ((255, 256, 257, 512, 768) if thorough else (255, 256, 512)):
        ld = os.path.join(ed, 'many%d' % k); os.makedirs(ld, exist_ok=True)
        names = []
        for i in range(k):
            n_ = 'b%04d.zst' % i; open(os.path.join(ld, n_), 'wb').write(good[:max(8, len(good) // 3)]); names.append(n_)
        for mode in ('-t', '-d'):
            rc, so, se = env.run_cli(ld, [mode, '-q'] + names, timeout=600)
            stats['endstate_checks'] += 1
            if rc == 0:
                add('end-state:cli-verdict-differs-from-library', 'list of %d truncated files with %s: exit status 0 although every file is invalid' % (k, mode), 0)
            if mode == '-d' and any(os.path.exists(os.path.join(ld, n_[:-4])) for n_ in names):
                add('end-state:failed-operation-left-an-output-file', 'list of %d truncated files' % k, 0)
        shutil.rmtree(ld, ignore_errors=True)
        stats['long_list_invocations'] = stats.get('long_list_invocations', 0) + 2
    # sparse == non-sparse == library, over zero-run layouts
    layouts = [[('z', 100000)], [('d', 65536), ('z', 65536), ('d', 65536)], [('d', 32768), ('z', 32768), ('d', 1)], [('z', 32768), ('d', 5)], [('d', 5), ('z', 32768 * 3)],
               [('d', 40000), ('z', 90000), ('d', 17)], [('d', 1), ('z', 131072), ('d', 131072), ('z', 1)], [('d', 98304), ('z', 32768), ('d', 32768), ('z', 65536), ('d', 3)]]
    for _ in range(12 if thorough else 4):
        sp = []
        for _i in range(rng.randint(2, 6)):
            sp.append((rng.choice('dz'), rng.choice([1, 7, 4096, 32768, 32768 * rng.randint(1, 4), rng.randint(1, 200000)])))
        layouts.append(sp)
    for li, spec in enumerate(layouts):
        d = os.path.join(ed, 'sparse-%d' % li); os.makedirs(d)
        content = zero_layout(rng, spec)
        open(os.path.join(d, 'c'), 'wb').write(content)
        env.run_cli(d, ['-q', 'c', '-o', 'c.zst'])
        for mode, outn in (('--sparse', 's'), ('--no-sparse', 'n')):
            rc, so, se = env.run_cli(d, ['-q', '-d', mode, 'c.zst', '-o', outn])
            got = open(os.path.join(d, outn), 'rb').read() if os.path.exists(os.path.join(d, outn)) else None
            stats['endstate_checks'] += 1
            if rc != 0 or got != content:
                add('end-state:sparse-output-differs', 'layout %s mode %s: rc=%d, %s' % (spec, mode, rc, 'missing' if got is None else 'content differs (first at %d, size %d vs %d)' % (next((i for i in range(min(len(got), len(content))) if got[i] != content[i]), -1), len(got), len(content))), 0)
        # existing destination + -f (default sparse policy for regular files)
        open(os.path.join(d, 'e'), 'wb').write(b'old' * 1000)
        rc, so, se = env.run_cli(d, ['-q', '-d', '-f', 'c.zst', '-o', 'e'])
        if rc != 0 or open(os.path.join(d, 'e'), 'rb').read() != content:
            add('end-state:sparse-output-differs', 'layout %s default policy with -f onto an existing file' % (spec,), 0)
    res.viol += viol
    nstates = sum(len(v) for v in states.values())
    cov = {
        'evaluations': stats['kill_runs'] + stats['int_runs'] + stats['endstate_checks'] + stats['iofault_runs'], 'iofault_runs': stats['iofault_runs'], 'iofault_fired_on_sources_or_destinations': stats['iofault_fired_on_operands'], 'iofault_cells': stats['iofault_cells'], 'distinct_nontrivial': stats['kill_runs'],
        'rule': 'invocation grammar (compress / decompress, --rm, -f, -o, several files, --output-dir-flat, -T2/-T0, --long, --sparse/--no-sparse, pre-existing destinations) x EVERY syscall index k = 1..N+11 of the process tree (exhaustive; N measured per invocation): SIGKILL just before syscall k, then a state oracle (hashes + library decoder + R) decides "source intact or destination complete" and "existing destination untouched without -f"; '
                'SIGINT at each k for the simple invocations; injected I/O faults (strace: every k-th write ENOSPC/EIO, read EIO, close EIO, openat EACCES of the process tree; when the failed call was on a source/destination: non-zero exit, no partial destination, no data loss); end-state checks for damaged inputs, file lists, -t, sparse vs non-sparse layouts. distinct non-trivial = kill points executed (each is a distinct crash point)',
        'exhaustive': True, 'invocations': stats['invocations'], 'kill_runs': stats['kill_runs'], 'sigint_runs': stats['int_runs'], 'sigint_on_worker_thread_runs': stats.get('intany_runs', 0), 'endstate_checks': stats['endstate_checks'], 'long_failing_list_invocations(255..768 files)': stats.get('long_list_invocations', 0), 'syscalls_per_invocation': stats['kill_points'],
        'distinct_filesystem_states_seen': {k: sorted(v) for k, v in states.items()}, 'distinct_states_total': nstates, 'samples': samples,
    }
    assumptions = ['SIGKILL of the process tree does not lose page-cache data; OS-crash durability is outside the property', 'CLI built from the tree without gzip/lzma/lz4', 'the oracle is the library decoder + R, never the CLI', 'thread schedules vary between runs: the oracle is state based, N+11 covers the variation']
    res.cases_done = stats['kill_runs']
    return core.finish(prop, tier, seed, 'fault_enumeration', res, cov, assumptions, t0, R)


def replay(prop, r):
    print('C19 replay: violations are identified by (invocation, kill point); re-run ./check C19 to re-enumerate. Recorded witness:')
    print(json.dumps(r, indent=1)[:2000])
    return 1
