"""C02 - see DESIGN.md section 4; streaming workloads of h_stream.c with prop=C02 oracles"""
from vlib import build, core

HARNESSES = {'h_stream/asan': ('h_stream', 'asan'), 'h_stream/plain': ('h_stream', 'plain'), 'h_stream/val': ('h_stream', 'val')}
PROP = 'C02'


def run(prop, tier, seed, t0):
    thorough = tier == 'thorough'
    exes = build.build_many([HARNESSES['h_stream/asan'], HARNESSES['h_stream/plain']])
    R = core.Runner(prop, tier, seed)
    res = core.Result()
    na, npl = (30000, 120000) if thorough else (1200, 2500)
    R.run_sharded(res, exes[0], ['prop=' + PROP], na, label='h_stream/asan', variant='asan')
    R.run_sharded(res, exes[1], ['prop=' + PROP], npl, label='h_stream/plain', variant='plain', first=na)
    res.other['vg'] = core.valgrind_stage(R, res, HARNESSES['h_stream/val'], ['prop=' + PROP], 3200 if thorough else 160, na + npl)
    return finish(prop, tier, seed, res, t0, R)


def finish(prop, tier, seed, res, t0, R):
    cov = {
        'evaluations': res.stat('cases'), 'distinct_nontrivial': res.ncells('script') + res.ncells('dhist'),
        'rule': 'input x parameter vector (incl. nbWorkers>=1, magicless) x 1..3 frames (+skippable frames) each compressed by a script indexed by input offset (slice lengths 1..MiB, continue/flush/end mix, empty end call, output capacities from 1 byte, compressStream2 and legacy compressStream/flushStream/endStream; 1 case in 4 through the stable-in / stable-out / stable-in+out buffer modes, the buffer-less Begin/Continue/End API (contiguous, every segment in its own memory, via ZSTD_copyCCtx; level or ZSTD_compressBegin_advanced) or ZBUFF); '
                'decoded one-shot, by the independent decoder R, by ZSTD_decompressStream under 2 random histories (incl. 1-byte in/out, drain-only calls, stableOutBuffer) with the rule "returns 0 exactly at frame ends with output flushed", buffer-less via nextSrcSizeToDecompress, and through ZBUFF_decompressContinue; plus the block-level API (compressBlock / decompressBlock / insertBlock) on the same data. distinct non-trivial = distinct (script class, api, MT, output class) + decoder history classes',
        'cases_under_valgrind_memcheck': res.other.get('vg', 0), 'stream_calls': res.stat('stream_calls'), 'decode_histories': res.stat('decode_histories'), 'drain_only_calls': res.stat('drain_only_calls'), 'bufferless_decodes': res.stat('bufferless_decodes'), 'frames_R_ok': res.stat('frames_R_ok'),
        'alt_entry_cells': res.cells.get('alt_entry', {}), 'blockapi_blocks': res.stat('blockapi_blocks'), 'blockapi_blocks_stored': res.stat('blockapi_blocks_stored'), 'script_cells': res.cells.get('script', {}), 'decoder_history_cells': res.cells.get('dhist', {}), 'applied_cells': res.ncells('applied'), 'memory_refusals': res.stat('memory_refusals'), 'params_rejected': res.stat('params_rejected'),
    }
    return core.finish(prop, tier, seed, 'exploration', res, cov, ['R + own XXH64', 'sampling of histories; sizes <= 1 MiB quick / 4 MiB thorough', 'ZSTD_compressStream2_simpleArgs and the ZSTD_initCStream_* family beyond initCStream are thin wrappers not driven separately'], t0, R)
