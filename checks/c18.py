"""C18 - dictionary training yields a usable dictionary or an error, never a bad one"""
from vlib import build, core

LD = ['-Wl,--wrap=malloc']
HARNESSES = {'h_c18/asan': ('h_c18', 'asan', dict(ldflags=LD)), 'h_c18/tsan': ('h_c18', 'tsan', dict(ldflags=LD))}


def run(prop, tier, seed, t0):
    thorough = tier == 'thorough'
    exes = build.build_many([HARNESSES['h_c18/asan'], HARNESSES['h_c18/tsan']])
    R = core.Runner(prop, tier, seed)
    res = core.Result()
    na, nt = (40000, 3000) if thorough else (900, 48)
    R.run_sharded(res, exes[0], [], na, label='h_c18/asan', variant='asan')
    env = {'TSAN_OPTIONS': 'allocator_may_return_null=1:halt_on_error=1:abort_on_error=1:report_thread_leaks=0:report_signal_unsafe=0'}
    R.run_sharded(res, exes[1], ['threads=3'], nt, env=env, label='h_c18/tsan', variant='tsan', first=na, wall=1200 if thorough else 600)
    cov = {
        'evaluations': res.stat('trainings'), 'distinct_nontrivial': res.ncells('outcome'),
        'rule': 'sample sets {0..3 samples, tiny samples, tiny alphabet, all identical, one huge sample, totals below the documented minimums, many with empty samples, regular} (sizes always sum to an exact-size guard-paged buffer) x capacities from 0 x algorithms {default, cover, fastCover, both optimisers, legacy, finalizeDictionary, addEntropyTablesFromBuffer} x parameters at and beyond bounds (k, d, f, accel, steps, splitPoint, shrinkDict, nbThreads 0..4, dictID); '
                'a non-error non-zero result must fit the capacity, load on both sides, carry one non-zero ID on all four queries, round-trip the samples (library + R); single-thread runs are repeated with different heap noise (--wrap=malloc fill) and must return the same bytes; TSan build runs the trainers with 3 threads. distinct non-trivial = distinct (algorithm, sample-set class, outcome) cells',
        'outcomes': res.cells.get('outcome', {}), 'sample_roundtrips': res.stat('sample_roundtrips'), 'determinism_pairs': res.stat('determinism_pairs'), 'degenerate_sets': res.stat('degenerate_sets'),
    }
    return core.finish(prop, tier, seed, 'exploration', res, cov, ['sample sizes always sum to the provided buffer (contract)', 'rejected parameters are accepted outcomes', 'TSan sees executed interleavings only'], t0, R)
