"""C01 - lossless one-shot round trip for every input and parameter set (DESIGN.md section 4, C01)"""
import time
from vlib import build, core

HARNESSES = {'h_c01/asan': ('h_c01', 'asan'), 'h_c01/plain': ('h_c01', 'plain'), 'h_c01/val': ('h_c01', 'val'), 'h_c01/msan': ('h_c01', 'msan')}


def run(prop, tier, seed, t0):
    thorough = tier == 'thorough'
    exes = build.build_many([HARNESSES['h_c01/asan'], HARNESSES['h_c01/plain']])
    R = core.Runner(prop, tier, seed)
    res = core.Result()
    n_asan = 60000 if thorough else 4000
    n_plain = 240000 if thorough else 6000
    R.run_sharded(res, exes[0], [], n_asan, label='h_c01/asan', variant='asan')
    # plain (-O2, asm paths) explores a disjoint case range
    R.run_sharded(res, exes[1], [], n_plain, label='h_c01/plain', variant='plain', first=n_asan)
    nvg = core.valgrind_stage(R, res, HARNESSES['h_c01/val'], [], 4800 if thorough else 320, n_asan + n_plain)
    nms = core.msan_stage(R, res, HARNESSES['h_c01/msan'], [], 40000 if thorough else 1600, n_asan + n_plain + (4800 if thorough else 320))
    cov = {
        'evaluations': res.stat('cases'), 'cases_under_valgrind_memcheck': nvg, 'cases_under_memory_sanitizer': nms,
        'distinct_nontrivial': res.ncells('nontrivial'),
        'rule': 'case = (seed, index) -> data family x size (0..16 dense, 2^k+-2, k*128KiB+-3, 92KiB multiples, random) x entry point x '
                'stratified parameter vector; non-trivial & distinct = distinct (entry point, APPLIED parameter cell from ZSTD_trace '
                '[strategy,row finder,LDM,splitter,targetCBlockSize,literal mode,dict,MT], data family) whose frame, per R events, holds >= 1 sequence and round-tripped through both decoders',
        'roundtrips_ok': res.stat('roundtrips_ok'), 'skipped_rejected_params': res.stat('skipped'), 'memory_refusals': res.stat('memory_refusals'),
        'bytes_in': res.stat('bytes_in'), 'sequences_seen_by_R': res.stat('sequences'),
        'blocks': {'compressed': res.stat('blocks_compressed'), 'raw': res.stat('blocks_raw'), 'rle': res.stat('blocks_rle'), 'with_long_lengths': res.stat('blocks_with_long_lengths')},
        'applied_cells': res.ncells('applied'), 'applied_strategy_x_minmatch': res.ncells('applied_strategy_mm'), 'applied_windowlogs': sorted(int(k) for k in res.cells.get('applied_wlog', {})),
        'entry_points': res.cells.get('ep', {}), 'literal_modes(type/streams)': res.cells.get('lit_type', {}), 'sequence_mode_bytes_seen': res.ncells('seq_modes'),
        'frames_referencing_dict': res.stat('frames_referencing_dict'),
    }
    assumptions = ['vendored educational decoder R + own XXH64 are correct (independent of lib/)', 'gcc ASan/UBSan runtime; guard pages for asm paths',
                   'no 32-bit build (no multilib): long-offset mode of 32-bit targets not exercised', 'windowLog > %d not run' % (27 if thorough else 24), 'sampling: held on the executions listed, not a proof']
    return core.finish(prop, tier, seed, 'exploration', res, cov, assumptions, t0, R)
