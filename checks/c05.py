"""C05 - see DESIGN.md section 4; streaming workloads of h_stream.c with prop=C05 oracles"""
from vlib import build, core

HARNESSES = {'h_stream/asan': ('h_stream', 'asan'), 'h_stream/plain': ('h_stream', 'plain')}
PROP = 'C05'


def run(prop, tier, seed, t0):
    thorough = tier == 'thorough'
    exes = build.build_many([HARNESSES['h_stream/asan'], HARNESSES['h_stream/plain']])
    R = core.Runner(prop, tier, seed)
    res = core.Result()
    na, npl = (30000, 120000) if thorough else (1200, 2500)
    R.run_sharded(res, exes[0], ['prop=' + PROP], na, label='h_stream/asan', variant='asan')
    R.run_sharded(res, exes[1], ['prop=' + PROP], npl, label='h_stream/plain', variant='plain', first=na)
    return finish(prop, tier, seed, res, t0, R)


def finish(prop, tier, seed, res, t0, R):
    cov = {
        'evaluations': res.stat('cases'), 'distinct_nontrivial': res.ncells('nontrivial') + res.ncells('script'),
        'rule': 'every frame emitted by streaming histories (ST and MT, dictionaries/prefixes, small windows with inputs longer than the window, long-range repetition) (1 case in 4 through stable-buffer modes, the buffer-less API incl. ZSTD_compressBegin_advanced / copyCCtx / scattered segments, or ZBUFF) is decoded by the independent decoder R, which enforces the window/offset rule itself and whose events feed the rule monitor: content size, checksum (own XXH64), dictID, reserved bit, block size vs min(128KiB, window, maxBlockSize), compressed block smaller than content, no 128KiB payload, first block RLE not followed by blocks, sequence section >= 4 bytes. '
                'distinct non-trivial = distinct applied-parameter cells (ZSTD_trace) + script classes with >= 1 block',
        'frames_conformance_checked': res.stat('frames_conformance_checked'), 'compressed_blocks': res.stat('rule_compressed_blocks'), 'rle_blocks': res.stat('rule_rle_blocks'), 'frames_with_checksum': res.stat('rule_checksum_applicable'),
        'fse_table_blocks': res.stat('rule_fse_tables_applicable'), 'frames_with_offset_within_1pct_of_window': res.stat('frames_with_offset_near_window_bound'), 'frames_reaching_into_dict': res.stat('frames_reaching_into_dict'),
        'frames_with_mid_frame_level_change(MT)': res.stat('frames_with_mid_frame_level_change'), 'alt_entry_cells': res.cells.get('alt_entry', {}), 'applied_cells': res.ncells('applied'), 'applied_windowlogs': sorted(int(k) for k in res.cells.get('applied_wlog', {})),
    }
    return core.finish(prop, tier, seed, 'exploration', res, cov, ['R + own XXH64 are the specification oracle', 'one-shot entry points are covered by C01 (R round trip) and C17 (sequence API); this check drives the streaming / MT entry points', 'sampling'], t0, R)
