"""C12 - thread pool: exactly-once execution, join/resize/free safe under every schedule (serialising seeded scheduler + TSan/ASan stress)"""
from vlib import build, core

WRAP = ['-Wl,' + ','.join('--wrap=' + f for f in ('pthread_create', 'pthread_join', 'pthread_mutex_init', 'pthread_mutex_destroy', 'pthread_mutex_lock', 'pthread_mutex_unlock',
        'pthread_mutex_trylock', 'pthread_cond_init', 'pthread_cond_destroy', 'pthread_cond_wait', 'pthread_cond_signal', 'pthread_cond_broadcast'))]
HARNESSES = {
    'h_c12/det': ('h_c12', 'plain', dict(sources=['h_c12.c', 'vsched.c'], ldflags=WRAP, refdec=False)),
    'h_c12/det-asan': ('h_c12', 'asan', dict(sources=['h_c12.c', 'vsched.c'], ldflags=WRAP, refdec=False)),
    'h_c12/tsan': ('h_c12s', 'tsan', dict(sources=['h_c12.c', 'vsched.c'], cflags=['-DSCHED_STRESS'], ldflags=WRAP, refdec=False)),
}


def run(prop, tier, seed, t0):
    thorough = tier == 'thorough'
    exes = build.build_many([HARNESSES['h_c12/det'], HARNESSES['h_c12/det-asan'], HARNESSES['h_c12/tsan']])
    R = core.Runner(prop, tier, seed)
    res = core.Result()
    nprog, nsched = (2000, 1500) if thorough else (60, 400)
    R.run_sharded(res, exes[0], ['nsched=%d' % nsched], nprog * nsched, label='h_c12/det', variant='plain')
    det = res.stat('schedules')
    # ASan variant of the deterministic run (use-after-free on join/free/resize paths), fewer schedules
    na = (400, 200) if thorough else (40, 60)
    R.run_sharded(res, exes[1], ['nsched=%d' % na[1]], na[0] * na[1], label='h_c12/det-asan', variant='asan', first=10_000_000)
    # TSan stress with seeded delays (real threads): race reports are violations
    nt = (300, 40) if thorough else (30, 12)
    env = {'TSAN_OPTIONS': 'allocator_may_return_null=1:halt_on_error=1:abort_on_error=1:second_deadlock_stack=1:report_signal_unsafe=0:report_thread_leaks=0'}
    R.run_sharded(res, exes[2], ['nsched=%d' % nt[1]], nt[0] * nt[1], env=env, label='h_c12/tsan', variant='tsan', first=20_000_000, wall=240 if thorough else 90)
    cov = {
        'evaluations': res.stat('schedules'),
        'distinct_nontrivial': res.stat('distinct_schedules'),
        'rule': 'client programs from the grammar {add, tryAdd, joinJobs, resize(1..3), add of a job that itself posts} x pools (1..3 threads, queue 0..2) x 1..3 posting threads; one program in five instead has the k-th worker-thread creation refused (EAGAIN) inside POOL_create, which must fail with every started worker joined; each program under many seeded schedules of a serialising scheduler that models POSIX (cond_signal wakes ANY one waiter, spurious wake-ups) with uniform and PCT (0..3 change points) strategies; '
                'distinct non-trivial = distinct (program, hash of the full (thread,op,object) event sequence) interleavings actually executed (deterministic builds); TSan/ASan stress runs counted in evaluations only',
        'programs': res.ncells('program'), 'pool_configs': res.cells.get('config', {}), 'deterministic_schedules': det, 'sched_steps': res.stat('sched_steps'),
        'schedules_with_a_cond_wait': res.stat('schedules_with_cond_wait'), 'cond_waits': res.stat('cond_waits'), 'mutex_blocks': res.stat('mutex_blocks'), 'spurious_wakeups_injected': res.stat('spurious_wakeups'), 'preemptions': res.stat('preemptions'),
        'pool_creations_with_a_refused_worker_thread': res.stat('create_faults'), 'create_fault_cells': res.cells.get('create_fault', {}), 'jobs_accepted': res.stat('jobs_accepted'), 'jobs_refused_by_tryAdd': res.stat('jobs_refused'),
    }
    assumptions = ['the shim\'s model of POSIX mutex/condition-variable semantics (signal wakes any one waiter; spurious wake-ups allowed)', 'schedules are sampled (uniform + PCT), not enumerated',
                   'scheduling points are the pthread calls: interleavings of unsynchronised accesses between them are left to TSan', 'TSan sees only executed paths']
    return core.finish(prop, tier, seed, 'exploration', res, cov, assumptions, t0, R)
