"""C14 - memory budgets hold: estimates suffice, static contexts, decoder window limit"""
from vlib import build, core

LD = ['-Wl,--wrap=malloc', '-Wl,--wrap=calloc', '-Wl,--wrap=free']
HARNESSES = {'h_c14/asan': ('h_c14', 'asan', dict(ldflags=LD, refdec=False))}


def run(prop, tier, seed, t0):
    thorough = tier == 'thorough'
    s = HARNESSES['h_c14/asan']
    exe = build.build_harness(s[0], s[1], **s[2])
    R = core.Runner(prop, tier, seed)
    res = core.Result()
    nc, nd = (30000, 6000) if thorough else (2200, 220)   # the first 552 cases are the exhaustive (L, l<=L) level grid
    R.run_sharded(res, exe, ['side=0'], nc, label='h_c14/asan', variant='asan')
    R.run_sharded(res, exe, ['side=1'], nd, label='h_c14/asan', variant='asan')
    cov = {
        'evaluations': res.stat('cside_cases') + res.stat('dside_cases'),
        'distinct_nontrivial': res.ncells('est_cell') + res.ncells('dlimit') + res.ncells('dstatic'),
        'rule': 'compression side: (L, l<=L) level pairs for estimateCCtxSize / estimateCStreamSize, exact cParams vectors (strategy x minMatch x {min,mid,max} logs) for *_usingCParams, CCtxParams vectors (LDM sub-parameters, row finder, minMatch 3, maxBlockSize, targetCBlockSize, stable buffers) for *_usingCCtxParams, static CDict/DDict; '
                'each used inside a guard-zoned block of exactly the estimated size with --wrap=malloc counting (must stay 0), source sizes around the size tiers; decoder side: frames with windows 2^10..2^22(24) against limits W around the frame window on buffering histories (heap + static DStream), forged window descriptors, counting allocator vs estimateDStreamSize, ZSTD_sizeof_* vs bytes held. '
                'distinct non-trivial = distinct estimate cells (kind, level pair / strategy,minMatch,windowLog / option flags) + window-limit decision cells',
        'level_grid': 'all (L, l<=L) pairs for L in -3..19, one-shot and streaming (exhaustive, 552 cases), input 1.5 MB', 'compression_cases': res.stat('cside_cases'), 'static_context_uses': res.stat('static_uses'), 'params_rejected': res.stat('params_rejected'),
        'min_slack_bytes(estimate - ZSTD_sizeof_CCtx)': -res.maxes.get('min_slack_negated', 0), 'decoder_cases': res.stat('dside_cases'), 'forged_header_cases': res.stat('forged_header_cases'),
        'sizeof_checks': res.stat('sizeof_checks'), 'window_limit_decisions': res.cells.get('dlimit', {}), 'static_dstream_decisions': res.cells.get('dstatic', {}),
        'min_decoder_slack_bytes': -res.maxes.get('decoder_slack_negated', 0),
    }
    assumptions = ['level 0 is normalised to the default level', 'refusal of a frame beyond the window limit is required only on histories where the decoder has to buffer (single-pass shortcut legitimately decodes into the caller\'s buffer)',
                   'legacy stream contexts (default allocator) are outside the documented budget', 'windows above 2^22 (2^24 thorough) not run']
    return core.finish(prop, tier, seed, 'exploration', res, cov, assumptions, t0, R)
