"""C07 - compressed output is a pure function of input, parameters, dictionary and calls (paired executions, byte compare)"""
from vlib import build, core

HARNESSES = {'h_c07/plain': ('h_c07', 'plain'), 'h_c07/asan': ('h_c07', 'asan'), 'h_c07/val': ('h_c07', 'val'), 'h_c07/msan': ('h_c07', 'msan')}


def run(prop, tier, seed, t0):
    thorough = tier == 'thorough'
    exes = build.build_many([HARNESSES['h_c07/plain'], HARNESSES['h_c07/asan']])
    R = core.Runner(prop, tier, seed)
    res = core.Result()
    npl, na = (40000, 6000) if thorough else (900, 200)
    R.run_sharded(res, exes[0], [], npl, label='h_c07/plain', variant='plain')
    R.run_sharded(res, exes[1], [], na, label='h_c07/asan', variant='asan', first=npl)
    # valgrind memcheck: does any branch / address of the compressor depend on an uninitialised value? (the direct form of 'output does not depend on stale memory')
    nvg = core.valgrind_stage(R, res, HARNESSES['h_c07/val'], [], 1600 if thorough else 32, npl + na)
    # MemorySanitizer build (library, harness and oracle instrumented): fresh allocator memory and static workspaces are handed out poisoned, so a compressor
    # decision - or an output byte, through the memcmp of the paired outputs - that depends on memory nobody wrote is reported where it happens
    nms = core.msan_stage(R, res, HARNESSES['h_c07/msan'], [], 6000 if thorough else 64, npl + na + (1600 if thorough else 32))
    cov = {
        'evaluations': res.stat('pairs'), 'workloads_under_valgrind_memcheck': nvg, 'workloads_under_memory_sanitizer': nms, 'distinct_nontrivial': res.stat('workloads'),
        'rule': 'workload = (input, parameter vector incl. MT, dictionary mode, script indexed by input offset or compress2); reference = fresh context on a zero-filled heap; variants differ in exactly one of: second fresh context, reuse, heap fill 0xFF / noise, prior context history (other frames and parameters, failed and aborted operations + reset, prefixes, dictionaries), '
                'static context in noise-filled caller memory, buffer placement/alignment, output-capacity sequence, number of workers; on a difference both frames are parsed by R and classified (header / block boundaries / same boundaries). distinct non-trivial = distinct workloads whose reference compression succeeded (each yields 8-12 pairs)',
        'pairs': res.stat('pairs'), 'pairs_identical': res.stat('pairs_identical'), 'pairs_per_axis': res.cells.get('axis', {}), 'memory_refusals': res.stat('memory_refusals'), 'applied_cells': res.ncells('applied'),
    }
    return core.finish(prop, tier, seed, 'exploration', res, cov, ['schedule axis of MT determinism is exercised in C11 (serialised schedules, byte compare across schedules)', 'definedness is judged by MemorySanitizer and valgrind memcheck on a share of the workloads and by heap-fill pairs on all', 'sampling'], t0, R)
