"""C11 - multithreaded compression is correct, race-free and live under every schedule"""
from vlib import build, core
from checks.c12 import WRAP

HARNESSES = {
    'h_c11/det': ('h_c11', 'plain', dict(sources=['h_c11.c', 'vsched.c'], ldflags=WRAP)),
    'h_c11/tsan': ('h_c11s', 'tsan', dict(sources=['h_c11.c', 'vsched.c'], cflags=['-DSCHED_STRESS'], ldflags=WRAP)),
    'h_c11/det-asan': ('h_c11', 'asan', dict(sources=['h_c11.c', 'vsched.c'], ldflags=WRAP)),
}


def run(prop, tier, seed, t0):
    thorough = tier == 'thorough'
    exes = build.build_many([HARNESSES['h_c11/det'], HARNESSES['h_c11/tsan'], HARNESSES['h_c11/det-asan']])
    R = core.Runner(prop, tier, seed)
    res = core.Result()
    nw, ns = (600, 100) if thorough else (64, 25)
    R.run_sharded(res, exes[0], ['nsched=%d' % ns], nw * ns, label='h_c11/det', variant='plain', nshards=min(core.NPROC * 2, nw))
    det = res.stat('schedules')
    # ASan under the serialising scheduler (use-after-free / overflow on reset, resize and round-buffer reuse paths)
    na = (120, 10) if thorough else (16, 4)
    R.run_sharded(res, exes[2], ['nsched=%d' % na[1]], na[0] * na[1], label='h_c11/det-asan', variant='asan', first=5_000_000)
    # TSan with real threads and seeded delays
    nt = (300, 10) if thorough else (20, 2)
    env = {'TSAN_OPTIONS': 'allocator_may_return_null=1:halt_on_error=1:abort_on_error=1:report_thread_leaks=0:report_signal_unsafe=0'}
    R.run_sharded(res, exes[1], ['nsched=%d' % nt[1]], nt[0] * nt[1], env=env, label='h_c11/tsan', variant='tsan', first=10_000_000, wall=900 if thorough else 400)
    # stratum "input ring laps" on its own (LDM + >= 3 workers + window >= nbWorkers x jobSize + an input of several ring laps + bursty caller): serialised
    # schedules (round trip + byte equality across schedules) and TSan with real threads (caller's refill of a ring slot vs the serial LDM pass reading it)
    nr = (96, 40) if thorough else (16, 25)
    R.run_sharded(res, exes[0], ['ringonly=1', 'nsched=%d' % nr[1]], nr[0] * nr[1], label='h_c11/det', variant='plain', first=20_000_000, nshards=min(core.NPROC * 2, nr[0]))
    nrt = (48, 4) if thorough else (8, 2)
    R.run_sharded(res, exes[1], ['ringonly=1', 'nsched=%d' % nrt[1]], nrt[0] * nrt[1], env=env, label='h_c11/tsan', variant='tsan', first=30_000_000, wall=1800 if thorough else 600)
    cov = {
        'evaluations': res.stat('schedules'), 'ring_lap_workloads': res.stat('ring_lap_workloads'), 'mid_frame_level_raise_on_far_repeat_workloads': res.stat('far_repeat_level_raise_workloads'), 'broadcasts_with_several_waiters': res.stat('broadcasts_with_several_waiters'), 'signals_with_several_waiters': res.stat('signals_with_several_waiters'), 'distinct_nontrivial': res.stat('distinct_schedules'),
        'rule': 'MT workloads (nbWorkers 1..6, jobSize min / 1-3 MiB (several chunks per job) / default, overlapLog 0..9, rsyncable, LDM, checksum, dictionary/prefix, levels, strategies) x scripts indexed by input offset with small output windows, mid-frame authorised parameter changes, reset mid-frame with jobs in flight then reuse, shared thread pool, progression polling; '
                'each workload under many seeded schedules (uniform and PCT) of the serialising scheduler: deadlock = no runnable thread, livelock = step bound, every frame verified by the library decoder and R (checksum by own XXH64), output compared byte for byte with the reference schedule; plus ASan under the scheduler and TSan with real threads + seeded delays. '
                'distinct non-trivial = distinct (workload, hash of the full (thread, op, object) event sequence) interleavings executed',
        'workloads': res.ncells('workload'), 'mt_config_cells': res.ncells('mtcfg'), 'deterministic_schedules': det, 'sched_steps': res.stat('sched_steps'), 'cond_waits': res.stat('cond_waits'), 'mutex_blocks': res.stat('mutex_blocks'), 'preemptions': res.stat('preemptions'),
        'schedules_where_a_thread_waited_on_a_condition': res.stat('schedules_where_a_thread_waited_on_a_condition'), 'frames_verified': res.stat('frames_verified'), 'frames_with_verified_checksum': res.stat('frames_with_verified_checksum'),
        'frames_with_long_distance_matches': res.stat('frames_with_long_distance_matches'), 'outputs_identical_to_reference_schedule': res.stat('outputs_identical_to_reference_schedule'), 'outputs_differing': res.stat('outputs_differing_from_reference_schedule'),
    }
    assumptions = ['shim model of POSIX mutex/condvar semantics; scheduling points are the pthread calls', 'schedules sampled, not enumerated', 'TSan sees executed paths within its history window only']
    return core.finish(prop, tier, seed, 'exploration', res, cov, assumptions, t0, R)
