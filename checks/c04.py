"""C04 - every decoding path and build variant yields the specified output for every valid frame"""
import os, glob, shutil, subprocess
from concurrent.futures import ThreadPoolExecutor
from vlib import build, core
from checks import c03

VARIANTS = ['plain', 'v_noasm', 'v_nobmi2', 'v_x1', 'v_x2', 'v_seqshort', 'v_seqlong', 'v_nolegacy', 'asan']
HARNESSES = {'h_c04/' + v: ('h_c04', v) for v in VARIANTS}
HARNESSES['decodecorpus'] = c03.HARNESSES['decodecorpus']


def run(prop, tier, seed, t0):
    thorough = tier == 'thorough'
    specs = [HARNESSES['h_c04/' + v] for v in VARIANTS] + [HARNESSES['decodecorpus']]
    exes = build.build_many(specs)
    exe = dict(zip(VARIANTS, exes[:-1]))
    R = core.Runner(prop, tier, seed)
    d = os.path.join(R.tmp, 'frames')
    c03.make_corpus(exes[-1], os.path.join(d, 'base-tmp'), 2500 if thorough else 350, 800 if thorough else 120, seed=1000 + seed)
    os.makedirs(os.path.join(d, 'base'), exist_ok=True)
    os.rename(os.path.join(d, 'base-tmp', 'plain'), os.path.join(d, 'base', 'plain'))
    os.rename(os.path.join(d, 'base-tmp', 'dict'), os.path.join(d, 'base', 'dict'))
    shutil.rmtree(os.path.join(d, 'base-tmp'), ignore_errors=True)
    for g in glob.glob(os.path.join(build.REPO, 'tests', 'golden-decompression', '*.zst')):
        shutil.copy(g, os.path.join(d, 'base', 'plain', 'golden-' + os.path.basename(g)))
    gres = core.Result()
    R.run_range(gres, exe['plain'], ['mode=gen', 'dir=' + d, 'ncomp=%d' % (3000 if thorough else 350), 'nforge=%d' % (80 if thorough else 8), 'nstraddle=%d' % (4000 if thorough else 160), 'nfdict=%d' % (1500 if thorough else 60)], 0, 1, label='h_c04/plain', variant='plain')
    nframes = int(gres.other.get('GEN', [['0']])[0][0])
    forged = gres.other.get('FORGED', []); forge_refused = gres.other.get('FORGE-REFUSED', [])
    viol_gen = [{'key': 'generator:forged-valid-parse-refused-by-compressSequences', 'case': 0, 'msg': str(f), 'replay': {'label': 'h_c04/plain', 'args': [], 'seed': seed, 'case': 0}} for f in forge_refused]
    if nframes < 100:
        raise build.BuildError('C04: frame generation produced only %d frames' % nframes)
    shutil.rmtree(os.path.join(d, 'base'), ignore_errors=True)
    # reference decoder
    ref = core.Result()
    R.run_sharded(ref, exe['plain'], ['mode=ref', 'dir=' + d], nframes, label='h_c04/plain', variant='plain')
    rtab = {f[0]: (f[1], f[2], f[3], f[4]) for f in ref.other.get('R', [])}
    viol = list(ref.viol) + viol_gen
    for f in ref.other.get('RSRC', []):
        viol.append({'key': 'reference:R-output-differs-from-generator-original', 'case': 0, 'msg': f[0], 'replay': {'label': 'h_c04/plain', 'args': [], 'seed': seed, 'case': 0}})
    # every variant, every path
    tabs = {}
    res_all = core.Result()
    res_all.stats = dict(ref.stats); res_all.cells = dict(ref.cells)
    for v in VARIANTS:
        rv = core.Result()
        R.run_sharded(rv, exe[v], ['mode=run', 'dir=' + d], nframes, label='h_c04/' + v, variant=v)
        viol += rv.viol
        res_all.procs += rv.procs
        res_all.inconclusive += rv.inconclusive
        t = {}
        for f in rv.other.get('D', []):
            t[(f[0], f[1])] = (f[2], f[3], f[4])
        tabs[v] = t
    # compare
    ncmp = 0; nvalid = 0; nagree = 0
    frames = sorted(rtab)
    def add(key, msg):
        viol.append({'key': key, 'case': 0, 'msg': msg, 'replay': {'label': 'h_c04/plain', 'args': ['mode=run', 'dir=<regenerate with ./check C04>'], 'seed': seed, 'case': 0, 'what': msg}})
    paths_seen = set()
    for fr in frames:
        rstat, rlen, rhash, kind = rtab[fr]
        results = {}
        for v in VARIANTS:
            for (f2, p), val in tabs[v].items():
                pass
        for v in VARIANTS:
            for p in ('oneshot', 'stream0', 'stream1', 'stableout', 'stream-after-other-frame', 'noasm-param', 'continue', 'inplace', 'ddict-cold', 'ddict-warm', 'ddict-stream', 'oneshot-exact', 'stableout-exact', 'ddict-exact', 'exact-canary'):
                val = tabs[v].get((fr, p))
                if val is None or val[0] == 'PARTIAL':
                    continue
                results[(v, p)] = val
                paths_seen.add(p)
        if not results:
            continue
        if kind == 'base' and rstat == 'OK':
            nvalid += 1
            for (v, p), (st, ln, hs) in results.items():
                ncmp += 1
                if st != 'OK':
                    add('valid-frame-rejected:%s:%s' % (v, p), 'frame %s (accepted by R, %s bytes) is rejected by path %s of build variant %s' % (fr, rlen, p, v))
                elif (ln, hs) != (rlen, rhash):
                    add('wrong-output:%s:%s' % (v, p), 'frame %s: path %s of variant %s regenerates %s bytes hash %s, R regenerates %s bytes hash %s' % (fr, p, v, ln, hs, rlen, rhash))
        # agreement half (all frames, including mutated ones): every path/variant must agree on accept/reject and on the bytes
        # 'inplace' needs a usable bound/margin: only compared when present
        vals = set((st, ln if st == 'OK' else '', hs if st == 'OK' else '') for (st, ln, hs) in results.values())
        if rstat != 'OK':
            # the property quantifies over frames R accepts; disagreement about how an INVALID frame fails is outside it (counted for evidence)
            if len(vals) > 1:
                res_all.stats['invalid_frames_with_path_disagreement(out of scope)'] = res_all.stats.get('invalid_frames_with_path_disagreement(out of scope)', 0) + 1
            continue
        if len(vals) > 1:
            # describe the split
            groups = {}
            for (v, p), (st, ln, hs) in results.items():
                groups.setdefault((st, ln if st == 'OK' else '', hs if st == 'OK' else ''), []).append('%s/%s' % (v, p))
            minority = min(groups.values(), key=len)
            vset = sorted(set(x.split('/')[0] for x in minority)); pset = sorted(set(x.split('/')[1] for x in minority))
            add('paths-disagree:%s:%s' % ('+'.join(vset) if len(vset) < 4 else 'many-variants', '+'.join(pset) if len(pset) < 4 else 'many-paths'),
                'frame %s (%s, R says %s): %s' % (fr, kind, rstat, '; '.join('%s -> %s' % (k[0] + (':' + k[1] if k[1] else ''), ','.join(sorted(g)[:6])) for k, g in groups.items())))
        else:
            nagree += 1
    # valgrind memcheck over the uninstrumented build (assembly loops on) for a share of the frames: definedness on every decode path
    HARNESSES.setdefault('h_c04/val', ('h_c04', 'val'))
    vres = core.Result()
    nvg = core.valgrind_stage(R, vres, HARNESSES['h_c04/val'], ['mode=run', 'dir=' + d], min(nframes, 3000 if thorough else 160), 0)
    viol += vres.viol
    res_all.inconclusive += vres.inconclusive
    res_all.viol = viol
    nmut = sum(1 for f in rtab.values() if f[3] == 'mut'); nmut_ok = sum(1 for f in rtab.values() if f[3] == 'mut' and f[0] == 'OK')
    cov = {
        'evaluations': ncmp + nagree, 'distinct_nontrivial': nvalid,
        'rule': 'frame set = tests/decodecorpus.c frames built from the tree (with and without dictionary; format features the compressor never emits), golden files, compressor output aimed at long offsets / big windows / >64 KiB literal sections / dictionaries, tiny dictionary frames whose matches start in the dictionary and run on into the first bytes of the frame itself (forged parses and compress2), tiny frames over assembled formatted dictionaries whose start repeat offsets are not 1/4/8 with first matches exactly at those offsets, plus bit-flipped copies; '
                'R (independent decoder, forked for mutated input) decides validity and the expected bytes; each frame goes through 14 decode paths {one-shot, one-shot / stableOut / DDict into a guard-paged destination of exactly the content size, 2 streaming segmentations, streaming on a context sized by another frame, stableOut, disableHuffmanAssembly, buffer-less, in-place with advertised margin, DDict cold/warm/streaming} in 9 build variants '
                '{default asm+BMI2, no asm, no BMI2, HUF X1, HUF X2, short / long(prefetch) sequence decoder, no legacy, ASan}; valid frames must succeed with R\'s bytes everywhere; all frames must get the same verdict and bytes on every path. distinct non-trivial = valid base frames compared',
        'frames_under_valgrind_memcheck': nvg, 'frames': len(frames), 'forged_parse_frames': len(forged), 'dictionary_straddling_match_frames': len(gres.other.get('STRADDLE', [])), 'frames_with_assembled_formatted_dictionaries(odd start repeat offsets)': len(gres.other.get('FDICT', [])), 'forged_parse_sequences': sum(int(f[1]) for f in forged), 'valid_base_frames': nvalid, 'mutated_frames': nmut, 'mutated_frames_still_valid_per_R': nmut_ok, 'path_x_variant_comparisons': ncmp, 'frames_with_full_agreement': nagree, 'invalid_frames_with_path_disagreement(out of scope)': res_all.stats.get('invalid_frames_with_path_disagreement(out of scope)', 0), 'paths': sorted(paths_seen), 'variants': VARIANTS,
        'features_in_valid_frames(R events)': {k: v for k, v in ref.stats.items() if k.startswith('feat_')}, 'sequence_mode_bytes_seen': ref.ncells('seq_modes'),
        'samples': [{'frame': f, 'R': rtab[f][0], 'bytes': rtab[f][1], 'kind': rtab[f][3]} for f in frames[:: max(1, len(frames) // 6)]][:8],
    }
    assumptions = ['R accepts = valid (R is lenient in places, so mutated frames are used for agreement only)', 'hand-assembled corner frames of the design (d) not built: features outside the compressor come from decodecorpus only', 'no 32-bit variant']
    return core.finish(prop, tier, seed, 'exploration', res_all, cov, assumptions, t0, R)
