"""C03 - decoding untrusted bytes is memory-safe, bounded and terminating"""
import os, subprocess
from vlib import build, core

T = os.path.join(build.REPO, 'tests')
VALGRIND = 'valgrind -q --tool=memcheck --error-exitcode=98 --exit-on-first-error=yes --fullpath-after= --undef-value-errors=yes --track-origins=no --num-callers=12'
HARNESSES = {
    'h_c03/asan': ('h_c03', 'asan', dict(sources=['h_c03.c', 'legacy_vectors.c'], cflags=['-I' + T, '-Wno-deprecated-declarations'], hash_subdirs=['tests'])),
    'h_c03/plain': ('h_c03', 'plain', dict(sources=['h_c03.c', 'legacy_vectors.c'], cflags=['-I' + T, '-Wno-deprecated-declarations'], hash_subdirs=['tests'])),
    'h_c03/val': ('h_c03', 'val', dict(sources=['h_c03.c', 'legacy_vectors.c'], cflags=['-I' + T, '-Wno-deprecated-declarations'], hash_subdirs=['tests'])),
    'decodecorpus': ('decodecorpus', 'plain', dict(sources=['empty.c'], repo_sources=['tests/decodecorpus.c', 'programs/util.c', 'programs/timefn.c'],
                                                   cflags=['-I' + os.path.join(build.REPO, 'programs'), '-w'], ldflags=['-lm'], refdec=False, hash_subdirs=['tests', 'programs'])),
}


def make_corpus(exe, outdir, nplain, ndict, seed=4242):
    """frames from tests/decodecorpus.c built from the current tree (format features the compressor never emits)"""
    for sub in ('plain', 'dict', 'orig-plain', 'orig-dict'):
        os.makedirs(os.path.join(outdir, sub), exist_ok=True)
    subprocess.run([exe, '-p' + os.path.join(outdir, 'plain'), '-o' + os.path.join(outdir, 'orig-plain'), '-n%d' % nplain, '-s%d' % seed], stdout=subprocess.DEVNULL, stderr=subprocess.DEVNULL, timeout=1200)
    subprocess.run([exe, '-p' + os.path.join(outdir, 'dict'), '-o' + os.path.join(outdir, 'orig-dict'), '-n%d' % ndict, '-s%d' % (seed + 1), '--use-dict=4096'], stdout=subprocess.DEVNULL, stderr=subprocess.DEVNULL, timeout=1200)
    return outdir


def run(prop, tier, seed, t0):
    thorough = tier == 'thorough'
    exes = build.build_many([HARNESSES['h_c03/asan'], HARNESSES['h_c03/plain'], HARNESSES['decodecorpus'], HARNESSES['h_c03/val']])
    R = core.Runner(prop, tier, seed)
    res = core.Result()
    corpus = make_corpus(exes[2], os.path.join(R.tmp, 'corpus'), 400 if thorough else 150, 150 if thorough else 60)
    env = {'VERIF_CORPUS': corpus}
    na, npl = (1500000, 4000000) if thorough else (16000, 40000)
    R.run_sharded(res, exes[0], [], na, env=env, label='h_c03/asan', variant='asan')
    R.run_sharded(res, exes[1], [], npl, env=env, label='h_c03/plain', variant='plain', first=na)
    # valgrind memcheck over the uninstrumented build (assembly Huffman loops on): definedness of every value a branch or address
    # depends on, which neither ASan nor guard pages see
    nv = 24000 if thorough else 640
    before = res.stat('inputs')
    venv = dict(env, __wrapper__=VALGRIND, VERIF_SLOW='60')
    R.run_sharded(res, exes[3], [], nv, env=venv, label='h_c03/val', variant='val', first=na + npl, wall=7200 if thorough else 1500)
    vg_inputs = res.stat('inputs') - before
    cov = {
        'evaluations': res.stat('inputs'), 'distinct_nontrivial': res.ncells('mutation') + res.ncells('outcome'),
        'rule': 'corpus = compressor output over parameters/data families + tests/decodecorpus.c frames (with/without dictionary) built from the tree + golden files + legacy v0.5-v0.7 and modern frames from tests/legacy.c + skippable/multi-frame; '
                'mutations: bit/byte flips, truncation, splicing, FIELD-AWARE (R\'s parser gives the positions of descriptor, window/dictID/FCS, block headers, literals-section header, Huffman description, sequence header/modes/tables), random, random after a valid header, trailing bytes, unchanged; '
                'each input through one-shot, reused DCtx, usingDict/DDict/loadDictionary/refPrefix with true and arbitrary dictionaries, streaming (random segmentation, window limits, stableOut, multi-DDict), tables of 1..300 DDicts with random dictIDs under refMultipleDDicts and frames naming present/absent IDs, buffer-less, block-level decode, all inspectors, skippable reader, in-place decode; exact-size guard-paged source and destination, capacities 0/tiny/exact/large/around the literal-buffer placement edge of a block; under ASan+UBSan, natively with guard pages, and a share under valgrind memcheck (definedness). '
                'distinct non-trivial = distinct (origin, mutation kind) + (entry, outcome/error) cells',
        'inputs_under_valgrind_memcheck': vg_inputs, 'static_dctx_runs': res.stat('static_dctx_runs'), 'multi_ddict_tables': res.stat('multi_ddict_tables'), 'multi_ddict_lookups': res.stat('multi_ddict_lookups'), 'multi_ddict_present_id_decoded': res.stat('multi_ddict_present_id_decoded'), 'multi_ddict_present_id_refused': res.stat('multi_ddict_present_id_refused'), 'multi_ddict_table_max_entries': res.maxes.get('multi_ddict_table_max_entries', 0), 'mutation_cells': res.cells.get('mutation', {}), 'one_shot_outcomes': core.topcells(res, 'outcome', 30), 'corpus_items': list(res.cells.get('corpus_size', {}).keys()),
    }
    assumptions = ['clean sanitizer runs are not memory safety: non-adjacent / intra-object overflows and reuse of freed memory after quarantine are invisible; guard pages see adjacent accesses by the assembly loops only',
                   'CPU budget 5 s + 80 us/KiB per input (all entry points) exceeded twice = hang', 'coverage-guided (libFuzzer) stage of the design not built', 'no 32-bit build']
    return core.finish(prop, tier, seed, 'exploration', res, cov, assumptions, t0, R)
