"""C03 - decoding untrusted bytes is memory-safe, bounded and terminating"""
import os, re, glob, shutil, subprocess, hashlib
from concurrent.futures import ThreadPoolExecutor
from vlib import build, core

T = os.path.join(build.REPO, 'tests')
VALGRIND = 'valgrind -q --tool=memcheck --error-exitcode=98 --exit-on-first-error=yes --fullpath-after= --undef-value-errors=yes --track-origins=no --num-callers=12'
HARNESSES = {
    'h_c03/asan': ('h_c03', 'asan', dict(sources=['h_c03.c', 'legacy_vectors.c'], cflags=['-I' + T, '-Wno-deprecated-declarations'], hash_subdirs=['tests'])),
    'h_c03/plain': ('h_c03', 'plain', dict(sources=['h_c03.c', 'legacy_vectors.c'], cflags=['-I' + T, '-Wno-deprecated-declarations'], hash_subdirs=['tests'])),
    'h_c03/val': ('h_c03', 'val', dict(sources=['h_c03.c', 'legacy_vectors.c'], cflags=['-I' + T, '-Wno-deprecated-declarations'], hash_subdirs=['tests'])),
    'h_c03/msan': ('h_c03', 'msan', dict(sources=['h_c03.c', 'legacy_vectors.c'], cflags=['-I' + T, '-Wno-deprecated-declarations'], hash_subdirs=['tests'])),
    'h_c03fuzz': ('h_c03fuzz', 'fuzz', dict(sources=['h_c03.c', 'legacy_vectors.c'], cflags=['-I' + T, '-Wno-deprecated-declarations', '-DH_C03_FUZZ', '-DV_VIOL_ABORTS'], hash_subdirs=['tests'])),
    'decodecorpus': ('decodecorpus', 'plain', dict(sources=['empty.c'], repo_sources=['tests/decodecorpus.c', 'programs/util.c', 'programs/timefn.c'],
                                                   cflags=['-I' + os.path.join(build.REPO, 'programs'), '-w'], ldflags=['-lm'], refdec=False, hash_subdirs=['tests', 'programs'])),
}


def make_corpus(exe, outdir, nplain, ndict, seed=4242):
    """frames from tests/decodecorpus.c built from the current tree (format features the compressor never emits)"""
    for sub in ('plain', 'dict', 'orig-plain', 'orig-dict'):
        os.makedirs(os.path.join(outdir, sub), exist_ok=True)
    subprocess.run([exe, '-p' + os.path.join(outdir, 'plain'), '-o' + os.path.join(outdir, 'orig-plain'), '-n%d' % nplain, '-s%d' % seed], stdout=subprocess.DEVNULL, stderr=subprocess.DEVNULL, timeout=1200)
    subprocess.run([exe, '-p' + os.path.join(outdir, 'dict'), '-o' + os.path.join(outdir, 'orig-dict'), '-n%d' % ndict, '-s%d' % (seed + 1), '--use-dict=4096'], stdout=subprocess.DEVNULL, stderr=subprocess.DEVNULL, timeout=1200)
    return outdir

FUZZ_ENV = {'ASAN_OPTIONS': 'abort_on_error=1:detect_leaks=0:allocator_may_return_null=1:malloc_context_size=8:handle_abort=1', 'UBSAN_OPTIONS': 'print_stacktrace=1:halt_on_error=1'}


def _fuzz_single(fexe, path, timeout=600):
    """one input through the coverage-guided harness, alone: (rc, stderr)"""
    e = dict(os.environ, VERIF_REPO=build.REPO); e.update(FUZZ_ENV)
    try:
        p = subprocess.run([fexe, path, '-timeout=240', '-rss_limit_mb=8000', '-detect_leaks=0'], env=e, stdout=subprocess.PIPE, stderr=subprocess.PIPE, errors='replace', timeout=timeout)
        return p.returncode, p.stderr
    except subprocess.TimeoutExpired:
        return None, ''


def _fuzz_key(err, rc):
    m = re.search(r'^MONITOR-VIOLATION\t([^\t\n]+)', err, re.M)
    if m:
        return 'fuzz:' + m.group(1)
    if 'libFuzzer: timeout' in err:
        return 'hang:h_c03fuzz'
    if 'libFuzzer: out-of-memory' in err:
        return None
    return core.crash_key(err, -6 if rc else 0)


def fuzz_stage(R, res, plain_exe, seed, env, thorough):
    """coverage-guided search (libFuzzer, clang ASan+UBSan build of the current tree) over the same multi-entry harness: NJOBS independent fuzzers,
    each bounded by -runs (never by time), seeded with the frame corpus + one field-aware mutation of each frame; every artifact is re-run alone to
    obtain its report and goes through the usual violation keys."""
    if os.environ.get('VERIF_NO_CLANG_STAGES'):      # seeded-change trials only (tools/matrix.py)
        return dict(jobs=0, runs_per_job=0, seed_inputs=0, executions=0, artifacts=0, skipped='VERIF_NO_CLANG_STAGES')
    fexe = build.build_harness(*HARNESSES['h_c03fuzz'][:2], **HARNESSES['h_c03fuzz'][2])
    fd = os.path.join(R.tmp, 'fuzz'); seeds = os.path.join(fd, 'seeds'); art = os.path.join(fd, 'art'); os.makedirs(seeds); os.makedirs(art)
    e = dict(os.environ, VERIF_REPO=build.REPO); e.update(env)
    subprocess.run([plain_exe, 'dump-corpus=' + seeds, '--seed', str(seed)], env=e, stdout=subprocess.DEVNULL, stderr=subprocess.DEVNULL, timeout=600)
    nseeds = len(os.listdir(seeds))
    if nseeds < 50:
        raise build.BuildError('coverage-guided stage: seed corpus too small (%d)' % nseeds)
    njobs = core.NPROC; runs = 400000 if thorough else 2500
    fe = dict(e); fe.update(FUZZ_ENV)

    def job(i):
        od = os.path.join(fd, 'corpus%d' % i); os.makedirs(od)
        log = os.path.join(fd, 'log%d' % i)
        with open(log, 'w') as lf:
            try:
                p = subprocess.run([fexe, od, seeds, '-runs=%d' % runs, '-seed=%d' % (seed * 1000 + i + 1), '-max_len=100000', '-timeout=120', '-rss_limit_mb=6000', '-malloc_limit_mb=4000',
                                    '-artifact_prefix=' + art + '/j%d-' % i, '-print_final_stats=1', '-detect_leaks=0', '-reload=0'], env=fe, stdout=lf, stderr=subprocess.STDOUT, cwd=fd, timeout=4 * 3600 if thorough else 1500)
                rc = p.returncode
            except subprocess.TimeoutExpired:
                rc = None
        t = open(log, errors='replace').read()
        m = re.search(r'stat::number_of_executed_units:\s+(\d+)', t); ex = int(m.group(1)) if m else 0
        covs = re.findall(r'cov: (\d+) ft: (\d+) corp: (\d+)', t)
        init = re.search(r'INITED cov: (\d+) ft: (\d+)', t)
        return dict(job=i, rc=rc, executed=ex, cov=int(covs[-1][0]) if covs else 0, ft=int(covs[-1][1]) if covs else 0, corp=int(covs[-1][2]) if covs else 0,
                    cov_init=int(init.group(1)) if init else 0, ft_init=int(init.group(2)) if init else 0, new_units=len(os.listdir(od)))
    with ThreadPoolExecutor(njobs) as ex:
        jobs = list(ex.map(job, range(njobs)))
    execs = sum(j['executed'] for j in jobs)
    for j in jobs:
        if j['rc'] is None:
            res.inconclusive.append({'case': -1, 'why': 'coverage-guided job %d hit the wall-clock watchdog' % j['job'], 'harness': 'h_c03fuzz'})
    arts = sorted(glob.glob(os.path.join(art, '*')))
    for a in arts[:40]:
        rc, err = _fuzz_single(fexe, a)
        if rc is None:
            res.inconclusive.append({'case': -1, 'why': 'artifact %s: single re-run hit the wall-clock watchdog' % os.path.basename(a), 'harness': 'h_c03fuzz'}); continue
        if rc == 0:
            res.inconclusive.append({'case': -1, 'why': 'artifact %s did not reproduce alone' % os.path.basename(a), 'harness': 'h_c03fuzz'}); continue
        key = _fuzz_key(err, rc)
        if key is None:
            res.inconclusive.append({'case': -1, 'why': 'artifact %s: memory limit of the fuzzer process (not a verdict)' % os.path.basename(a), 'harness': 'h_c03fuzz'}); continue
        keep = os.path.join(core.OUT, 'fuzz-artifact-C03-' + hashlib.sha1(open(a, 'rb').read()).hexdigest()[:16])
        shutil.copyfile(a, keep)
        res.viol.append({'key': key, 'case': -1, 'msg': core._first_report_lines(err), 'replay': {'label': 'h_c03fuzz', 'artifact': keep, 'seed': seed}})
    if execs < njobs * runs // 2 and not arts:
        raise build.BuildError('coverage-guided stage executed too little (%d of %d)' % (execs, njobs * runs))
    return dict(jobs=njobs, runs_per_job=runs, seed_inputs=nseeds, executions=execs, artifacts=len(arts),
                edges_covered_initial_max=max(j['cov_init'] for j in jobs), edges_covered_final_max=max(j['cov'] for j in jobs), edges_covered_final_min=min(j['cov'] for j in jobs),
                features_initial_max=max(j['ft_init'] for j in jobs), features_final_max=max(j['ft'] for j in jobs), inputs_added_to_corpus=sum(j['new_units'] for j in jobs))


def replay(prop, r):
    rp = r.get('replay') or {}
    if not rp.get('artifact'):
        return None          # generic harness replay
    fexe = build.build_harness(*HARNESSES['h_c03fuzz'][:2], **HARNESSES['h_c03fuzz'][2])
    rc, err = _fuzz_single(fexe, rp['artifact'])
    print(err[-6000:])
    if rc is None or rc != 0:
        print('VIOLATION property=%s replay=%s' % (prop, r.get('_path', rp['artifact']))); return 1
    print('replay: no violation on this tree'); return 0


def run(prop, tier, seed, t0):
    thorough = tier == 'thorough'
    exes = build.build_many([HARNESSES['h_c03/asan'], HARNESSES['h_c03/plain'], HARNESSES['decodecorpus'], HARNESSES['h_c03/val']])
    R = core.Runner(prop, tier, seed)
    res = core.Result()
    corpus = make_corpus(exes[2], os.path.join(R.tmp, 'corpus'), 400 if thorough else 150, 150 if thorough else 60)
    env = {'VERIF_CORPUS': corpus}
    na, npl = (1500000, 4000000) if thorough else (16000, 40000)
    R.run_sharded(res, exes[0], [], na, env=env, label='h_c03/asan', variant='asan')
    R.run_sharded(res, exes[1], [], npl, env=env, label='h_c03/plain', variant='plain', first=na)
    # valgrind memcheck over the uninstrumented build (assembly Huffman loops on): definedness of every value a branch or address
    # depends on, which neither ASan nor guard pages see
    nv = 24000 if thorough else 640
    before = res.stat('inputs')
    venv = dict(env, __wrapper__=VALGRIND, VERIF_SLOW='60')
    R.run_sharded(res, exes[3], [], nv, env=venv, label='h_c03/val', variant='val', first=na + npl, wall=7200 if thorough else 1500)
    vg_inputs = res.stat('inputs') - before
    # MemorySanitizer: hostile input must not make the decoder branch on, index with, or hand to libc a byte nobody wrote (information leak / non-determinism)
    nms = core.msan_stage(R, res, HARNESSES['h_c03/msan'], [], 300000 if thorough else 4000, na + npl + nv, env=env)
    fz = fuzz_stage(R, res, exes[1], seed, env, thorough)
    cov = {
        'evaluations': res.stat('inputs') + fz['executions'], 'coverage_guided_stage': fz, 'distinct_nontrivial': res.ncells('mutation') + res.ncells('outcome'),
        'rule': 'corpus = compressor output over parameters/data families + tests/decodecorpus.c frames (with/without dictionary) built from the tree + golden files + legacy v0.5-v0.7 and modern frames from tests/legacy.c + skippable/multi-frame; '
                'mutations: bit/byte flips, truncation, splicing, FIELD-AWARE (R\'s parser gives the positions of descriptor, window/dictID/FCS, block headers, literals-section header, Huffman description, sequence header/modes/tables), random, random after a valid header, trailing bytes, unchanged; '
                'each input through one-shot, reused DCtx, usingDict/DDict/loadDictionary/refPrefix with true and arbitrary dictionaries, streaming (random segmentation, window limits, stableOut, multi-DDict), tables of 1..300 DDicts with random dictIDs under refMultipleDDicts and frames naming present/absent IDs, buffer-less, block-level decode, all inspectors, skippable reader, in-place decode; exact-size guard-paged source and destination, capacities 0/tiny/exact/large/around the literal-buffer placement edge of a block; under ASan+UBSan, natively with guard pages, and a share under valgrind memcheck (definedness). '
                'then a coverage-guided stage: 16 libFuzzer processes (clang ASan+UBSan build of the tree, fixed -runs, seeds derived from VERIF_SEED) over the same multi-entry harness, seeded with the frame corpus and one field-aware mutation of each frame; artifacts are re-run alone and keyed like every other violation. '
                'distinct non-trivial = distinct (origin, mutation kind) + (entry, outcome/error) cells',
        'inputs_under_valgrind_memcheck': vg_inputs, 'inputs_under_memory_sanitizer': nms, 'static_dctx_runs': res.stat('static_dctx_runs'), 'multi_ddict_tables': res.stat('multi_ddict_tables'), 'multi_ddict_lookups': res.stat('multi_ddict_lookups'), 'multi_ddict_present_id_decoded': res.stat('multi_ddict_present_id_decoded'), 'multi_ddict_present_id_refused': res.stat('multi_ddict_present_id_refused'), 'multi_ddict_table_max_entries': res.maxes.get('multi_ddict_table_max_entries', 0), 'mutation_cells': res.cells.get('mutation', {}), 'one_shot_outcomes': core.topcells(res, 'outcome', 30), 'corpus_items': list(res.cells.get('corpus_size', {}).keys()),
    }
    assumptions = ['clean sanitizer runs are not memory safety: non-adjacent / intra-object overflows and reuse of freed memory after quarantine are invisible; guard pages see adjacent accesses by the assembly loops only',
                   'CPU budget 5 s + 80 us/KiB per input (all entry points) exceeded twice = hang', 'no 32-bit build']
    return core.finish(prop, tier, seed, 'exploration', res, cov, assumptions, t0, R)
