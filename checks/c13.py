"""C13 - allocation failure anywhere: clean error, no crash, no leak, context reusable (fault enumeration over every allocation index)"""
import subprocess, os, re
from concurrent.futures import ThreadPoolExecutor
from vlib import build, core

LD = ['-Wl,--wrap=malloc', '-Wl,--wrap=calloc', '-Wl,--wrap=free', '-no-pie', '-rdynamic']
HARNESSES = {'h_c13/asan': ('h_c13', 'asan', dict(ldflags=LD, cflags=['-fno-pie'], refdec=False))}
SKIP_FUNCS = ('ZSTD_customMalloc', 'ZSTD_customCalloc', 'fa_alloc', '__wrap_malloc', '__wrap_calloc', 'w_gate', 'ZSTD_cwksp_create', 'ZSTD_malloc', 'ZSTD_calloc')


def symbolize(exe, addrs):
    addrs = sorted(set(addrs))
    if not addrs:
        return {}
    out = subprocess.run(['addr2line', '-f', '-e', exe] + addrs, capture_output=True, text=True).stdout.split('\n')
    return {a: (out[2 * i], out[2 * i + 1] if 2 * i + 1 < len(out) else '') for i, a in enumerate(addrs) if 2 * i < len(out)}


def run(prop, tier, seed, t0):
    thorough = tier == 'thorough'
    spec = HARNESSES['h_c13/asan']
    exe = build.build_harness(spec[0], spec[1], **spec[2])
    R = core.Runner(prop, tier, seed)
    res = core.Result()
    # counting run (k = 0): number of allocations per scenario, and the scenarios must pass untouched
    R.run_range(res, exe, ['mode=count'], 0, 1, label='h_c13/asan', variant='asan')
    counts = [(int(c[0]), c[1], int(c[2]), int(c[3])) for c in res.other.get('COUNT', [])]
    if not counts:
        raise build.BuildError('C13: counting run produced no scenario table')
    res.other['SITE'] = []
    passes = [[]]
    if thorough:
        passes += [['fault2=1'], ['fault2=2'], ['fault2=5'], ['fault2=%d' % (3 + seed % 7)]]
    # abandon=1: the object is freed straight after the first failed operation (no reset, no retry): quick for the MT / streaming scenarios, thorough for all
    passes += [['abandon=1']]
    with ThreadPoolExecutor(core.NPROC) as ex:
        futs = []
        for extra in passes:
            for (s, name, n, dom) in counts:
                if extra == ['abandon=1'] and not thorough and not ('mt' in name or 'stream' in name):
                    continue
                shards = max(1, min(core.NPROC, n // 6))
                if name.startswith('zdict_opt') or name.endswith('_mt') or 'mt' in name:
                    shards = max(1, min(core.NPROC, n // 3))
                futs += R.run_sharded(res, exe, extra, n, label='h_c13/asan', variant='asan', first=s * 10000 + 1, nshards=shards, executor=ex)
        for f in futs:
            f.result()
    # resolve failing call sites
    sites = {}
    for f in res.other.get('SITE', []):
        sites[int(f[0])] = f[1:]
    sym = symbolize(exe, [a for v in sites.values() for a in v])
    def site_func(case):
        for a in sites.get(case, []):
            fn, loc = sym.get(a, ('?', ''))
            if fn in SKIP_FUNCS or fn.startswith('fa_') or fn == '??' or build.REPO not in loc:
                continue
            return fn
        return 'unknown-site'
    names = {s: name for (s, name, n, d) in counts}
    distinct_sites = set()
    for c in sites:
        distinct_sites.add((names.get(c // 10000), site_func(c)))
    for v in res.viol:
        sc = names.get(v['case'] // 10000, '?') if v['case'] >= 0 else '?'
        if v['key'].startswith(('san:', 'crash:', 'hang:', 'blocked-forever:')):
            v['key'] = '%s:%s' % (v['key'], sc)
        else:
            v['key'] = '%s:%s:%s' % (v['key'], sc, site_func(v['case']))
        v['msg'] = 'scenario=%s k=%d :: %s' % (sc, v['case'] % 10000, v['msg'])
    total = sum(n for (_, _, n, _) in counts)
    cov = {
        'evaluations': res.stat('runs'),
        'distinct_nontrivial': res.ncells('failed_alloc_index'),
        'rule': 'scenario catalogue x EVERY allocation index k=1..allocs(S) (exhaustive per scenario; custom-allocator domain via ZSTD_customMem, default domain via --wrap=malloc/calloc); '
                'distinct non-trivial = distinct (scenario, k) whose injected NULL was actually returned to the library; thorough adds a second fault 1/2/5/j allocations later; an extra pass frees the object straight after the first failure instead of resetting and retrying',
        'exhaustive': True,
        'scenarios': {name: {'allocations': n, 'domain': 'default(malloc)' if d else 'custom(ZSTD_customMem)'} for (_, name, n, d) in counts},
        'allocation_indices_total': total, 'injections_fired': res.stat('injections_fired'), 'clean_errors': res.stat('clean_errors'),
        'failures_absorbed': res.stat('failure_absorbed(success despite failed allocation)'), 'recoveries_verified': res.stat('recoveries_verified'),
        'distinct_failing_call_sites': len(distinct_sites), 'failing_call_sites_sample': sorted('%s@%s' % x for x in distinct_sites)[:40],
        'samples': [{'scenario': names.get(c // 10000), 'k': c % 10000, 'failing_site': site_func(c)} for c in sorted(sites)[:: max(1, len(sites) // 8)]][:10],
    }
    assumptions = ['every library allocation goes through ZSTD_customMem or malloc/calloc (checked: --wrap sees all references from lib objects)',
                   'ASan/UBSan runtime detects the crash classes', 'single fault per run (plus one sampled second fault in thorough); more simultaneous faults not explored',
                   'recovery = ZSTD_CCtx_reset(session_only)/ZSTD_DCtx_reset then the same operation with memory available must round-trip']
    return core.finish(prop, tier, seed, 'fault_enumeration', res, cov, assumptions, t0, R)
