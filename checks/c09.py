"""C09 - truncation, size lies and checksum damage are reported, never accepted; pledged source size is enforced"""
from vlib import build, core

HARNESSES = {'h_c09/asan': ('h_c09', 'asan'), 'h_c09/plain': ('h_c09', 'plain')}


def run(prop, tier, seed, t0):
    thorough = tier == 'thorough'
    exes = build.build_many([HARNESSES['h_c09/asan'], HARNESSES['h_c09/plain']])
    R = core.Runner(prop, tier, seed)
    res = core.Result()
    nd, npl = (20000, 20000) if thorough else (500, 700)
    R.run_sharded(res, exes[0], ['side=0'], nd, label='h_c09/asan', variant='asan')
    R.run_sharded(res, exes[1], ['side=0'], nd * 2, label='h_c09/plain', variant='plain', first=nd)
    R.run_sharded(res, exes[1], ['side=1'], npl, label='h_c09/plain', variant='plain')
    cov = {
        'evaluations': res.stat('cuts') + res.stat('trailing_cases') + res.stat('fcs_forgeries') + res.stat('checksum_damage_cases') + res.stat('content_damage_cases') + res.stat('pledged_cases'),
        'distinct_nontrivial': res.ncells('shape') + res.ncells('cutclass') + res.ncells('pledge'),
        'rule': 'frame shapes from the compressor (FCS widths 0/1/2/4/8, single segment, checksum, magicless, last block raw/RLE/compressed) x cuts (every k for frames <= 600 bytes, else header bytes, block header/ends from R\'s field map, checksum bytes, random) through one-shot, streaming, buffer-less decode and findFrameCompressedSize in exact-size guard-paged sources; '
                'trailing non-frame bytes; forged content-size fields; damaged stored checksums; content damage judged with an independent XXH64; wrong pledged sizes {n+-1, 0, 2n, n+k, <n} over compressStream2 scripts, initCStream_srcSize, compressBegin_advanced and nbWorkers>=1. distinct non-trivial = distinct frame shapes + cut classes + (api, pledge kind, outcome) cells',
        'frames': res.stat('frames'), 'cuts': res.stat('cuts'), 'cut_classes': res.cells.get('cutclass', {}), 'frame_shapes': res.ncells('shape'), 'trailing_cases': res.stat('trailing_cases'), 'fcs_forgeries': res.stat('fcs_forgeries'),
        'checksum_damage_cases': res.stat('checksum_damage_cases'), 'content_damage_cases': res.stat('content_damage_cases'), 'benign_content_damage(same output or genuinely same checksum)': res.stat('benign_damage_same_output') + res.stat('benign_damage_same_checksum'),
        'pledged_cases': res.stat('pledged_cases'), 'pledge_cells': res.cells.get('pledge', {}),
    }
    return core.finish(prop, tier, seed, 'exploration', res, cov, ['R supplies the field map', 'own XXH64 decides content-damage coincidences exactly', 'legacy-format frames are not cut here (C03 feeds them)'], t0, R)
