"""C16 - parameter interface contract: bounds, stickiness, reset and stage rules (exhaustive grid + random valid sets)"""
from vlib import build, core

HARNESSES = {'h_c16/asan': ('h_c16', 'asan')}


def run(prop, tier, seed, t0):
    thorough = tier == 'thorough'
    exe = build.build_harness(*HARNESSES['h_c16/asan'])
    R = core.Runner(prop, tier, seed)
    res = core.Result()
    R.run_range(res, exe, [], 0, 1, label='h_c16/asan', variant='asan')          # the grid (case 0)
    n = 20000 if thorough else 1200
    R.run_sharded(res, exe, [], n, label='h_c16/asan', variant='asan', first=1)
    cov = {
        'evaluations': res.stat('grid_cells') + res.stat('random_sets'),
        'distinct_nontrivial': res.ncells('random_set') + res.ncells('grid_outcome'),
        'rule': 'grid: every ZSTD_cParameter (38) and ZSTD_dParameter (7) x {lo-1,lo,lo+1,0,default,hi-1,hi,hi+1,INT_MIN,INT_MAX} x stages {fresh, after frame, after error, after each reset kind, MT after frame, mid-frame ST/MT} on CCtx, CCtxParams, DCtx, static CCtx; '
                'struct setters ZSTD_CCtx_setCParams / setFParams / setParams with in-bounds structs and structs with one field just outside its bounds, idle and mid-frame: accepted => fields read back, others untouched, in force on the next frame; rejected => nothing changed. random part: distinct accepted parameter sets x 2-3 frames (compress2 / streaming) x session reset x parameter reset x simple-API pairs; distinct non-trivial = distinct random parameter sets exercised + distinct grid outcome classes',
        'exhaustive': True, 'grid_cells': res.stat('grid_cells'), 'grid_outcomes': res.cells.get('grid_outcome', {}),
        'struct_setter_calls': res.stat('struct_setter_calls'), 'struct_setter_cells': res.cells.get('struct_setter', {}), 'random_sets': res.stat('random_sets'), 'random_sets_rejected_by_setters': res.stat('random_rejected'), 'frames_inspected_with_R': res.stat('frames_inspected'), 'simple_api_pairs': res.stat('simple_api_pairs'),
    }
    assumptions = ['documented normalisations encoded as allowed: level 0 -> default level, 0 < jobSize < 512 KiB -> 512 KiB, "0 = default" accepted outside the bounds',
                   'the mid-frame updatable set is the one documented in zstd.h (7 parameters)', 'frame facts read by the independent decoder R']
    return core.finish(prop, tier, seed, 'exploration', res, cov, assumptions, t0, R)
