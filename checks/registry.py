"""Per-check metadata for MANIFEST.json (tools/gen_manifest.py). A property is registered once its check has been
silent on the unchanged tree for several seeds and has caught seeded faults."""
R = 'vendored educational decoder R + own XXH64 (h/refdec), '
SAN = 'gcc ASan/UBSan runtimes, '
REG = {
 'C01': dict(cat='exploration', tech='differential round-trip oracle (library decoder + independent reference decoder) under ASan/UBSan and guard pages over stratified inputs x parameter vectors x entry points',
             text='every single-call compression entry point x stratified parameter vectors x data families; output must decode to the input through the library AND through the independent decoder R; sanitizers + exact-size guard-paged buffers watch memory. Held = held on the N executions listed in evidence (cells of applied parameters measured via ZSTD_trace).',
             note=R + SAN + 'sampling of the input/parameter space; no 32-bit build; windowLog <= 24 (27 in thorough)', ref='DESIGN.md section 4 C01'),
 'C06': dict(cat='exploration', tech='capacity sweep at frame-structure boundaries in exact-size guard-paged buffers (ASan/UBSan + PROT_NONE pages + canaries) with return-code relations and decode oracle',
             text='two-dimensional sweep (input x capacity) with capacities placed at header/block boundaries reported by R, plus inspectors, in-place decoding with the advertised margin, and bit-flipped frames at any capacity',
             note=R + SAN + 'guard pages see adjacent overruns only; sampling', ref='DESIGN.md section 4 C06'),
 'C13': dict(cat='fault_enumeration', tech='fault injection: every allocation index of every scenario fails once (ZSTD_customMem + --wrap=malloc), live-set tracking allocator, ASan/UBSan, recovery round trip',
             text='scenario catalogue (create/param/dict/one-shot/stream/LDM/MT/resize/threadpool/sequences/decode/multi-DDict/ZDICT trainers) x every k in 1..allocs(S): no crash, no leak, no foreign free, context reusable after reset; thorough adds second faults',
             note='all library allocations go through ZSTD_customMem or malloc/calloc; one (thorough: two) fault(s) per run; MT allocation order is schedule dependent (k enumerates indices, not sites)', ref='DESIGN.md section 4 C13'),
 'C16': dict(cat='exploration', tech='exhaustive API grid monitor (set/get/bounds relations, full get-vector before/after) + frame-field inspection with the reference decoder over random accepted parameter sets',
             text='all 38 cParameters and 7 dParameters x 10 boundary values x stages (fresh, after frame, after error, resets, mid-frame ST/MT) on CCtx, CCtxParams, DCtx and static CCtx (exhaustive), then random valid sets x frames x resets x simple-API pairs',
             note='documented normalisations encoded as allowed outcomes; ' + R, ref='DESIGN.md section 4 C16'),
 'C12': dict(cat='exploration', tech='schedule exploration with a serialising seeded scheduler (link-time --wrap of pthread primitives, POSIX condvar model, uniform + PCT) with per-job history oracle, plus TSan/ASan stress',
             text='client programs from the {add, tryAdd, joinJobs, resize, nested post} grammar x pools 1..3 threads x queue 0..2, each under hundreds of replayable schedules incl. any-one-waiter signal delivery and spurious wake-ups; verdicts: exactly-once per unique job id, tryAdd refusal, joinJobs postcondition by logical stamps, deadlock = no runnable thread, live workers after POOL_free; TSan data races; ASan use-after-free',
             note='shim model of POSIX semantics; scheduling points are pthread calls only; schedules sampled not enumerated', ref='DESIGN.md section 4 C12 / 2.5'),
 'C17': dict(cat='exploration', tech='round-trip oracle (library decoder + reference decoder) over parses from an independent LZ parser / extracted parses / registered producers, and an independent restatement of the documented structural rules deciding which corrupted lists must be refused, under ASan/UBSan',
             text='positive half: valid parses (both delimiter modes, minMatch 3..7, dict/prefix, matches crossing block limits, long matches) must compress and decode to the source; negative half: in-scope structural corruptions must be rejected with validateSequences=1 and arbitrary arrays must be memory-safe; producer failure handling per fallback setting',
             note=R + SAN + 'scope decisions in DESIGN.md (delimiter-free lists overrunning the source are out of scope)', ref='DESIGN.md section 4 C17'),
}
