"""C06 - capacity discipline: no overrun for any buffer size, and the size bounds hold"""
import os
from vlib import build, core

_KW = dict(sources=['h_c06.c', 'legacy_vectors.c'], cflags=['-I' + os.path.join(build.REPO, 'tests')], hash_subdirs=['tests'])
HARNESSES = {'h_c06/asan': ('h_c06', 'asan', _KW), 'h_c06/plain': ('h_c06', 'plain', _KW)}


def run(prop, tier, seed, t0):
    thorough = tier == 'thorough'
    exes = build.build_many([HARNESSES['h_c06/asan'], HARNESSES['h_c06/plain']])
    R = core.Runner(prop, tier, seed)
    res = core.Result()
    n_c = 20000 if thorough else 700
    n_d = 40000 if thorough else 1200
    R.run_sharded(res, exes[0], ['side=0'], n_c, label='h_c06/asan', variant='asan')
    R.run_sharded(res, exes[1], ['side=0'], n_c, label='h_c06/plain', variant='plain', first=n_c)     # guard pages at native speed, asm paths
    R.run_sharded(res, exes[0], ['side=1'], n_d, label='h_c06/asan', variant='asan')
    R.run_sharded(res, exes[1], ['side=1'], n_d, label='h_c06/plain', variant='plain', first=n_d)
    # dense sweep: every capacity 0..N+40 on small frames (legacy v0.5-v0.7 and modern), one-shot and streaming
    n_l = 600 if thorough else 64
    R.run_sharded(res, exes[0], ['side=2'], n_l, label='h_c06/asan', variant='asan')
    R.run_sharded(res, exes[1], ['side=2'], n_l, label='h_c06/plain', variant='plain', first=n_l)
    cov = {
        'inputs_with_short_matches_plus_one_giant_match': res.stat('giant_match_stratum_inputs'), 'dense_windows_over_table_descriptions': res.stat('dense_windows_over_table_descriptions'), 'longest_table_description_bytes': res.maxes.get('longest_table_description', 0), 'skippable_writer_reader_capacity_runs': res.stat('skippable_capacity_runs'), 'dense_capacity_sweep_frames': res.stat('dense_frames'), 'dense_capacity_sweep_runs': res.stat('dense_sweep_runs'), 'dense_sweep_frame_kinds': res.cells.get('dense_kind', {}),
        'evaluations': res.stat('compress_capacity_runs') + res.stat('decode_capacity_runs') + res.stat('inplace_runs') + res.stat('invalid_frame_runs'),
        'distinct_nontrivial': res.ncells('capclass') + res.ncells('dcapclass'),
        'rule': 'per input x parameter vector x entry point: reference run at ZSTD_compressBound gives n and (via R events) header and block end offsets; capacities = {0..20} u {header end..+4} u {block ends +-1,+-2} u {n-3..n+3} u {bound-1,bound,bound+1} u random, '
                'each in an exact-size buffer end-aligned on a PROT_NONE page (canaries on the other side), source likewise; decode side: concatenated frames (+skippable) at capacities {0,1,N-3,N-1,N,N+1,..}, inspectors, in-place with ZSTD_decompressionMargin, bit-flipped frames at any capacity; '
                'distinct non-trivial = distinct (entry point, capacity class relative to frame structure, outcome) cells observed',
        'inputs': res.stat('inputs'), 'compress_capacity_runs': res.stat('compress_capacity_runs'), 'compress_errors(too small)': res.stat('compress_errors'),
        'compress_success': res.stat('compress_success'), 'success_below_reference_size(raw-block fallback etc.)': res.stat('success_with_different_size_than_reference(fallback)'),
        'stream_end_incomplete(normal for small out)': res.stat('stream_incomplete'),
        'decode_cases': res.stat('dcases'), 'decode_capacity_runs': res.stat('decode_capacity_runs'), 'inspector_checks': res.stat('inspector_checks'), 'inplace_runs': res.stat('inplace_runs'),
        'invalid_frame_runs': res.stat('invalid_frame_runs'), 'capacity_cells': core.topcells(res, 'capclass', 40), 'decode_cells': res.cells.get('dcapclass', {}),
        'applied_cells': res.ncells('applied'),
    }
    assumptions = ['guard pages + canaries + ASan red zones see adjacent overruns only (non-adjacent wild writes inside mapped memory are invisible)', 'R decides validity of reference frames', 'sampling']
    return core.finish(prop, tier, seed, 'exploration', res, cov, assumptions, t0, R)
