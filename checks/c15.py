"""C15 - correctness does not wear out: unbounded stream length and context reuse"""
from vlib import build, core

HARNESSES = {'h_c15/ovf': ('h_c15', 'ovf'), 'h_c15/asan_ovf': ('h_c15', 'asan_ovf'), 'h_c15/plain': ('h_c15', 'plain')}


def run(prop, tier, seed, t0):
    thorough = tier == 'thorough'
    exes = build.build_many([HARNESSES['h_c15/ovf'], HARNESSES['h_c15/asan_ovf'], HARNESSES['h_c15/plain']])
    R = core.Runner(prop, tier, seed)
    res = core.Result()
    from concurrent.futures import ThreadPoolExecutor
    nh, na = (12000, 1500) if thorough else (260, 40)
    nreal, nlong = (12, 6) if thorough else (4, 2)
    with ThreadPoolExecutor(core.NPROC) as ex:
        futs = []
        # the multi-GiB runs are started first (one core each), the histories fill the remaining cores
        futs += R.run_sharded(res, exes[2], ['mode=real'], nreal, label='h_c15/plain', variant='plain', first=0, nshards=nreal, executor=ex)
        futs += R.run_sharded(res, exes[2], ['mode=long'], nlong, label='h_c15/plain', variant='plain', first=1000, nshards=nlong, executor=ex)
        futs += R.run_sharded(res, exes[0], ['mode=hist'], nh, label='h_c15/ovf', variant='ovf', first=10000, nshards=core.NPROC, executor=ex)
        futs += R.run_sharded(res, exes[1], ['mode=hist'], na, label='h_c15/asan_ovf', variant='asan_ovf', first=5_000_000, nshards=core.NPROC // 2, executor=ex)
        # table-size seesaw histories (big tables -> small frame with a dictionary copied into the context -> big tables again)
        nss = (3000, 400) if thorough else (48, 16)
        futs += R.run_sharded(res, exes[2], ['mode=seesaw'], nss[0], label='h_c15/plain', variant='plain', first=20_000_000, nshards=core.NPROC, executor=ex)
        futs += R.run_sharded(res, exes[1], ['mode=seesaw'], nss[1], label='h_c15/asan_ovf', variant='asan_ovf', first=21_000_000, nshards=core.NPROC // 2, executor=ex)
        for f in futs:
            f.result()
    cov = {
        'evaluations': res.stat('frames') + res.stat('real_frames') + res.stat('real_strategy_frames') + res.stat('long_streams'),
        'distinct_nontrivial': res.ncells('history') + res.ncells('real') + res.ncells('long'),
        'rule': 'build with ZSTD_WINDOW_OVERFLOW_CORRECT_FREQUENTLY (knob of zstd itself): histories of 8..32 (thorough ..68) frames through ONE CCtx and ONE DCtx with random parameters per frame or sticky parameters (indices continue), small windows with inputs of several windows, streaming and one-shot mixed, MT, dictionaries/prefixes that scroll out of range; every frame must round-trip (library through the long-lived DCtx, R on a sample) and equal the fresh-context output; '
                'plain build, genuine 32-bit index overflow: contexts fed 3.7 GiB of 2/4/8 MiB frames without parameter change compared with the fresh-context output at every frame, then a frame at each of the 9 strategies; single streaming frames of 4.3 GiB compressed, decoded and compared on the fly. distinct non-trivial = distinct histories + real-overflow configurations + long-stream configurations',
        'table_size_seesaw_histories': res.stat('seesaw_histories'), 'histories': res.stat('histories'), 'frames_in_histories': res.stat('frames'), 'bytes_in_histories': res.stat('bytes'), 'frames_checked_by_R': res.stat('frames_checked_by_R'), 'window_wraps(n / window) seen': res.stat('window_wraps'),
        'max_cumulative_MiB_through_one_context(histories)': res.maxes.get('max_cumulative_MiB_through_one_context', 0), 'history_shapes': res.cells.get('history_shape', {}),
        'real_overflow_runs': res.ncells('real'), 'real_frames': res.stat('real_frames'), 'contexts_fed_beyond_3500MiB_without_parameter_change': res.stat('contexts_fed_beyond_3500MiB_without_parameter_change'), 'real_max_MiB_through_one_context': res.maxes.get('real_max_MiB_through_one_context', 0),
        'long_streams': res.stat('long_streams'), 'single_frames_beyond_4GiB': res.stat('single_frames_beyond_4GiB'), 'long_stream_MiB': res.maxes.get('long_stream_MiB', 0),
    }
    return core.finish(prop, tier, seed, 'exploration', res, cov, ['number of overflow corrections is not observable without hooks: the black-box facts are "MiB through one context" and "single frame beyond 4 GiB"', 'no 32-bit build (2 GB index limit paths)', 'sampling'], t0, R)
