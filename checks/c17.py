"""C17 - sequence-level compression: valid parses round-trip, invalid ones are refused"""
from vlib import build, core

HARNESSES = {'h_c17/asan': ('h_c17', 'asan'), 'h_c17/val': ('h_c17', 'val')}


def run(prop, tier, seed, t0):
    thorough = tier == 'thorough'
    exe = build.build_harness(*HARNESSES['h_c17/asan'])
    R = core.Runner(prop, tier, seed)
    res = core.Result()
    npos = 120000 if thorough else 8000
    nneg = 150000 if thorough else 8000
    R.run_sharded(res, exe, ['side=0'], npos, label='h_c17/asan', variant='asan')
    R.run_sharded(res, exe, ['side=1'], nneg, label='h_c17/asan', variant='asan')
    nvg = core.valgrind_stage(R, res, HARNESSES['h_c17/val'], ['side=0'], 3200 if thorough else 160, npos) + core.valgrind_stage(R, res, HARNESSES['h_c17/val'], ['side=1'], 6400 if thorough else 320, nneg)
    cov = {
        'cases_under_valgrind_memcheck': nvg, 'evaluations': res.stat('positive_cases') + res.stat('negative_cases'),
        'distinct_nontrivial': res.ncells('positive_cell') + res.ncells('negative_rule'),
        'rule': 'positive: parses from an independent random LZ parser (explicit delimiters / none, minMatch 3..7, repcode-heavy / short / skipping styles, raw dictionary or prefix, maxBlockSize), parses extracted by ZSTD_generateSequences (+merge, same or separate context), registered producers (good / error / too many / zero) x fallback; each frame verified by library decoder and R. '
                'negative: one structural corruption per list (offset beyond history/window at match start, matchLength < 3, missing/malformed delimiter, block lengths vs source, 32-bit length wrap) judged by an independent restatement of the documented rules, plus arbitrary arrays for memory safety; '
                'distinct non-trivial = distinct (mode, minMatch, repcode mode, dict, style) positive cells + distinct (delimiter mode, corruption kind, outcome) negative cells',
        'positive_cases': res.stat('positive_cases'), 'formatted_unusual_dictionaries': res.stat('formatted_dictionaries'), 'formatted_dictionaries_refused_by_a_loader': res.stat('formatted_dictionaries_refused_by_a_loader'), 'frames_verified_by_R': res.stat('frames_verified'), 'sequences_in_frames(R)': res.stat('frame_sequences'),
        'parse_sequences': res.stat('parse_sequences'), 'parse_matches_crossing_128K': res.stat('parse_matches_crossing_128K'), 'parse_long_matches(>64K)': res.stat('parse_long_matches'),
        'parse_dict_reaching': res.stat('parse_dict_reaching'), 'explicit_blocks': res.stat('parse_explicit_blocks'), 'generateSequences_gave_up': res.stat('generateSequences_gave_up'),
        'producer_calls': res.stat('producer_calls'), 'producer_fallbacks': res.stat('producer_fallbacks'), 'producer_failures_reported': res.stat('producer_failures_reported'),
        'negative_cases': res.stat('negative_cases'), 'negative_refused': res.stat('negative_refused'), 'negative_out_of_scope': res.stat('negative_out_of_scope'), 'negative_benign': res.stat('negative_corruption_was_benign'),
        'negative_cells': res.cells.get('negative_rule', {}), 'positive_cells': core.topcells(res, 'positive_cell', 30),
    }
    assumptions = ['"valid parse" = valid for the context it is given to (block size, minMatch, window of that context)', 'delimiter-free lists overrunning the source are outside validation scope (documented contract)',
                   'R + library decoder decide the positive half; an independent restatement of the documented rules decides which corrupted lists are in scope']
    return core.finish(prop, tier, seed, 'exploration', res, cov, assumptions, t0, R)
