"""C08 - dictionary compression round-trips for every dictionary, mode and input"""
from vlib import build, core

HARNESSES = {'h_c08/asan': ('h_c08', 'asan'), 'h_c08/plain': ('h_c08', 'plain'), 'h_c08/val': ('h_c08', 'val')}


def run(prop, tier, seed, t0):
    thorough = tier == 'thorough'
    exes = build.build_many([HARNESSES['h_c08/asan'], HARNESSES['h_c08/plain']])
    R = core.Runner(prop, tier, seed)
    res = core.Result()
    na, npl = (12000, 30000) if thorough else (350, 500)
    R.run_sharded(res, exes[0], [], na, label='h_c08/asan', variant='asan')
    R.run_sharded(res, exes[1], [], npl, label='h_c08/plain', variant='plain', first=na)
    nvg = core.valgrind_stage(R, res, HARNESSES['h_c08/val'], [], 1600 if thorough else 48, na + npl)
    cov = {
        'prefix_single_use_checks(ST and MT)': res.stat('prefix_single_use_checks'),
        'dictionaries_under_valgrind_memcheck': nvg, 'evaluations': res.stat('roundtrips') + res.stat('wrong_id_checks') + res.stat('dictionaries'), 'distinct_nontrivial': res.ncells('modes') + res.ncells('dict_class') + res.ncells('unusual'),
        'rule': 'dictionaries: raw content 0 B..1 MiB (incl. < 8 bytes, accidental magic), ZDICT-trained, golden dictionaries of the repo (missing symbols, zero weights), structurally valid UNUSUAL dictionaries assembled from generator-chosen normalised counts (absent symbols, less-than-one probabilities, table logs 5..9, truncated alphabets), Huffman tables with up to 2/3 zero counts and odd repeat offsets, serialised with the tree\'s own writers and kept only if both loaders accept, and mutated bytes behind the magic (memory safety only); '
                'x compression modes {usingDict, CDict byCopy/byRef (+dedicated dict search), loadDictionary, refCDict, refPrefix} x attach prefs 0..3 x levels -2..19 x inputs (dictionary tail replay, dictionary content, high-byte alphabet, random families) x 6 decode modes + R parsing the dictionary itself + wrong-ID / no-dictionary refusal. distinct non-trivial = (cmode, dmode) pairs + dictionary class/loader outcome cells + unusual-table feature cells',
        'dictionaries': res.stat('dictionaries'), 'not_loadable(by either side)': res.stat('dictionaries_not_loadable'), 'dictionary_classes': res.cells.get('dict_class', {}), 'unusual_feature_cells': res.cells.get('unusual', {}),
        'compressions': res.stat('compressions'), 'roundtrips': res.stat('roundtrips'), 'wrong_id_checks': res.stat('wrong_id_checks'), 'mode_pairs': res.ncells('modes'), 'applied_cells': res.ncells('applied'),
        'first_blocks_reusing_dict_huffman_table': res.stat('first_blocks_reusing_dict_huffman_table'), 'first_blocks_reusing_dict_fse_tables': res.stat('first_blocks_reusing_dict_fse_tables'), 'frames_referencing_dictionary_content': res.stat('frames_referencing_dictionary_content'),
        'dictionaries_R_cannot_parse': res.stat('dictionaries_R_cannot_parse'),
    }
    return core.finish(prop, tier, seed, 'exploration', res, cov, ['R parses dictionaries independently (entropy tables + content)', 'scope: dictionaries both loaders accept; mutated ones are judged for memory safety only', 'sampling'], t0, R)
