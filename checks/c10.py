"""C10 - see DESIGN.md section 4; streaming workloads of h_stream.c with prop=C10 oracles"""
from vlib import build, core

HARNESSES = {'h_stream/asan': ('h_stream', 'asan'), 'h_stream/plain': ('h_stream', 'plain')}
PROP = 'C10'


def run(prop, tier, seed, t0):
    thorough = tier == 'thorough'
    exes = build.build_many([HARNESSES['h_stream/asan'], HARNESSES['h_stream/plain']])
    R = core.Runner(prop, tier, seed)
    res = core.Result()
    na, npl = (30000, 120000) if thorough else (1200, 2500)
    R.run_sharded(res, exes[0], ['prop=' + PROP], na, label='h_stream/asan', variant='asan')
    R.run_sharded(res, exes[1], ['prop=' + PROP], npl, label='h_stream/plain', variant='plain', first=na)
    return finish(prop, tier, seed, res, t0, R)


def finish(prop, tier, seed, res, t0, R):
    cov = {
        'evaluations': res.stat('stream_calls') + res.stat('hint_runs'), 'distinct_nontrivial': res.ncells('script') + res.ncells('flush_fill'),
        'rule': 'history checker over the recorded (in.pos, out.pos, ret) of every streaming compression call: a call with consumable input and writable output must consume, produce or complete; positions never move backwards; a logical bound on the number of calls; at every point where flush returned 0 the bytes so far are decoded by an independent decoder context and must equal the input consumed so far; '
                'one case in five runs in a stable-buffer mode (stable input: same source pointer, growing size, positions only moved by the library; stable output; both); decoder fed exactly its size hints must never ask beyond the frame and must consume exactly the frame. distinct non-trivial = distinct script classes + distinct buffered-fill levels (4 KiB buckets) at completed flushes',
        'cases': res.stat('cases'), 'stream_calls': res.stat('stream_calls'), 'calls_with_input_and_room': res.stat('calls_with_input_and_room'), 'flush_points_checked': res.stat('flush_points_checked'),
        'frames_after_abandoned_frame_with_parked_output': res.stat('frames_after_abandoned_frame_with_parked_output'), 'hint_runs': res.stat('hint_runs'), 'hint_runs_with_empty_calls_at_hostage_point': res.stat('hint_runs_with_empty_calls_at_hostage_point'), 'hint_runs_after_abandoned_frame': res.stat('hint_runs_after_abandoned_frame'), 'hint_runs_abandoned_at_hostage_point': res.stat('hint_runs_abandoned_at_hostage_point'), 'hint_runs_with_hostage_episode': res.stat('hint_runs_with_hostage_episode'), 'script_cells': res.cells.get('script', {}),
    }
    return core.finish(prop, tier, seed, 'exploration', res, cov, ['bounded progress stands in for "finitely many steps"', 'sampling'], t0, R)
