"""C20 - seekable format: any byte range reads back exactly; malformed archives are memory-safe and never wrong-data-as-success"""
import os
from vlib import build, core

SEEK = ['contrib/seekable_format/zstdseek_compress.c', 'contrib/seekable_format/zstdseek_decompress.c']
HARNESSES = {'h_c20/asan': ('h_c20', 'asan', dict(repo_sources=SEEK, cflags=['-I' + os.path.join(build.REPO, 'contrib/seekable_format'), '-DXXH_STATIC_LINKING_ONLY'], hash_subdirs=['contrib/seekable_format']))}
HARNESSES['h_c20/val'] = ('h_c20', 'val', HARNESSES['h_c20/asan'][2])


def run(prop, tier, seed, t0):
    thorough = tier == 'thorough'
    s = HARNESSES['h_c20/asan']
    exe = build.build_harness(s[0], s[1], **s[2])
    R = core.Runner(prop, tier, seed)
    res = core.Result()
    n = 12000 if thorough else 400
    R.run_sharded(res, exe, [], n, label='h_c20/asan', variant='asan')
    nvg = core.valgrind_stage(R, res, HARNESSES['h_c20/val'], [], 1600 if thorough else 64, n)
    cov = {
        'archives_under_valgrind_memcheck': nvg, 'evaluations': res.stat('range_reads') + res.stat('frame_reads') + res.stat('corrupt_reads') + res.stat('iofault_reads'),
        'distinct_nontrivial': res.ncells('read_class') + res.ncells('layout') + res.ncells('corruption'),
        'rule': 'archives = contents x maxFrameSize {1..3, small, 128KiB+-2, 2^30, default, random} x checksum flag x chunked compression histories with explicit endFrame points (also empty frames); '
                'each archive: R walks the frame sequence + plain ZSTD_decompress of the whole; accessors for every index 0..numFrames(+out of range) against R\'s layout; range reads by class (continue forward, back, straddle boundary, at boundary, to end, zero length, random) through memory / FILE / callback access; decompressFrame; '
                'corrupted archives (footer, table entries, frame bytes, checksum entries, truncation, random) with reads continuing after failed reads; IO faults injected in callbacks. distinct non-trivial = distinct (access, read class) + layout + (corruption kind, outcome) cells',
        'archives': res.stat('archives'), 'range_reads': res.stat('range_reads'), 'frame_reads': res.stat('frame_reads'), 'accessor_checks': res.stat('accessor_checks'),
        'corrupted_archives': res.stat('corrupted_archives'), 'corrupt_reads': res.stat('corrupt_reads'), 'corrupt_reads_refused': res.stat('corrupt_reads_refused'),
        'confined_corruption_checks': res.stat('confined_corruption_checks'), 'confined_corruption_detected': res.stat('confined_corruption_detected'), 'iofault_reads': res.stat('iofault_reads'),
        'read_classes': res.cells.get('read_class', {}), 'layouts': res.cells.get('layout', {}), 'corruptions': res.cells.get('corruption', {}),
    }
    assumptions = ['a per-frame checksum can only be evaluated when the frame is decoded to its end: the wrong-data clause is limited to reads covering the corrupted frame to its end', R_NOTE, 'ASan/UBSan + guard pages']
    return core.finish(prop, tier, seed, 'exploration', res, cov, assumptions, t0, R)


R_NOTE = 'R walks the archive layout independently of lib/ and contrib/'
