/* empty translation unit (placeholder source for targets built only from /repo sources) */ typedef int verif_empty_t;
