/* sched.c - scheduler shim. Link with:
 *   -Wl,--wrap=pthread_create,--wrap=pthread_join,--wrap=pthread_mutex_init,--wrap=pthread_mutex_destroy,
 *       --wrap=pthread_mutex_lock,--wrap=pthread_mutex_unlock,--wrap=pthread_mutex_trylock,
 *       --wrap=pthread_cond_init,--wrap=pthread_cond_destroy,--wrap=pthread_cond_wait,--wrap=pthread_cond_signal,--wrap=pthread_cond_broadcast
 * zstd's ZSTD_pthread_* macros expand to the plain pthread names, so every synchronisation call of the library
 * is routed here without any source change.
 *
 * Deterministic mode models POSIX semantics: a mutex has one owner; cond_signal wakes ANY ONE waiter (chosen by the
 * PRNG); cond_broadcast wakes all; spurious wake-ups may be injected. Exactly one managed thread runs at a time; at
 * every wrapped call the next runnable thread is chosen by the seeded PRNG, so no interleaving is produced that the
 * program could not have, and every run is replayable from its seed. "No runnable thread while some are unfinished"
 * is a deadlock (decidable); exceeding the step limit is a livelock. */
#define _GNU_SOURCE
#include <pthread.h>
#include <semaphore.h>
#include <stdio.h>
#include <stdlib.h>
#include <string.h>
#include <errno.h>
#include <sched.h>
#include <unistd.h>
#include <time.h>
#include "vsched.h"

int __real_pthread_create(pthread_t*, const pthread_attr_t*, void* (*)(void*), void*);
int __real_pthread_join(pthread_t, void**);
int __real_pthread_mutex_init(pthread_mutex_t*, const pthread_mutexattr_t*);
int __real_pthread_mutex_destroy(pthread_mutex_t*);
int __real_pthread_mutex_lock(pthread_mutex_t*);
int __real_pthread_mutex_unlock(pthread_mutex_t*);
int __real_pthread_mutex_trylock(pthread_mutex_t*);
int __real_pthread_cond_init(pthread_cond_t*, const pthread_condattr_t*);
int __real_pthread_cond_destroy(pthread_cond_t*);
int __real_pthread_cond_wait(pthread_cond_t*, pthread_mutex_t*);
int __real_pthread_cond_signal(pthread_cond_t*);
int __real_pthread_cond_broadcast(pthread_cond_t*);

void (*sched_on_stuck)(const sched_result* r);

static uint64_t rng_s;
static uint64_t rnd(void) { uint64_t x = rng_s; x ^= x >> 12; x ^= x << 25; x ^= x >> 27; rng_s = x; return x * 0x2545F4914F6CDD1DULL; }
static uint64_t mix(uint64_t z) { z += 0x9E3779B97F4A7C15ULL; z = (z ^ (z >> 30)) * 0xBF58476D1CE4E5B9ULL; z = (z ^ (z >> 27)) * 0x94D049BB133111EBULL; return z ^ (z >> 31); }

#ifndef SCHED_STRESS
/* ======================================================================= deterministic mode */
#define MAXT 48
typedef enum { T_UNUSED = 0, T_RUNNABLE, T_BLK_MUTEX, T_BLK_COND, T_BLK_JOIN, T_FINISHED } tstate;
typedef struct {
    tstate st; pthread_t real; sem_t sem; const void* waitobj; int waitthread; long prio;
    void* (*fn)(void*); void* arg; void* ret; const char* label; int reaped;
    long points, stallAt; uint64_t stallLen, stallUntil;       /* injected long preemption of this thread (uniform mode) */
} sthread;
static sthread T[MAXT]; static int nT; static __thread int self = -1;
static volatile int g_active; static int g_mode, g_pctDepth; static uint64_t g_steps, g_limit, g_hash, g_expected;
static uint64_t g_changeAt[16]; static int g_spurious; static int g_lastPick = -1; static long g_samePick;
static sched_result g_res;

#define NOBJ 1024
typedef struct { const void* addr; int owner; int id; const char* name; int used; } sobj;
static sobj O[NOBJ]; static int g_nextObjId;
static sobj* obj(const void* a)
{
    size_t h = (size_t)(mix((uint64_t)(uintptr_t)a) % NOBJ);
    for (int i = 0; i < NOBJ; i++) { sobj* o = &O[(h + (size_t)i) % NOBJ]; if (o->used && o->addr == a) return o; if (!o->used) { o->used = 1; o->addr = a; o->owner = -1; o->id = g_nextObjId++; o->name = NULL; return o; } }
    fprintf(stderr, "sched: object table full\n"); abort();
}
static void obj_forget(const void* a)
{   /* destroyed objects: addresses get reused; keep the slot (tombstone keeps probing correct) but reset state */
    size_t h = (size_t)(mix((uint64_t)(uintptr_t)a) % NOBJ);
    for (int i = 0; i < NOBJ; i++) { sobj* o = &O[(h + (size_t)i) % NOBJ]; if (!o->used) return; if (o->addr == a) { o->owner = -1; o->name = NULL; o->id = g_nextObjId++; return; } }
}
static void ev(int me, int op, int objid) { g_hash = (g_hash ^ (uint64_t)((me + 1) * 1000003 + op * 101 + objid * 7919 + 13)) * 1099511628211ULL; }

static void describe_stuck(void)
{
    char* items[MAXT]; int n = 0; static char buf[MAXT][96];
    for (int t = 0; t < nT; t++) {
        if (T[t].st == T_FINISHED || T[t].st == T_UNUSED) continue;
        const char* what = T[t].st == T_BLK_MUTEX ? "mutex_lock" : T[t].st == T_BLK_COND ? "cond_wait" : T[t].st == T_BLK_JOIN ? "thread_join" : "runnable";
        const char* on = ""; if (T[t].st == T_BLK_MUTEX || T[t].st == T_BLK_COND) { sobj* o = obj(T[t].waitobj); if (o->name) on = o->name; }
        snprintf(buf[n], sizeof buf[n], "%s@%s%s%s", T[t].label ? T[t].label : "lib-thread", what, *on ? ":" : "", on); items[n] = buf[n]; n++;
    }
    for (int i = 0; i < n; i++) for (int j = i + 1; j < n; j++) if (strcmp(items[i], items[j]) > 0) { char* x = items[i]; items[i] = items[j]; items[j] = x; }
    g_res.blocked[0] = 0; for (int i = 0; i < n; i++) { strncat(g_res.blocked, items[i], sizeof g_res.blocked - strlen(g_res.blocked) - 2); if (i + 1 < n) strncat(g_res.blocked, "+", sizeof g_res.blocked - strlen(g_res.blocked) - 1); }
}
static void stuck(int livelock)
{
    g_res.steps = g_steps; g_res.hash = g_hash; g_res.threads = (unsigned)nT; g_res.deadlock = !livelock; g_res.livelock = livelock;
    describe_stuck();
    if (sched_on_stuck) sched_on_stuck(&g_res);
    fprintf(stderr, "sched: %s: %s\n", livelock ? "LIVELOCK" : "DEADLOCK", g_res.blocked);
    _exit(79);
}

/* the token holder `me` (state already updated) hands the token to the next runnable thread */
static void pick_and_switch(int me)
{
    g_steps++;
    if (g_steps > g_limit) stuck(1);
    if (g_spurious && (int)(rnd() % 1000) < g_spurious) {        /* POSIX allows spurious wake-ups */
        int w[MAXT], nw = 0; for (int t = 0; t < nT; t++) if (T[t].st == T_BLK_COND) w[nw++] = t;
        if (nw) { int t = w[rnd() % (uint64_t)nw]; T[t].st = T_RUNNABLE; g_res.spurious++; ev(t, 9, 0); }
    }
    int run[MAXT], nr = 0;
    for (int t = 0; t < nT; t++) if (T[t].st == T_RUNNABLE) run[nr++] = t;
    if (nr == 0) {
        int unfinished = 0; for (int t = 0; t < nT; t++) if (T[t].st != T_FINISHED && T[t].st != T_UNUSED) unfinished++;
        if (unfinished) stuck(0);
        return;
    }
    int next;
    if (g_mode == SCHED_PCT) {
        for (int i = 0; i < g_pctDepth; i++) if (g_steps == g_changeAt[i] && me >= 0 && T[me].st == T_RUNNABLE) T[me].prio = i;    /* change point: demote the running thread */
        next = run[0]; for (int i = 1; i < nr; i++) if (T[run[i]].prio > T[next].prio) next = run[i];
        /* bounded unfairness: code that polls in a loop (non-blocking calls) needs the other threads to run eventually; a thread that
         * kept the processor for many consecutive points while others were runnable is demoted below everybody (still a legal schedule) */
        if (next == g_lastPick && nr > 1) { if (++g_samePick > 400) { long lo = T[run[0]].prio; for (int i = 1; i < nr; i++) if (T[run[i]].prio < lo) lo = T[run[i]].prio; T[next].prio = lo - 1; g_samePick = 0;
                next = run[0]; for (int i = 1; i < nr; i++) if (T[run[i]].prio > T[next].prio) next = run[i]; } }
        else g_samePick = 0;
        g_lastPick = next;
    } else {
        /* long preemptions: a thread may lose the processor for a long stretch at an arbitrary point (legal, and what reorders
         * "who reaches the critical section first"); stalled threads are skipped while somebody else can run */
        if (me >= 0 && T[me].st == T_RUNNABLE) { T[me].points++; if (T[me].points == T[me].stallAt) T[me].stallUntil = g_steps + T[me].stallLen; }
        int awake[MAXT], na = 0; for (int i = 0; i < nr; i++) if (T[run[i]].stallUntil <= g_steps) awake[na++] = run[i];
        next = na ? awake[rnd() % (uint64_t)na] : run[rnd() % (uint64_t)nr];
    }
    if (next == me) return;
    if (me >= 0 && T[me].st == T_RUNNABLE) g_res.preemptions++;
    sem_post(&T[next].sem);
    if (me >= 0 && T[me].st != T_FINISHED) { while (sem_wait(&T[me].sem) != 0 && errno == EINTR) {} }
}
static void yield_point(int me) { T[me].st = T_RUNNABLE; pick_and_switch(me); }

static void* trampoline(void* p)
{
    int const me = (int)(intptr_t)p; self = me;
    while (sem_wait(&T[me].sem) != 0 && errno == EINTR) {}
    T[me].ret = T[me].fn(T[me].arg);
    T[me].st = T_FINISHED; ev(me, 8, 0);
    for (int t = 0; t < nT; t++) if (T[t].st == T_BLK_JOIN && T[t].waitthread == me) T[t].st = T_RUNNABLE;
    pick_and_switch(me);
    return T[me].ret;
}

int sched_active(void) { return g_active && self >= 0; }
uint64_t sched_clock(void) { return g_steps; }
void sched_set_op(const char* label) { if (self >= 0) T[self].label = label; }
void sched_label(const void* o, const char* name) { if (g_active) obj(o)->name = name; }

void sched_begin(uint64_t seed, int mode, int pct_depth, uint64_t expected_len, uint64_t step_limit, int spurious_permille)
{
    memset(T, 0, sizeof T); memset(O, 0, sizeof O); memset(&g_res, 0, sizeof g_res);
    nT = 1; self = 0; T[0].st = T_RUNNABLE; T[0].real = pthread_self(); sem_init(&T[0].sem, 0, 0); T[0].label = "main"; T[0].prio = 1000000;
    rng_s = mix(seed) | 1; g_mode = mode; g_pctDepth = pct_depth > 16 ? 16 : pct_depth; g_steps = 0; g_limit = step_limit; g_hash = 1469598103934665603ULL; g_expected = expected_len ? expected_len : 200; g_nextObjId = 1; g_spurious = spurious_permille;
    for (int i = 0; i < g_pctDepth; i++) g_changeAt[i] = 1 + rnd() % g_expected;
    g_lastPick = -1; g_samePick = 0;
    g_active = 1;
}
void sched_end(sched_result* out)
{
    {   int live = 0; for (int t = 1; t < nT; t++) if (T[t].st != T_FINISHED) live++;
        if (live) {   /* the program under test returned from its teardown with threads it created still alive */
            g_res.steps = g_steps; g_res.hash = g_hash; g_res.threads = (unsigned)nT; g_res.deadlock = 0; g_res.livelock = 0;
            describe_stuck(); { char tmp[256]; snprintf(tmp, sizeof tmp, "live-threads-after-teardown:%s", g_res.blocked); memcpy(g_res.blocked, tmp, sizeof g_res.blocked); g_res.blocked[sizeof g_res.blocked - 1] = 0; }
            if (sched_on_stuck) sched_on_stuck(&g_res);
            fprintf(stderr, "sched_end: %d thread(s) not finished: %s\n", live, g_res.blocked);
            _exit(79);
        } }
    g_active = 0; self = -1;
    for (int t = 1; t < nT; t++) { if (!T[t].reaped) __real_pthread_join(T[t].real, NULL); sem_destroy(&T[t].sem); }
    sem_destroy(&T[0].sem);
    g_res.steps = g_steps; g_res.hash = g_hash; g_res.threads = (unsigned)nT;
    if (out) *out = g_res;
}

/* fault injection: the k-th pthread_create issued from now on (1-based) fails with EAGAIN, as under a thread / pid limit; 0 = off */
static int g_failCreateAt;
void sched_fail_create_at(int k) { g_failCreateAt = k; }
int __wrap_pthread_create(pthread_t* th, const pthread_attr_t* attr, void* (*fn)(void*), void* arg)
{
    if (g_failCreateAt > 0 && --g_failCreateAt == 0) return EAGAIN;
    if (!sched_active()) return __real_pthread_create(th, attr, fn, arg);
    int const me = self;
    if (nT >= MAXT) { fprintf(stderr, "sched: too many threads\n"); abort(); }
    int const t = nT++;
    T[t].st = T_RUNNABLE; T[t].fn = fn; T[t].arg = arg; T[t].label = NULL; T[t].reaped = 0; sem_init(&T[t].sem, 0, 0);
    T[t].prio = g_pctDepth + 1 + (long)(rnd() % 1000);
    T[t].points = 0; T[t].stallUntil = 0; T[t].stallAt = (rnd() % 3 == 0) ? 1 + (long)(rnd() % 60) : -1; T[t].stallLen = 20 + rnd() % 3000;
    {   int const r = __real_pthread_create(&T[t].real, attr, trampoline, (void*)(intptr_t)t);
        if (r) { nT--; return r; } }
    *th = T[t].real; ev(me, 1, t);
    yield_point(me);
    return 0;
}
int __wrap_pthread_join(pthread_t th, void** ret)
{
    if (!sched_active()) return __real_pthread_join(th, ret);
    int const me = self; int t = -1;
    for (int i = 0; i < nT; i++) if (i != me && T[i].st != T_UNUSED && pthread_equal(T[i].real, th) && !T[i].reaped) { t = i; break; }
    if (t < 0) return __real_pthread_join(th, ret);
    yield_point(me);
    while (T[t].st != T_FINISHED) { T[me].st = T_BLK_JOIN; T[me].waitthread = t; pick_and_switch(me); }
    ev(me, 2, t); T[t].reaped = 1;
    return __real_pthread_join(th, ret);
}
int __wrap_pthread_mutex_init(pthread_mutex_t* m, const pthread_mutexattr_t* a) { if (g_active) obj_forget(m); return __real_pthread_mutex_init(m, a); }
int __wrap_pthread_mutex_destroy(pthread_mutex_t* m) { if (g_active) obj_forget(m); return __real_pthread_mutex_destroy(m); }
int __wrap_pthread_cond_init(pthread_cond_t* c, const pthread_condattr_t* a) { if (g_active) obj_forget(c); return __real_pthread_cond_init(c, a); }
int __wrap_pthread_cond_destroy(pthread_cond_t* c) { if (g_active) obj_forget(c); return __real_pthread_cond_destroy(c); }

static void acquire(int me, pthread_mutex_t* m)
{
    for (;;) { sobj* o = obj(m); if (o->owner < 0) { o->owner = me; ev(me, 3, o->id); return; } T[me].st = T_BLK_MUTEX; T[me].waitobj = m; g_res.mutex_blocks++; pick_and_switch(me); }
}
static void release(int me, pthread_mutex_t* m)
{
    sobj* o = obj(m); (void)me; o->owner = -1; ev(me, 4, o->id);
    for (int t = 0; t < nT; t++) if (T[t].st == T_BLK_MUTEX && T[t].waitobj == m) T[t].st = T_RUNNABLE;
}
int __wrap_pthread_mutex_lock(pthread_mutex_t* m)
{
    if (!sched_active()) return __real_pthread_mutex_lock(m);
    int const me = self; yield_point(me); acquire(me, m); return 0;
}
int __wrap_pthread_mutex_trylock(pthread_mutex_t* m)
{
    if (!sched_active()) return __real_pthread_mutex_trylock(m);
    int const me = self; yield_point(me);
    { sobj* o = obj(m); if (o->owner < 0) { o->owner = me; ev(me, 3, o->id); return 0; } }
    return EBUSY;
}
int __wrap_pthread_mutex_unlock(pthread_mutex_t* m)
{
    if (!sched_active()) return __real_pthread_mutex_unlock(m);
    int const me = self; release(me, m); yield_point(me); return 0;
}
int __wrap_pthread_cond_wait(pthread_cond_t* c, pthread_mutex_t* m)
{
    if (!sched_active()) return __real_pthread_cond_wait(c, m);
    int const me = self;
    yield_point(me);          /* a thread may be preempted between testing its predicate and starting to wait */
    release(me, m);
    T[me].st = T_BLK_COND; T[me].waitobj = c; g_res.cond_waits++; ev(me, 5, obj(c)->id);
    pick_and_switch(me);
    acquire(me, m);
    return 0;
}
int __wrap_pthread_cond_signal(pthread_cond_t* c)
{
    if (!sched_active()) return __real_pthread_cond_signal(c);
    int const me = self; int w[MAXT], nw = 0;
    for (int t = 0; t < nT; t++) if (T[t].st == T_BLK_COND && T[t].waitobj == c) w[nw++] = t;
    if (nw) { int const t = w[rnd() % (uint64_t)nw]; T[t].st = T_RUNNABLE; }     /* "at least one" waiter: any one of them */
    if (nw >= 2) g_res.signals_with_several_waiters++;
    ev(me, 6, obj(c)->id);
    yield_point(me);
    return 0;
}
int __wrap_pthread_cond_broadcast(pthread_cond_t* c)
{
    if (!sched_active()) return __real_pthread_cond_broadcast(c);
    int const me = self;
    { int nw = 0; for (int t = 0; t < nT; t++) if (T[t].st == T_BLK_COND && T[t].waitobj == c) { T[t].st = T_RUNNABLE; nw++; } if (nw >= 2) g_res.broadcasts_with_several_waiters++; }
    ev(me, 7, obj(c)->id);
    yield_point(me);
    return 0;
}

#else
/* ======================================================================= stress mode (TSan): pass-through + seeded delays.
 * No synchronisation of its own (per-thread PRNG state, relaxed counters), so TSan's happens-before graph is the program's. */
static __thread uint64_t t_rng; static uint64_t g_seed = 1; static int g_on; static unsigned g_events;
static void jitter(void)
{
    if (!g_on) return;
    if (!t_rng) t_rng = mix(g_seed ^ (uint64_t)(uintptr_t)&t_rng) | 1;
    uint64_t x = t_rng; x ^= x >> 12; x ^= x << 25; x ^= x >> 27; t_rng = x; x *= 0x2545F4914F6CDD1DULL;
    __atomic_fetch_add(&g_events, 1, __ATOMIC_RELAXED);
    switch ((x >> 33) % 16) { case 0: case 1: case 2: sched_yield(); break; case 3: { struct timespec ts = { 0, (long)((x >> 40) % 200000) }; nanosleep(&ts, NULL); break; } default: break; }
}
int sched_active(void) { return 0; }
uint64_t sched_clock(void) { return 0; }
void sched_set_op(const char* l) { (void)l; }
void sched_label(const void* o, const char* n) { (void)o; (void)n; }
void sched_begin(uint64_t seed, int mode, int d, uint64_t e, uint64_t l, int s) { (void)mode; (void)d; (void)e; (void)l; (void)s; g_seed = seed; g_events = 0; g_on = 1; }
void sched_end(sched_result* out) { g_on = 0; if (out) { memset(out, 0, sizeof *out); out->steps = g_events; out->hash = mix(g_seed); } }
static int g_failCreateAt; void sched_fail_create_at(int k) { g_failCreateAt = k; }
int __wrap_pthread_create(pthread_t* th, const pthread_attr_t* a, void* (*fn)(void*), void* arg) { if (g_failCreateAt > 0 && --g_failCreateAt == 0) return EAGAIN; jitter(); return __real_pthread_create(th, a, fn, arg); }
int __wrap_pthread_join(pthread_t th, void** r) { jitter(); return __real_pthread_join(th, r); }
int __wrap_pthread_mutex_init(pthread_mutex_t* m, const pthread_mutexattr_t* a) { return __real_pthread_mutex_init(m, a); }
int __wrap_pthread_mutex_destroy(pthread_mutex_t* m) { return __real_pthread_mutex_destroy(m); }
int __wrap_pthread_cond_init(pthread_cond_t* c, const pthread_condattr_t* a) { return __real_pthread_cond_init(c, a); }
int __wrap_pthread_cond_destroy(pthread_cond_t* c) { return __real_pthread_cond_destroy(c); }
int __wrap_pthread_mutex_lock(pthread_mutex_t* m) { jitter(); return __real_pthread_mutex_lock(m); }
int __wrap_pthread_mutex_trylock(pthread_mutex_t* m) { jitter(); return __real_pthread_mutex_trylock(m); }
int __wrap_pthread_mutex_unlock(pthread_mutex_t* m) { int const r = __real_pthread_mutex_unlock(m); jitter(); return r; }
int __wrap_pthread_cond_wait(pthread_cond_t* c, pthread_mutex_t* m) { return __real_pthread_cond_wait(c, m); }
int __wrap_pthread_cond_signal(pthread_cond_t* c) { int const r = __real_pthread_cond_signal(c); jitter(); return r; }
int __wrap_pthread_cond_broadcast(pthread_cond_t* c) { int const r = __real_pthread_cond_broadcast(c); jitter(); return r; }
#endif
