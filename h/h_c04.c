/* h_c04.c - C04: every decoding path / build variant yields the specified output for every valid frame.
 * mode=gen dir=<d>      : write the frame set (compressor output, mutations of everything in <d>/base) as files f<id> (+ .dict)
 * mode=run dir=<d>      : for every frame file and every decode path print  D <id> <path> <status> <len> <xxh64>
 * mode=ref dir=<d>      : R (independent reference decoder) on every frame: R <id> <ok> <len> <xxh64> + feature events
 * The driver compares the tables across paths and build variants and against R. */
#include "vparams.h"
#include "vdict.h"
#include "refdec.h"
#include <dirent.h>

static uint8_t* slurp(const char* path, size_t* n) { FILE* f = fopen(path, "rb"); if (!f) { *n = 0; return NULL; } fseek(f, 0, SEEK_END); long s = ftell(f); fseek(f, 0, SEEK_SET); uint8_t* b = (uint8_t*)malloc((size_t)s + 1); *n = fread(b, 1, (size_t)s, f); fclose(f); return b; }
static void spit(const char* dir, long id, const char* suffix, const void* p, size_t n) { char path[700]; snprintf(path, sizeof path, "%s/f%06ld%s", dir, id, suffix); FILE* f = fopen(path, "wb"); if (!f) { perror(path); exit(2); } fwrite(p, 1, n, f); fclose(f); }

static int cmpstr(const void* a, const void* b) { return strcmp(*(char* const*)a, *(char* const*)b); }
static char** list_dir(const char* dir, const char* prefix, size_t* n)
{
    DIR* d = opendir(dir); *n = 0; if (!d) return NULL; size_t cap = 256; char** v = (char**)malloc(cap * sizeof(char*)); struct dirent* e;
    while ((e = readdir(d))) { if (strncmp(e->d_name, prefix, strlen(prefix)) || strstr(e->d_name, ".dict") || strstr(e->d_name, ".src")) continue; if (*n == cap) { cap *= 2; v = (char**)realloc(v, cap * sizeof(char*)); } v[(*n)++] = strdup(e->d_name); }
    closedir(d); qsort(v, *n, sizeof(char*), cmpstr); return v;
}

/* -------------------------------------------------------------- gen */
static void gen(const char* dir)
{
    vrng r = vr_make(V.seed, 104, 0); long id = 0; char path[700];
    /* base frames delivered by the driver: <dir>/base/{plain,dict}/... from decodecorpus, golden files */
    const char* subs[2] = { "base/plain", "base/dict" };
    for (int s = 0; s < 2; s++) {
        snprintf(path, sizeof path, "%s/%s", dir, subs[s]); size_t nf; char** files = list_dir(path, "", &nf); size_t dl = 0; uint8_t* dict = NULL;
        if (s == 1) { snprintf(path, sizeof path, "%s/base/dict/dictionary", dir); dict = slurp(path, &dl); }
        for (size_t i = 0; i < nf; i++) { if (!strcmp(files[i], "dictionary")) continue; snprintf(path, sizeof path, "%s/%s/%s", dir, subs[s], files[i]); size_t n; uint8_t* b = slurp(path, &n); if (!b || n > (3u << 20)) { free(b); continue; }
            spit(dir, id, "", b, n); if (dict) spit(dir, id, ".dict", dict, dl); id++;
            /* mutations: used for the agreement half only (R decides whether they are still valid) */
            for (int k = 0; k < 2 && n > 8; k++) { uint8_t* m = (uint8_t*)malloc(n); memcpy(m, b, n); int flips = 1 + (int)vr_u(&r, 2); while (flips--) m[4 + vr_u64(&r, n - 4)] ^= (uint8_t)(1u << vr_u(&r, 8)); spit(dir, id, ".mut", m, n); if (dict) spit(dir, id, ".mut.dict", dict, dl); id++; free(m); }
            free(b); }
    }
    /* compressor output: long offsets, big windows, blocks close to 128 KiB with many literals (split literal buffer), dictionaries, long matches */
    long const ncomp = v_opt_long("ncomp", 400);
    for (long i = 0; i < ncomp; i++) {
        int fam = (int)vr_u(&r, DF_NB); size_t n;
        switch (vr_u(&r, 5)) { case 0: n = (128u << 10) * (1 + vr_u(&r, 4)) + vr_u(&r, 5) - 2; fam = vr_chance(&r, 1, 2) ? DF_SKEWED : DF_TEXT; break; case 1: n = (1u << 20) + vr_u64(&r, 3u << 20); fam = DF_LONGREP; break; default: n = pick_size(&r, 600000); }
        uint8_t* x = (uint8_t*)malloc(n + 8); gen_data(&r, x, n, fam); vparams P; vp_random(&r, &P, VP_BIG); if (P.windowLog > 24) vp_level_only(&P);
        ZSTD_CCtx* c = ZSTD_createCCtx(); size_t const cap = ZSTD_compressBound(n) + 64; uint8_t* dst = (uint8_t*)malloc(cap); uint8_t* dict = NULL; size_t dl = 0;
        if (!ZSTD_isError(vp_apply(c, &P))) {
            if (vr_chance(&r, 1, 4)) { dl = 1 + vr_u(&r, 100000); dict = (uint8_t*)malloc(dl); gen_data(&r, dict, dl, fam); if (n > 64) memcpy(dict + dl - V_MIN(dl, n / 2), x, V_MIN(dl, n / 2)); if (dl >= 4 && dict[0] == 0x37 && dict[1] == 0xA4 && dict[2] == 0x30 && dict[3] == 0xEC) dict[0] ^= 1; ZSTD_CCtx_loadDictionary_advanced(c, dict, dl, ZSTD_dlm_byRef, ZSTD_dct_rawContent); }
            size_t const cs = ZSTD_compress2(c, dst, cap, x, n);
            if (!ZSTD_isError(cs)) { spit(dir, id, "", dst, cs); spit(dir, id, ".src", x, n); if (dict) spit(dir, id, ".dict", dict, dl); id++; } }
        ZSTD_freeCCtx(c); free(x); free(dst); free(dict);
    }
    /* forged parses through ZSTD_compressSequences: every frame mixes thousands of short sequences (all small length codes: large FSE tables, rare codes)
     * with sequences whose literal-length, match-length and offset codes carry many extra bits at once (lengths at code boundaries up to 64 KiB+, offsets at
     * powers of two up to the window): the bit-reload decisions of the sequence decoders, which ordinary compressor output rarely reaches */
    long const nforge = v_opt_long("nforge", 6);
    for (long i = 0; i < nforge; i++) {
        int const wl = (int)vr_range(&r, 18, 22); size_t const win = (size_t)1 << wl; size_t const n = win + (size_t)vr_range(&r, 3, 8) * (128u << 10);
        uint8_t* x = (uint8_t*)malloc(n + 8); size_t const maxSeq = n / 4 + 1024; ZSTD_Sequence* sq = (ZSTD_Sequence*)malloc(maxSeq * sizeof *sq); size_t ns = 0, pos = 0;
        static const uint32_t lenEdges[] = { 0, 1, 2, 3, 15, 16, 17, 31, 32, 63, 64, 127, 128, 255, 256, 511, 512, 1023, 1024, 2047, 2048, 4095, 4096, 8191, 8192, 16383, 16384, 32767, 32768, 65535, 65536, 70000 };
        /* history: one window of noise in literal-only blocks */
        while (pos < win) { size_t const l = V_MIN((size_t)(128u << 10), win - pos); vr_fill(&r, x + pos, l); sq[ns].offset = 0; sq[ns].litLength = (unsigned)l; sq[ns].matchLength = 0; sq[ns].rep = 0; ns++; pos += l; }
        while (pos < n && ns + 8 < maxSeq) {     /* dense blocks */
            size_t const blockEnd = V_MIN(n, pos + (128u << 10)); size_t lastLits = 0;
            while (pos < blockEnd && ns + 8 < maxSeq) {
                uint32_t ll, ml; size_t off;
                if (vr_chance(&r, 1, 1200)) { ll = lenEdges[vr_u(&r, vr_chance(&r, 1, 4) ? 32 : 22)] + vr_u(&r, 2); ml = 3 + lenEdges[vr_u(&r, vr_chance(&r, 1, 4) ? 32 : 22)] + vr_u(&r, 2); off = vr_chance(&r, 1, 2) ? ((size_t)1 << vr_range(&r, 10, wl)) - vr_u(&r, 2) : 1 + vr_u64(&r, win - 1); }
                else { ll = vr_chance(&r, 1, 3) ? 0 : vr_u(&r, vr_chance(&r, 1, 8) ? 40 : 6); ml = 3 + vr_u(&r, vr_chance(&r, 1, 8) ? 60 : 8); off = vr_chance(&r, 1, 3) ? 1 + vr_u(&r, 64) : vr_chance(&r, 1, 2) ? 1 + vr_u64(&r, win - 1) : (size_t)1 << vr_range(&r, 1, wl); }
                if (off > pos + ll) off = pos + ll ? pos + ll : 1; if (off > win) off = win;
                if (pos + ll + ml > blockEnd) { if (pos + 3 >= blockEnd) { lastLits = blockEnd - pos; break; } ll = 0; ml = (uint32_t)V_MIN((size_t)ml, blockEnd - pos); if (ml < 3) { lastLits = blockEnd - pos; break; } if (off > pos) off = pos; }
                vr_fill(&r, x + pos, ll); pos += ll; if (off == 0 || off > pos) { lastLits = 0; continue; }
                for (uint32_t k = 0; k < ml; k++) x[pos + k] = x[pos + k - off]; pos += ml;
                sq[ns].offset = (unsigned)off; sq[ns].litLength = ll; sq[ns].matchLength = ml; sq[ns].rep = 0; ns++; }
            if (lastLits) { vr_fill(&r, x + pos, lastLits); pos += lastLits; }
            sq[ns].offset = 0; sq[ns].litLength = (unsigned)lastLits; sq[ns].matchLength = 0; sq[ns].rep = 0; ns++;     /* block delimiter */
        }
        {   size_t const total = pos; ZSTD_CCtx* c = ZSTD_createCCtx(); size_t const cap = ZSTD_compressBound(total) + 1024; uint8_t* dst = (uint8_t*)malloc(cap);
            ZSTD_CCtx_setParameter(c, ZSTD_c_windowLog, wl); ZSTD_CCtx_setParameter(c, ZSTD_c_minMatch, 3); ZSTD_CCtx_setParameter(c, ZSTD_c_blockDelimiters, ZSTD_sf_explicitBlockDelimiters); ZSTD_CCtx_setParameter(c, ZSTD_c_validateSequences, 1);
            ZSTD_CCtx_setParameter(c, ZSTD_c_compressionLevel, (int)vr_range(&r, 1, 12)); ZSTD_CCtx_setParameter(c, ZSTD_c_checksumFlag, 1); ZSTD_CCtx_setParameter(c, ZSTD_c_searchForExternalRepcodes, (int)vr_range(&r, 0, 2));
            size_t const cs = ZSTD_compressSequences(c, dst, cap, sq, ns, x, total);
            if (!ZSTD_isError(cs)) { spit(dir, id, "", dst, cs); spit(dir, id, ".src", x, total); id++; printf("FORGED\t%ld\t%zu\t%zu\n", i, ns, total); } else printf("FORGE-REFUSED\t%ld\t%s\n", i, ZSTD_getErrorName(cs));
            ZSTD_freeCCtx(c); free(dst); }
        free(x); free(sq);
    }
    /* dictionary-straddling matches in tiny frames: a match that starts in the dictionary and runs on into the frame's own first bytes (offset < match length at
     * position ~0), close to the end of the output, so that the decoder's end-of-buffer sequence execution has to stitch the two segments; parses forged through
     * ZSTD_compressSequences (raw-content dictionary) and the same inputs through ZSTD_compress2 */
    long const nstraddle = v_opt_long("nstraddle", 160);
    for (long i = 0; i < nstraddle; i++) {
        size_t const dl = 8 + vr_u(&r, vr_chance(&r, 1, 2) ? 60 : 3000); uint8_t* dict = (uint8_t*)malloc(dl); vr_fill(&r, dict, dl); if (dict[0] == 0x37 && dict[1] == 0xA4 && dict[2] == 0x30 && dict[3] == 0xEC) dict[0] ^= 1;
        uint8_t x[400]; ZSTD_Sequence sq[8]; size_t ns = 0, pos = 0;
        int const nseq = 1 + (int)vr_u(&r, 3);
        for (int q = 0; q < nseq; q++) {
            uint32_t const ll = q == 0 ? vr_u(&r, 4) : vr_u(&r, 6); vr_fill(&r, x + pos, ll); pos += ll;
            size_t const back = 1 + vr_u64(&r, V_MIN(dl, (size_t)24)); size_t const off = pos + back;                 /* starts `back` bytes before the end of the dictionary */
            uint32_t const ml = (uint32_t)(back + (vr_chance(&r, 1, 5) ? 0 : 1 + vr_u(&r, 40))); if (ml < 3) { pos -= ll; continue; }
            for (uint32_t k = 0; k < ml; k++) { size_t const from = pos + k; x[from] = (from < off) ? dict[dl - (off - from)] : x[from - off]; }
            pos += ml; sq[ns].offset = (unsigned)off; sq[ns].litLength = ll; sq[ns].matchLength = ml; sq[ns].rep = 0; ns++;
        }
        {   uint32_t const tail = vr_chance(&r, 1, 2) ? 0 : vr_u(&r, 34); vr_fill(&r, x + pos, tail); pos += tail; sq[ns].offset = 0; sq[ns].litLength = tail; sq[ns].matchLength = 0; sq[ns].rep = 0; ns++; }
        if (ns > 1) { uint8_t dst[1024];
            for (int how = 0; how < 2; how++) { ZSTD_CCtx* c = ZSTD_createCCtx(); size_t cs;
                ZSTD_CCtx_setParameter(c, ZSTD_c_checksumFlag, (int)vr_u(&r, 2)); ZSTD_CCtx_setParameter(c, ZSTD_c_contentSizeFlag, 1); ZSTD_CCtx_loadDictionary_advanced(c, dict, dl, ZSTD_dlm_byRef, ZSTD_dct_rawContent);
                if (how == 0) { ZSTD_CCtx_setParameter(c, ZSTD_c_minMatch, 3); ZSTD_CCtx_setParameter(c, ZSTD_c_blockDelimiters, ZSTD_sf_explicitBlockDelimiters); ZSTD_CCtx_setParameter(c, ZSTD_c_validateSequences, 1); ZSTD_CCtx_setParameter(c, ZSTD_c_compressionLevel, (int)vr_range(&r, 1, 9)); cs = ZSTD_compressSequences(c, dst, sizeof dst, sq, ns, x, pos); }
                else { ZSTD_CCtx_setParameter(c, ZSTD_c_compressionLevel, (int)vr_range(&r, 1, 19)); ZSTD_CCtx_setParameter(c, ZSTD_c_minMatch, 3); cs = ZSTD_compress2(c, dst, sizeof dst, x, pos); }
                if (!ZSTD_isError(cs)) { spit(dir, id, "", dst, cs); spit(dir, id, ".src", x, pos); spit(dir, id, ".dict", dict, dl); id++; printf("STRADDLE\t%ld\t%d\n", i, how); }
                ZSTD_freeCCtx(c); } }
        free(dict);
    }
    /* formatted dictionaries with unusual entropy tables and start repeat offsets other than 1/4/8 (assembler shared with C08 / C17), and tiny inputs whose first
     * matches sit exactly at those repeat offsets: every decode path (raw dictionary buffer, DDict cold / warm / referenced) must start from the same history */
    long const nfdict = v_opt_long("nfdict", 60);
    for (long i = 0; i < nfdict; i++) {
        size_t const cl = 64 + vr_u(&r, vr_chance(&r, 1, 2) ? 400 : 20000); uint8_t* content = (uint8_t*)malloc(cl); gen_data(&r, content, cl, vr_chance(&r, 1, 2) ? DF_TEXT : DF_RANDOM);
        uint8_t* dict = (uint8_t*)malloc(cl + 4096); char feat[128]; size_t const dl = build_dict(&r, dict, cl + 4096, content, cl, feat, sizeof feat);
        if (dl) { ZSTD_DDict* dd = ZSTD_createDDict(dict, dl); ZSTD_CDict* cd = ZSTD_createCDict(dict, dl, 3);
            if (dd && cd) { uint32_t rep[3]; memcpy(rep, dict + dl - cl - 12, 12);
                for (int t = 0; t < 3; t++) {
                    uint8_t x[600]; ZSTD_Sequence sq[8]; size_t ns = 0, pos = 0; int const nseq = 1 + (int)vr_u(&r, 3);
                    for (int q = 0; q < nseq; q++) { uint32_t const ll = (q == 0 && vr_chance(&r, 1, 2)) ? 0 : vr_u(&r, 5); vr_fill(&r, x + pos, ll); pos += ll;
                        size_t const off = rep[vr_u(&r, 3)]; if (off == 0 || off > cl + pos) break; uint32_t const ml = 4 + vr_u(&r, 40);
                        for (uint32_t k = 0; k < ml; k++) { size_t const from = pos + k; x[from] = (from < off) ? content[cl - (off - from)] : x[from - off]; }
                        pos += ml; sq[ns].offset = (unsigned)off; sq[ns].litLength = ll; sq[ns].matchLength = ml; sq[ns].rep = 0; ns++; }
                    {   uint32_t const tail = vr_u(&r, 20); vr_fill(&r, x + pos, tail); pos += tail; sq[ns].offset = 0; sq[ns].litLength = tail; sq[ns].matchLength = 0; sq[ns].rep = 0; ns++; }
                    uint8_t dst[2048]; ZSTD_CCtx* c = ZSTD_createCCtx(); size_t cs; ZSTD_CCtx_setParameter(c, ZSTD_c_checksumFlag, 1); ZSTD_CCtx_loadDictionary(c, dict, dl);
                    if (t == 0 && ns > 1) { ZSTD_CCtx_setParameter(c, ZSTD_c_blockDelimiters, ZSTD_sf_explicitBlockDelimiters); ZSTD_CCtx_setParameter(c, ZSTD_c_validateSequences, 1); ZSTD_CCtx_setParameter(c, ZSTD_c_searchForExternalRepcodes, ZSTD_ps_enable); ZSTD_CCtx_setParameter(c, ZSTD_c_compressionLevel, (int)vr_range(&r, 1, 9)); cs = ZSTD_compressSequences(c, dst, sizeof dst, sq, ns, x, pos); }
                    else { ZSTD_CCtx_setParameter(c, ZSTD_c_compressionLevel, t == 1 ? (int)vr_range(&r, 13, 19) : (int)vr_range(&r, 1, 12)); cs = ZSTD_compress2(c, dst, sizeof dst, x, pos); }
                    if (!ZSTD_isError(cs)) { spit(dir, id, "", dst, cs); spit(dir, id, ".src", x, pos); spit(dir, id, ".dict", dict, dl); id++; printf("FDICT\t%ld\t%d\t%s\n", i, t, feat); }
                    ZSTD_freeCCtx(c); } }
            ZSTD_freeDDict(dd); ZSTD_freeCDict(cd); }
        free(content); free(dict);
    }
    printf("GEN\t%ld\n", id);
}

/* -------------------------------------------------------------- decode paths */
static void emit(const char* id, const char* path, size_t ret, const uint8_t* out, size_t outlen)
{
    if (ZSTD_isError(ret)) printf("D\t%s\t%s\tERR\t0\t0\n", id, path); else printf("D\t%s\t%s\tOK\t%zu\t%016llx\n", id, path, outlen, (unsigned long long)v_xxh64(out, outlen, 0));
}
static size_t stream_path(ZSTD_DCtx* d, const uint8_t* f, size_t fs, uint8_t* out, size_t cap, vrng* r, int stable, size_t* produced)
{
    ZSTD_inBuffer in = { f, 0, 0 }; ZSTD_outBuffer ob = { out, 0, 0 }; size_t ret = 1; long guard = 0;
    size_t const ic = 1 + vr_u64(r, vr_chance(r, 1, 4) ? 16 : fs + 1), oc = 1 + vr_u64(r, vr_chance(r, 1, 4) ? 16 : cap + 1);
    if (fs > 200000 && (ic < 64 || oc < 64)) { /* keep call counts sane */ }
    while (1) {
        if (in.pos == in.size) in.size = V_MIN(fs, in.size + (fs > 200000 ? ic + 64 : ic));
        ob.size = stable ? cap : V_MIN(cap, ob.pos + (fs > 200000 ? oc + 64 : oc));
        size_t const ib = in.pos, obp = ob.pos;
        ret = ZSTD_decompressStream(d, &ob, &in);
        if (ZSTD_isError(ret)) break;
        if (ret == 0 && in.pos == fs) break;
        if (in.pos == ib && ob.pos == obp && in.size == fs) { if (++guard > 50) { ret = (size_t)-ZSTD_error_srcSize_wrong; break; } } else guard = 0;
    }
    *produced = ob.pos; return ret;
}
static void run_paths(const char* dir)
{
    size_t nf; char** files = list_dir(dir, "f", &nf); char path[700];
    for (size_t i = 0; i < nf; i++) {
        if ((long)i < V.from || (long)i >= V.to) continue;
        v_case((long)i); v_budget(300);
        snprintf(path, sizeof path, "%s/%s", dir, files[i]); size_t fs; uint8_t* fraw = slurp(path, &fs); if (!fraw) continue;
        snprintf(path, sizeof path, "%s/%s.dict", dir, files[i]); size_t dl; uint8_t* dict = slurp(path, &dl);
        gbuf F = gb_alloc(fs, 0); memcpy(F.p, fraw, fs); free(fraw);
        unsigned long long const bound = ZSTD_decompressBound(F.p, fs); size_t const cap = (bound == ZSTD_CONTENTSIZE_ERROR || bound > (64u << 20)) ? (8u << 20) : (size_t)bound + 16;
        uint8_t* out = (uint8_t*)malloc(cap + 1); vrng r = vr_make(12345, 4, (uint64_t)i);          /* segmentations are a function of the frame id only: same in every variant */
        const char* id = files[i];
        ZSTD_DCtx* d = ZSTD_createDCtx(); ZSTD_DDict* dd = dict ? ZSTD_createDDict(dict, dl) : NULL;
        #define PREP() do { ZSTD_DCtx_reset(d, ZSTD_reset_session_and_parameters); ZSTD_DCtx_setParameter(d, ZSTD_d_windowLogMax, 31); if (dict) ZSTD_DCtx_loadDictionary(d, dict, dl); } while (0)
        {   PREP(); size_t const ret = ZSTD_decompressDCtx(d, out, cap, F.p, fs); emit(id, "oneshot", ret, out, ret); }
        {   /* destination of exactly the content size (single frame announcing it): the last sequences execute against the very end of the buffer */
            unsigned long long const fcs = ZSTD_getFrameContentSize(F.p, fs); size_t const one = ZSTD_findFrameCompressedSize(F.p, fs);
            if (fcs != ZSTD_CONTENTSIZE_UNKNOWN && fcs != ZSTD_CONTENTSIZE_ERROR && fcs < (64u << 20) && !ZSTD_isError(one) && one == fs) {
                gbuf X = gb_alloc((size_t)fcs, 0);
                {   PREP(); size_t const ret = ZSTD_decompressDCtx(d, X.p, X.size, F.p, fs); emit(id, "oneshot-exact", ret, X.p, ret); }
                {   PREP(); ZSTD_DCtx_setParameter(d, ZSTD_d_stableOutBuffer, 1); size_t prod = 0; size_t const ret = stream_path(d, F.p, fs, X.p, X.size, &r, 1, &prod); emit(id, "stableout-exact", ret, X.p, prod); }
                if (dd) { ZSTD_DCtx_reset(d, ZSTD_reset_session_and_parameters); ZSTD_DCtx_setParameter(d, ZSTD_d_windowLogMax, 31); size_t const ret = ZSTD_decompress_usingDDict(d, X.p, X.size, F.p, fs, dd); emit(id, "ddict-exact", ret, X.p, ret); }
                if (!gb_ok(&X)) printf("D\t%s\texact-canary\tERR\t0\t0\n", id);
                gb_free(&X); } }
        for (int k = 0; k < 2; k++) { PREP(); size_t prod = 0; size_t const ret = stream_path(d, F.p, fs, out, cap, &r, 0, &prod); char pn[16]; snprintf(pn, sizeof pn, "stream%d", k); emit(id, pn, ret, out, prod); }
        {   PREP(); ZSTD_DCtx_setParameter(d, ZSTD_d_stableOutBuffer, 1); size_t prod = 0; size_t const ret = stream_path(d, F.p, fs, out, cap, &r, 1, &prod); emit(id, "stableout", ret, out, prod); }
        {   /* streaming on a context whose internal buffers were sized by ANOTHER frame (the next file of the corpus: other window, other block sizes) */
            size_t gs = 0, gdl = 0; snprintf(path, sizeof path, "%s/%s", dir, files[(i + 1) % nf]); uint8_t* g = slurp(path, &gs); snprintf(path, sizeof path, "%s/%s.dict", dir, files[(i + 1) % nf]); uint8_t* gdict = slurp(path, &gdl);
            if (g) { ZSTD_DCtx_reset(d, ZSTD_reset_session_and_parameters); ZSTD_DCtx_setParameter(d, ZSTD_d_windowLogMax, 31); if (gdict) ZSTD_DCtx_loadDictionary(d, gdict, gdl);
                unsigned long long const gb = ZSTD_decompressBound(g, gs); size_t const gcap = (gb == ZSTD_CONTENTSIZE_ERROR || gb > (64u << 20)) ? (8u << 20) : (size_t)gb + 16; uint8_t* gout = (uint8_t*)malloc(gcap + 1); size_t gp = 0; (void)stream_path(d, g, gs, gout, gcap, &r, 0, &gp); free(gout); }
            PREP(); size_t prod = 0; size_t const ret = stream_path(d, F.p, fs, out, cap, &r, 0, &prod); emit(id, "stream-after-other-frame", ret, out, prod); free(g); free(gdict); }
        {   PREP(); ZSTD_DCtx_setParameter(d, ZSTD_d_disableHuffmanAssembly, 1); size_t const ret = ZSTD_decompressDCtx(d, out, cap, F.p, fs); emit(id, "noasm-param", ret, out, ret); }
        {   /* buffer-less */ ZSTD_DCtx_reset(d, ZSTD_reset_session_and_parameters); if (dict) ZSTD_decompressBegin_usingDict(d, dict, dl); else ZSTD_decompressBegin(d); size_t ip = 0, op = 0; size_t ret = 0; long guard = 0;
            for (;;) { size_t const need = ZSTD_nextSrcSizeToDecompress(d); if (need == 0) break; if (need > fs - ip) { ret = (size_t)-ZSTD_error_srcSize_wrong; break; } ret = ZSTD_decompressContinue(d, out + op, cap - op, F.p + ip, need); if (ZSTD_isError(ret)) break; ip += need; op += ret; if (++guard > 5000000) { ret = (size_t)-ZSTD_error_GENERIC; break; } }
            if (!ZSTD_isError(ret) && ip != fs) { /* multi-frame input: continue is single-frame; report as separate status */ printf("D\t%s\tcontinue\tPARTIAL\t%zu\t0\n", id, ip); } else emit(id, "continue", ZSTD_isError(ret) ? ret : 0, out, op); }
        {   /* in place, with the advertised margin */ size_t const margin = ZSTD_decompressionMargin(F.p, fs);
            if (!ZSTD_isError(margin) && bound != ZSTD_CONTENTSIZE_ERROR && bound < (64u << 20)) { size_t const bs = (size_t)bound + margin; uint8_t* buf = (uint8_t*)malloc(bs + 1); if (bs >= fs) { uint8_t* ipos = buf + bs - fs; memcpy(ipos, F.p, fs); PREP(); size_t const ret = ZSTD_decompressDCtx(d, buf, bs, ipos, fs); emit(id, "inplace", ret, buf, ret); } free(buf); } }
        if (dd) { ZSTD_DCtx_reset(d, ZSTD_reset_session_and_parameters); ZSTD_DCtx_setParameter(d, ZSTD_d_windowLogMax, 31); size_t ret = ZSTD_decompress_usingDDict(d, out, cap, F.p, fs, dd); emit(id, "ddict-cold", ret, out, ret); ret = ZSTD_decompress_usingDDict(d, out, cap, F.p, fs, dd); emit(id, "ddict-warm", ret, out, ret);
            ZSTD_DCtx_reset(d, ZSTD_reset_session_and_parameters); ZSTD_DCtx_setParameter(d, ZSTD_d_windowLogMax, 31); ZSTD_DCtx_refDDict(d, dd); size_t prod = 0; ret = stream_path(d, F.p, fs, out, cap, &r, 0, &prod); emit(id, "ddict-stream", ret, out, prod); }
        ZSTD_freeDDict(dd); ZSTD_freeDCtx(d); free(out); free(dict); gb_free(&F);
        v_stat("frames", 1);
    }
}
/* -------------------------------------------------------------- reference */
static void run_ref(const char* dir)
{
    size_t nf; char** files = list_dir(dir, "f", &nf); char path[700];
    for (size_t i = 0; i < nf; i++) {
        if ((long)i < V.from || (long)i >= V.to) continue;
        snprintf(path, sizeof path, "%s/%s", dir, files[i]); size_t fs; uint8_t* f = slurp(path, &fs); if (!f) continue;
        snprintf(path, sizeof path, "%s/%s.dict", dir, files[i]); size_t dl; uint8_t* dict = slurp(path, &dl);
        int const mutated = strstr(files[i], ".mut") != NULL;
        size_t const cap = 72u << 20;
        if (mutated) { refdec_forked_t R; refdec_decode_forked(cap, f, fs, dict, dl, 0, 0, &R); printf("R\t%s\t%s\t%zu\t%016llx\tmut\n", files[i], R.ok ? "OK" : "REJ", R.out_size, (unsigned long long)R.out_hash); }
        else {
            static uint8_t* out; if (!out) out = (uint8_t*)malloc(cap);
            refdec_info_t I; memset(&I, 0, sizeof I); I.keep_blocks = 1; refdec_dict_t* rd = dict ? refdec_dict_create(dict, dl, 0) : NULL;
            int ok = refdec_decode(out, cap, f, fs, rd, &I, 0);
            if (ok) { snprintf(path, sizeof path, "%s/%s.src", dir, files[i]); size_t sn; uint8_t* s = slurp(path, &sn); if (s && (sn != I.out_size || memcmp(s, out, sn))) { ok = 0; printf("RSRC\t%s\tR-output-differs-from-generator-original\n", files[i]); } free(s); }
            printf("R\t%s\t%s\t%zu\t%016llx\tbase\n", files[i], ok ? "OK" : "REJ", I.out_size, (unsigned long long)v_xxh64(out, I.out_size, 0));
            if (ok) { int four = 0, seqs = 0, split = 0, treeless = 0, longoff = 0; for (size_t b = 0; b < I.nb_blocks; b++) { refdec_block_t* B = &I.blocks[b]; if (B->type != 2) continue; if (B->lit_streams == 4 && B->lit_type >= 2) four = 1; if (B->nb_seq) { seqs = 1; v_cell("seq_modes", "%02x", B->seq_modes); } if (B->lit_type == 3) treeless = 1; if (B->lit_rsize > (64u << 10)) split = 1; if (B->max_offset > (1u << 24)) longoff = 1; }
                v_stat("frames_valid", 1); v_stat("feat_4stream_huffman", four); v_stat("feat_sequences", seqs); v_stat("feat_literals_over_64K(split buffer)", split); v_stat("feat_treeless", treeless); v_stat("feat_offset_over_16M", longoff); if (dict) v_stat("feat_dictionary", 1); if (I.nb_frames && I.frames[0].dict_refs) v_stat("feat_dict_referenced", 1); }
            refdec_info_free(&I); refdec_dict_free(rd);
        }
        free(f); free(dict);
    }
}

int main(int argc, char** argv)
{
    v_init(argc, argv); vp_trace_on = 0;
    const char* mode = v_opt("mode", "run"); const char* dir = v_opt("dir", NULL);
    if (!dir) { fprintf(stderr, "dir= required\n"); return 2; }
    if (!strcmp(mode, "gen")) gen(dir); else if (!strcmp(mode, "ref")) run_ref(dir); else run_paths(dir);
    return v_finish();
}
