/* refdec.c - wrapper around the vendored educational decoder (refdec_core.c): errors become longjmp,
 * allocations are tracked so that a failed decode leaks nothing, events are recorded, multi-frame /
 * skippable / magicless walks, checksum verification with an independent XXH64, fork wrapper.
 * Compile WITHOUT sanitizers (it is the oracle, not the subject). */
#define _GNU_SOURCE
#include <setjmp.h>
#include <stdlib.h>
#include <string.h>
#include <stdio.h>
#include <unistd.h>
#include <fcntl.h>
#include <sys/mman.h>
#include <sys/wait.h>
#include "refdec.h"

/* ---------- XXH64 from the specification (github.com/Cyan4973/xxHash/blob/dev/doc/xxhash_spec.md) ---------- */
#define XP1 0x9E3779B185EBCA87ULL
#define XP2 0xC2B2AE3D27D4EB4FULL
#define XP3 0x165667B19E3779F9ULL
#define XP4 0x85EBCA77C2B2AE63ULL
#define XP5 0x27D4EB2F165667C5ULL
static uint64_t x_rotl(uint64_t v, int r) { return (v << r) | (v >> (64 - r)); }
static uint64_t x_rd64(const uint8_t* p) { uint64_t v = 0; for (int i = 7; i >= 0; i--) v = (v << 8) | p[i]; return v; }
static uint32_t x_rd32(const uint8_t* p) { return (uint32_t)p[0] | ((uint32_t)p[1] << 8) | ((uint32_t)p[2] << 16) | ((uint32_t)p[3] << 24); }
static uint64_t x_round(uint64_t acc, uint64_t lane) { acc += lane * XP2; acc = x_rotl(acc, 31); return acc * XP1; }
static uint64_t x_merge(uint64_t acc, uint64_t v) { acc ^= x_round(0, v); return acc * XP1 + XP4; }
uint64_t v_xxh64(const void* data, size_t len, uint64_t seed)
{
    const uint8_t* p = (const uint8_t*)data; const uint8_t* const end = p + len; uint64_t acc;
    if (len >= 32) {
        uint64_t a1 = seed + XP1 + XP2, a2 = seed + XP2, a3 = seed, a4 = seed - XP1;
        const uint8_t* const lim = end - 32;
        do { a1 = x_round(a1, x_rd64(p)); a2 = x_round(a2, x_rd64(p + 8)); a3 = x_round(a3, x_rd64(p + 16)); a4 = x_round(a4, x_rd64(p + 24)); p += 32; } while (p <= lim);
        acc = x_rotl(a1, 1) + x_rotl(a2, 7) + x_rotl(a3, 12) + x_rotl(a4, 18);
        acc = x_merge(acc, a1); acc = x_merge(acc, a2); acc = x_merge(acc, a3); acc = x_merge(acc, a4);
    } else acc = seed + XP5;
    acc += (uint64_t)len;
    while (p + 8 <= end) { acc ^= x_round(0, x_rd64(p)); acc = x_rotl(acc, 27) * XP1 + XP4; p += 8; }
    if (p + 4 <= end) { acc ^= (uint64_t)x_rd32(p) * XP1; acc = x_rotl(acc, 23) * XP2 + XP3; p += 4; }
    while (p < end) { acc ^= (uint64_t)(*p) * XP5; acc = x_rotl(acc, 11) * XP1; p++; }
    acc ^= acc >> 33; acc *= XP2; acc ^= acc >> 29; acc *= XP3; acc ^= acc >> 32;
    return acc;
}

/* ---------- failure + tracked allocation ---------- */
static jmp_buf r_jmp; static const char* r_msg;
static void r_fail(const char* s) __attribute__((noreturn));
static void r_fail(const char* s) { r_msg = s; longjmp(r_jmp, 1); }

typedef struct r_hdr { struct r_hdr *prev, *next; long scope; long pad; } r_hdr;
static r_hdr r_head = { &r_head, &r_head, 0, 0 };
static long r_scope = 1;
static void* r_malloc(size_t n)
{
    r_hdr* h = (r_hdr*)malloc(sizeof(r_hdr) + (n ? n : 1));
    if (!h) return NULL;
    h->scope = r_scope; h->next = r_head.next; h->prev = &r_head; r_head.next->prev = h; r_head.next = h;
    return h + 1;
}
static void* r_calloc(size_t a, size_t b) { void* p = r_malloc(a * b); if (p) memset(p, 0, a * b); return p; }
static void r_free(void* p)
{
    if (!p) return;
    r_hdr* h = (r_hdr*)p - 1; h->prev->next = h->next; h->next->prev = h->prev; free(h);
}
static void r_free_scope(long scope)
{
    r_hdr* h = r_head.next;
    while (h != &r_head) { r_hdr* n = h->next; if (h->scope == scope) { h->prev->next = h->next; h->next->prev = h->prev; free(h); } h = n; }
}
static void r_keep_scope(long scope) { for (r_hdr* h = r_head.next; h != &r_head; h = h->next) if (h->scope == scope) h->scope = 0; }

/* ---------- event recording ---------- */
static refdec_info_t* r_info; static refdec_frame_t* r_frame; static refdec_block_t r_blk; static const uint8_t* r_base; static uint8_t* r_obase;
static const uint8_t* r_blk_in0; static uint8_t* r_blk_out0;
static size_t r_cap_frames, r_cap_blocks;

static void r_push_block(void)
{
    refdec_info_t* I = r_info;
    if (r_frame) r_frame->nb_blocks++;
    if (!I->keep_blocks) { I->nb_blocks++; return; }
    if (I->nb_blocks == r_cap_blocks) { r_cap_blocks = r_cap_blocks ? r_cap_blocks * 2 : 64; I->blocks = (refdec_block_t*)realloc(I->blocks, r_cap_blocks * sizeof(refdec_block_t)); if (!I->blocks) abort(); }
    I->blocks[I->nb_blocks++] = r_blk;
}
#define R_HOOKS 1
#define R_EV_HEADER(h, d) do { if (r_frame) { r_frame->descriptor = (d); r_frame->single_segment = ((d) >> 5) & 1; r_frame->has_checksum = ((d) >> 2) & 1; \
        { static const int db[4] = {0,1,2,4}; r_frame->dictid_bytes = db[(d) & 3]; } \
        r_frame->has_fcs = (((d) >> 6) != 0) || r_frame->single_segment; { static const int fb[4] = {1,2,4,8}; r_frame->fcs_bytes = r_frame->has_fcs ? fb[(d) >> 6] : 0; } \
        r_frame->fcs = (h)->frame_content_size; r_frame->dict_id = (h)->dictionary_id; \
        r_frame->window_size = r_frame->single_segment ? (h)->frame_content_size : (h)->window_size; } } while (0)
#define R_EV_BLOCK_POS(in, out) do { r_blk_in0 = (in)->ptr; r_blk_out0 = (out)->ptr; if (r_frame && r_frame->nb_blocks == 0) r_frame->header_size = (size_t)((in)->ptr - r_base) - r_frame->src_off; } while (0)
#define R_EV_BLOCK_BEGIN(t, l, last_) do { memset(&r_blk, 0, sizeof(r_blk)); r_blk.src_off = (size_t)(r_blk_in0 - r_base); r_blk.type = (t); r_blk.field_size = (uint32_t)(l); r_blk.last = (last_); r_blk.seq_modes = -1; } while (0)
#define R_EV_BLOCK_END(in, out) do { r_blk.csize = (size_t)((in)->ptr - r_blk_in0) - 3; r_blk.rsize = (size_t)((out)->ptr - r_blk_out0); r_push_block(); } while (0)
#define R_EV_CHECKSUM(v) do { if (r_frame) r_frame->stored_checksum = (v); } while (0)
#define R_EV_LITERALS(t, sf, rs, cs, ns) do { r_blk.lit_type = (t); r_blk.lit_rsize = (rs); r_blk.lit_csize = (cs); r_blk.lit_streams = (ns); (void)(sf); } while (0)
#define R_EV_HUFDESC(n) do { r_blk.huf_desc_size = (n); } while (0)
#define R_EV_NBSEQ(n) do { r_blk.nb_seq = (n); } while (0)
#define R_EV_SEQMODES(m) do { r_blk.seq_modes = (m); } while (0)
#define R_EV_SEQTABLES(tb, bs) do { r_blk.seq_tables_size = (tb); r_blk.seq_bitstream_size = (bs); } while (0)
#define R_EV_SEQ(ll, ml, ov, off, pos) do { \
        if ((off) > r_blk.max_offset) r_blk.max_offset = (off); \
        if ((ll) > 65535 || (ml) > 65535) r_blk.nb_long_len++; \
        if (r_frame) { r_frame->nb_seq++; if ((off) > r_frame->max_offset) r_frame->max_offset = (off); \
            if ((off) > (pos)) r_frame->dict_refs++; \
            if ((off) > r_frame->window_size && (off) - r_frame->window_size > r_frame->max_offset_beyond_window) r_frame->max_offset_beyond_window = (off) - r_frame->window_size; } \
        if (r_info->seq_cb) r_info->seq_cb(r_info->seq_opaque, (ll), (ml), (ov), (off), (pos)); } while (0)

#define malloc r_malloc
#define calloc r_calloc
#define free r_free
#define ZSTD_decompress refdec_core_decompress
#define ZSTD_decompress_with_dict refdec_core_decompress_with_dict
#define ZSTD_get_decompressed_size refdec_core_get_decompressed_size
#define create_dictionary refdec_core_create_dictionary
#define parse_dictionary refdec_core_parse_dictionary
#define free_dictionary refdec_core_free_dictionary
#define ZDEC_NO_MESSAGE 1
#include "refdec_core.c"
#undef malloc
#undef calloc
#undef free

struct refdec_dict_s { dictionary_t* d; };

refdec_dict_t* refdec_dict_create(const void* src, size_t len, int mode)
{
    refdec_dict_t* volatile const rd = (refdec_dict_t*)calloc(1, sizeof(refdec_dict_t));
    long const scope = ++r_scope;
    if (!rd) abort();
    if (setjmp(r_jmp)) { r_free_scope(scope); free(rd); return NULL; }
    rd->d = refdec_core_create_dictionary();
    {   int formatted = (len >= 8) && x_rd32((const uint8_t*)src) == 0xEC30A437U;
        if (mode == 1) formatted = 0;
        if (mode == 2 && !formatted) r_fail("not a formatted dictionary");
        if (formatted) {
            refdec_core_parse_dictionary(rd->d, src, len);
        } else {   /* raw content of any length (the core refuses < 8 bytes) */
            memset(rd->d, 0, sizeof(dictionary_t));
            rd->d->content_size = len;
            rd->d->content = (u8*)r_malloc(len);
            if (!rd->d->content) r_fail("alloc");
            if (len) memcpy(rd->d->content, src, len);
        }
    }
    r_keep_scope(scope);
    return rd;
}
void refdec_dict_free(refdec_dict_t* rd) { if (!rd) return; if (rd->d) refdec_core_free_dictionary(rd->d); free(rd); }
uint32_t refdec_dict_id(const refdec_dict_t* rd) { return rd && rd->d ? rd->d->dictionary_id : 0; }

void refdec_info_free(refdec_info_t* info) { free(info->frames); free(info->blocks); info->frames = NULL; info->blocks = NULL; info->nb_frames = info->nb_blocks = 0; }

static refdec_frame_t* r_new_frame(void)
{
    refdec_info_t* I = r_info;
    if (I->nb_frames == r_cap_frames) { r_cap_frames = r_cap_frames ? r_cap_frames * 2 : 8; I->frames = (refdec_frame_t*)realloc(I->frames, r_cap_frames * sizeof(refdec_frame_t)); if (!I->frames) abort(); }
    refdec_frame_t* f = &I->frames[I->nb_frames++]; memset(f, 0, sizeof(*f)); f->checksum_ok = -1; return f;
}

int refdec_decode(void* dst, size_t cap, const void* src, size_t len, const refdec_dict_t* dict, refdec_info_t* info, size_t max_frames)
{
    long const scope = ++r_scope;
    static istream_t in; static ostream_t out;   /* static: live across longjmp */
    in = IO_make_istream((const u8*)src, len);
    out = IO_make_ostream((u8*)dst, cap);
    info->ok = 0; info->err = NULL; info->out_size = 0; info->consumed = 0; info->nb_frames = 0; info->frames = NULL; info->nb_blocks = 0; info->blocks = NULL; info->err_src_off = 0;
    r_info = info; r_base = (const u8*)src; r_obase = (u8*)dst; r_cap_frames = r_cap_blocks = 0; r_frame = NULL;
    if (setjmp(r_jmp)) {
        r_free_scope(scope); info->ok = 0; info->err = r_msg; info->err_src_off = (size_t)(in.ptr - r_base);
        info->out_size = (size_t)(out.ptr - r_obase); r_frame = NULL;
        return 0;
    }
    while (IO_istream_len(&in) > 0 && (max_frames == 0 || info->nb_frames < max_frames)) {
        refdec_frame_t* f = r_new_frame();
        f->src_off = (size_t)(in.ptr - r_base); f->out_off = (size_t)(out.ptr - r_obase); f->first_block = info->nb_blocks;
        r_frame = NULL;
        if (!info->magicless) {
            if (IO_istream_len(&in) < 4) r_fail("truncated magic");
            u32 const magic = (u32)IO_read_bits(&in, 32);
            if ((magic & 0xFFFFFFF0U) == 0x184D2A50U) {
                if (IO_istream_len(&in) < 4) r_fail("truncated skippable header");
                size_t const sz = (size_t)IO_read_bits(&in, 32);
                IO_advance_input(&in, sz);
                f->skippable = 1; f->src_end = (size_t)(in.ptr - r_base); f->header_size = 8;
                continue;
            }
            if (magic != ZSTD_MAGIC_NUMBER) r_fail("bad magic");
        }
        r_frame = f;
        decode_data_frame(&out, &in, dict ? dict->d : NULL);
        r_frame = NULL;
        f = &info->frames[info->nb_frames - 1];
        f->src_end = (size_t)(in.ptr - r_base);
        f->out_size = (size_t)(out.ptr - r_obase) - f->out_off;
        if (f->has_fcs && f->fcs != f->out_size) r_fail("content size field does not match regenerated size");
        if (f->has_checksum) {
            uint32_t const c = (uint32_t)v_xxh64(r_obase + f->out_off, f->out_size, 0);
            f->checksum_ok = (c == f->stored_checksum);
            if (!f->checksum_ok) r_fail("checksum mismatch");
        }
    }
    info->ok = 1; info->out_size = (size_t)(out.ptr - r_obase); info->consumed = (size_t)(in.ptr - r_base);
    return 1;
}

void refdec_decode_forked(size_t cap, const void* src, size_t len, const void* dict, size_t dictLen, int dictMode, int magicless, refdec_forked_t* res)
{
    refdec_forked_t* shared = (refdec_forked_t*)mmap(NULL, 4096, PROT_READ | PROT_WRITE, MAP_SHARED | MAP_ANONYMOUS, -1, 0);
    memset(res, 0, sizeof(*res));
    if (shared == MAP_FAILED) { res->crashed = 1; return; }
    memset(shared, 0, sizeof(*shared));
    fflush(NULL);
    pid_t const pid = fork();
    if (pid == 0) {
        int const dn = open("/dev/null", 1); if (dn >= 0) { dup2(dn, 2); }
        alarm(20);
        void* dst = malloc(cap ? cap : 1);
        refdec_dict_t* rd = NULL;
        if (dict) { rd = refdec_dict_create(dict, dictLen, dictMode); if (!rd) _exit(0); }
        refdec_info_t info; memset(&info, 0, sizeof(info)); info.magicless = magicless;
        if (dst && refdec_decode(dst, cap, src, len, rd, &info, 0)) {
            size_t ns = 0; for (size_t i = 0; i < info.nb_frames; i++) ns += info.frames[i].nb_seq;
            shared->out_size = info.out_size; shared->consumed = info.consumed; shared->out_hash = v_xxh64(dst, info.out_size, 0);
            shared->nb_frames = info.nb_frames; shared->nb_blocks = info.nb_blocks; shared->nb_seq = ns;
            __sync_synchronize(); shared->ok = 1;
        }
        _exit(0);
    }
    if (pid < 0) { res->crashed = 1; munmap(shared, 4096); return; }
    int st = 0; while (waitpid(pid, &st, 0) < 0) {}
    *res = *shared;
    if (!WIFEXITED(st) || WEXITSTATUS(st) != 0) { res->crashed = 1; res->ok = 0; }
    munmap(shared, 4096);
}
