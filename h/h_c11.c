/* h_c11.c - C11: multithreaded compression is correct, race-free and live under every schedule.
 * deterministic build (plain + vsched.c): every case = (workload, schedule seed) under the serialising scheduler: no-runnable-thread
 *   states are deadlocks, step bound = livelock, output verified by R + library decoder, and compared byte for byte with the output
 *   of the same workload under a reference schedule.
 * stress build (tsan, -DSCHED_STRESS): same workloads with real threads and seeded delays; TSan reports are violations. */
#include "vhist.h"
#include "refdec.h"
#include "vsched.h"

static size_t g_maxSize; static int g_ringOnly; static size_t g_ringSize = 14u << 20;
typedef struct { vparams P; hscript S; size_t n; int fam; int dictMode; size_t dictLen; int midReset; int sharedPool; int paramChange; int chgLevel; size_t farRepeat; int poll; int ring; char desc[700]; } mtw;

static void gen_workload(vrng* r, mtw* W)
{
    memset(W, 0, sizeof *W);
    vparams* P = &W->P; P->contentSize = 1;
    if (vr_chance(r, 1, 8) || g_ringOnly) {
        /* stratum "input ring laps": long-distance matching + >= 3 workers + smallest jobs + a small window, and an input several times the size of the
         * round input buffer (window + a few jobs), so that the caller re-uses ring space while older jobs (and the serial LDM pass) still read it;
         * data: recurring markers with differing tails, so that LDM candidates exist one lap apart */
        W->ring = 1; P->level = (int)vr_range(r, 1, 3); vp_add(P, ZSTD_c_compressionLevel, P->level);
        P->nbWorkers = (int)vr_range(r, 3, 4); vp_add(P, ZSTD_c_nbWorkers, P->nbWorkers); vp_add(P, ZSTD_c_jobSize, 1);
        P->ldm = 1; vp_add(P, ZSTD_c_enableLongDistanceMatching, 1); P->windowLog = (int)vr_range(r, 21, 22); vp_add(P, ZSTD_c_windowLog, P->windowLog);     /* window >= nbWorkers x jobSize */
        if (vr_chance(r, 1, 2)) vp_add(P, ZSTD_c_ldmHashRateLog, (int)vr_range(r, 0, 6)); if (vr_chance(r, 1, 2)) vp_add(P, ZSTD_c_overlapLog, (int)vr_range(r, 0, 9));
        P->checksum = 1; vp_add(P, ZSTD_c_checksumFlag, 1); vp_redesc(P);
        W->fam = DF_RANDOM; W->n = g_ringSize - vr_u(r, 100000);
        h_gen_script(r, W->n, &W->S, 0);
        /* bursty caller: big input slices (several jobs per call) and roomy output */
        { size_t pos = 0; W->S.nseg = 0; while (pos < W->n && W->S.nseg < H_MAXSEG - 1) { size_t l = (size_t)vr_range(r, 1 << 20, 3 << 20); if (l > W->n - pos) l = W->n - pos; pos += l; W->S.seg[W->S.nseg].len = l; W->S.seg[W->S.nseg].dir = pos == W->n ? ZSTD_e_end : vr_chance(r, 1, 3) ? ZSTD_e_flush : ZSTD_e_continue; W->S.nseg++; } }
        W->S.nOut = 1; W->S.outPat[0] = (size_t)1 << 22; W->S.api = 0; snprintf(W->S.desc, sizeof W->S.desc, "nseg=%d bursty(1-3 MiB slices) out=4MiB", W->S.nseg);
        W->poll = vr_chance(r, 1, 3);
        snprintf(W->desc, sizeof W->desc, "RING n=%zu params=[%s] script{%s} poll=%d", W->n, P->desc, W->S.desc, W->poll);
        return;
    }
    /* stratum "level raised in mid-frame on far repeats" (1 workload in 10): base level with a 512 KiB window in the level table, no explicit window */
    int const far = vr_chance(r, 1, 10);
    int const level = far ? (int)vr_range(r, -3, 1) : vr_chance(r, 1, 6) ? (int)vr_range(r, 4, 9) : (int)vr_range(r, -3, 3); P->level = level; vp_add(P, ZSTD_c_compressionLevel, level);
    P->nbWorkers = (int)vr_range(r, 1, vr_chance(r, 1, 4) ? 6 : 3); vp_add(P, ZSTD_c_nbWorkers, P->nbWorkers);
    {   int const js = (int)vr_u(r, 4); if (js == 0) vp_add(P, ZSTD_c_jobSize, 1); else if (js == 1) vp_add(P, ZSTD_c_jobSize, (int)vr_range(r, 1 << 20, 3 << 20)); else if (js == 2) vp_add(P, ZSTD_c_jobSize, 1500000); }   /* jobs longer than four blocks exercise intra-job progress reporting */
    if (vr_chance(r, 2, 3)) vp_add(P, ZSTD_c_overlapLog, (int)vr_range(r, 0, 9));
    if (vr_chance(r, 1, 3)) vp_add(P, ZSTD_c_rsyncable, 1);
    if (far) { /* window left to the level table */ }
    else if (vr_chance(r, 1, 3)) { P->ldm = 1; vp_add(P, ZSTD_c_enableLongDistanceMatching, 1); if (vr_chance(r, 1, 2)) vp_add(P, ZSTD_c_windowLog, (int)vr_range(r, 18, 22)); }
    else if (vr_chance(r, 1, 3)) { P->windowLog = (int)vr_range(r, 12, 20); vp_add(P, ZSTD_c_windowLog, P->windowLog); }
    P->checksum = (int)vr_u(r, 2); vp_add(P, ZSTD_c_checksumFlag, P->checksum);
    if (!far && vr_chance(r, 1, 4)) vp_add(P, ZSTD_c_strategy, (int)vr_range(r, 1, 5));
    {   int o = 0; for (int i = 0; i < P->n && o < (int)sizeof(P->desc) - 16; i++) o += snprintf(P->desc + o, sizeof(P->desc) - (size_t)o, "%s%d=%d", i ? "," : "", (int)P->p[i], P->v[i]); }
    W->fam = (int)vr_u(r, DF_NB); if (W->fam == DF_RANDOM && vr_chance(r, 1, 2)) W->fam = DF_TEXT;
    /* sized for 2..12 jobs, and for round-buffer wrap */
    W->n = (size_t)(600000 + vr_u64(r, g_maxSize - 600000));
    h_gen_script(r, W->n, &W->S, 0);
    for (int i = 0; i < W->S.nOut; i++) if (W->S.outPat[i] < 1024) W->S.outPat[i] = vr_chance(r, 1, 2) ? 1024 + vr_u(r, 4096) : 1 + vr_u(r, 64) + 700;    /* small outputs: the caller blocks in flushProduced */
    W->dictMode = vr_chance(r, 1, 4) ? 1 + (int)vr_u(r, 2) : 0; W->dictLen = W->dictMode ? 1 + vr_u(r, 60000) : 0;
    W->midReset = vr_chance(r, 1, 5); W->sharedPool = vr_chance(r, 1, 6); W->paramChange = vr_chance(r, 1, 5); W->poll = vr_chance(r, 1, 3);
    W->chgLevel = level + 1;
    /* half of the mid-frame changes raise the level by a lot (bigger window in the level table) on data whose only repeats lie at a distance the header's window
     * (written by the first job) does not reach: later jobs must keep to the announced window */
    if (far) { W->paramChange = 1; W->chgLevel = (int)vr_range(r, 11, 15); if (W->n < 1100000) { W->n = 1100000 + vr_u(r, 400000); h_gen_script(r, W->n, &W->S, 0); for (int i = 0; i < W->S.nOut; i++) if (W->S.outPat[i] < 1024) W->S.outPat[i] += 1024; }
        if (W->S.nseg < 2) { size_t const l0 = W->S.seg[0].len; W->S.seg[1] = W->S.seg[0]; W->S.seg[0].len = l0 / 4; W->S.seg[0].dir = ZSTD_e_continue; W->S.seg[1].len = l0 - l0 / 4; W->S.nseg = 2; }
        W->farRepeat = (512u << 10) + 1 + (size_t)vr_u64(r, V_MIN(W->n - (512u << 10) - 250000, (size_t)700000)); W->dictMode = 0; W->dictLen = 0; W->midReset = 0; }
    snprintf(W->desc, sizeof W->desc, "n=%zu fam=%s params=[%s] script{%s} dict=%d/%zu midReset=%d sharedPool=%d paramChange=%d(level->%d, repeats at %zu) poll=%d", W->n, v_df_name[W->fam], P->desc, W->S.desc, W->dictMode, W->dictLen, W->midReset, W->sharedPool, W->paramChange, W->chgLevel, W->farRepeat, W->poll);
}

static const char* g_desc = "";
static void on_stuck(const sched_result* r)
{
    char key[400]; snprintf(key, sizeof key, "%s:%s", r->deadlock ? "deadlock" : r->livelock ? "livelock" : "threads-alive-after-free", r->blocked);
    v_viol(key, "%s; steps=%llu; workload: %s", r->deadlock ? "no runnable thread while some are unfinished (legal schedule, replayable from the seed)" : r->livelock ? "logical step bound exceeded" : "worker threads still alive after ZSTD_freeCCtx", (unsigned long long)r->steps, g_desc);
    v_dump();
}

/* one execution of the workload; returns compressed size or error */
static size_t execute(const mtw* W, const uint8_t* x, const uint8_t* dict, uint8_t* dst, size_t cap, uint64_t schedSeed, int mode, int depth, sched_result* SR)
{
    /* spurious wake-ups are legal but each one can rescue a lost wake-up: only one schedule in three injects them */
    sched_begin(schedSeed, mode, depth, 3000, 3000000ULL, (schedSeed % 3 == 0) ? 10 : 0);   /* step bound: ~1000x the typical run */
    sched_set_op("ZSTD_createCCtx");
    ZSTD_CCtx* c = ZSTD_createCCtx(); ZSTD_threadPool* tp = NULL; size_t cs = 0;
    if (W->sharedPool) { tp = ZSTD_createThreadPool((size_t)W->P.nbWorkers); ZSTD_CCtx_refThreadPool(c, tp); }
    size_t e = vp_apply(c, &W->P);
    if (!ZSTD_isError(e) && W->dictMode == 1) e = ZSTD_CCtx_loadDictionary_advanced(c, dict, W->dictLen, ZSTD_dlm_byRef, ZSTD_dct_rawContent);
    if (!ZSTD_isError(e) && W->dictMode == 2) e = ZSTD_CCtx_refPrefix_advanced(c, dict, W->dictLen, ZSTD_dct_rawContent);
    if (ZSTD_isError(e)) cs = e;
    else {
        if (W->midReset) {   /* start a frame, leave jobs in flight, abort, reuse */
            sched_set_op("ZSTD_compressStream2(aborted frame)");
            ZSTD_inBuffer in = { x, V_MIN(W->n, (size_t)1700000), 0 }; ZSTD_outBuffer out = { dst, 2000, 0 };
            ZSTD_compressStream2(c, &out, &in, ZSTD_e_continue); if (W->midReset) { out.pos = 0; ZSTD_compressStream2(c, &out, &in, ZSTD_e_flush); }
            sched_set_op("ZSTD_CCtx_reset"); ZSTD_CCtx_reset(c, ZSTD_reset_session_only);
            if (W->dictMode == 2) ZSTD_CCtx_refPrefix_advanced(c, dict, W->dictLen, ZSTD_dct_rawContent);
        }
        /* script-driven streaming with optional polling and authorised mid-frame parameter changes */
        size_t inPos = 0, outPos = 0; int oi = 0; long calls = 0;
        for (int s = 0; s < W->S.nseg && !ZSTD_isError(cs); s++) {
            ZSTD_inBuffer in = { x + inPos, W->S.seg[s].len, 0 }; int const dir = W->S.seg[s].dir;
            if (W->paramChange && s == W->S.nseg / 2 && s > 0) { sched_set_op("ZSTD_CCtx_setParameter(mid-frame)"); ZSTD_CCtx_setParameter(c, ZSTD_c_compressionLevel, W->chgLevel); if (!W->farRepeat) ZSTD_CCtx_setParameter(c, ZSTD_c_searchLog, 2); }
            for (;;) {
                size_t const room = W->S.outPat[oi++ % W->S.nOut]; ZSTD_outBuffer out = { dst + outPos, V_MIN(room, cap - outPos), 0 };
                sched_set_op(dir == ZSTD_e_continue ? "ZSTD_compressStream2(continue)" : dir == ZSTD_e_flush ? "ZSTD_compressStream2(flush)" : "ZSTD_compressStream2(end)");
                size_t const ret = ZSTD_compressStream2(c, &out, &in, (ZSTD_EndDirective)dir);
                if (ZSTD_isError(ret)) { cs = ret; break; }
                outPos += out.pos;
                if (W->poll) { sched_set_op("ZSTD_getFrameProgression"); ZSTD_frameProgression const fp = ZSTD_getFrameProgression(c); (void)ZSTD_toFlushNow(c); if (fp.consumed > fp.ingested) { v_viol("progression:consumed-exceeds-ingested", "%s", g_desc); } }
                if (++calls > 3000000) { cs = (size_t)-ZSTD_error_GENERIC; v_viol("livelock:too-many-calls", "%s", g_desc); break; }
                if (dir == ZSTD_e_continue ? in.pos == in.size : (ret == 0 && in.pos == in.size)) break;
                if (outPos == cap) { cs = (size_t)-ZSTD_error_dstSize_tooSmall; break; }
            }
            inPos += W->S.seg[s].len;
        }
        if (!ZSTD_isError(cs)) cs = outPos;
    }
    sched_set_op("ZSTD_freeCCtx");
    ZSTD_freeCCtx(c); if (tp) { sched_set_op("ZSTD_freeThreadPool"); ZSTD_freeThreadPool(tp); }
    sched_end(SR);
    return cs;
}

static uint8_t *g_x, *g_dict, *g_ref, *g_var, *g_out; static size_t g_cap; static long g_refWorkload = -1; static size_t g_refSize;
static uint64_t g_seen[1 << 14]; static long g_distinct;
static void note_schedule(uint64_t h) { size_t i = (size_t)(h % (1 << 14)); for (int k = 0; k < 32; k++) { size_t s = (i + (size_t)k) % (1 << 14); if (g_seen[s] == h) return; if (!g_seen[s]) { g_seen[s] = h; g_distinct++; return; } } g_distinct++; }

static void verify(const mtw* W, const uint8_t* f, size_t fs, const char* what)
{
    ZSTD_DCtx* d = ZSTD_createDCtx(); ZSTD_DCtx_setParameter(d, ZSTD_d_windowLogMax, 30); if (W->dictMode) ZSTD_DCtx_loadDictionary_advanced(d, g_dict, W->dictLen, ZSTD_dlm_byRef, ZSTD_dct_rawContent);
    size_t const r = ZSTD_decompressDCtx(d, g_out, W->n, f, fs); ZSTD_freeDCtx(d);
    if (ZSTD_isError(r) || r != W->n || memcmp(g_out, g_x, W->n)) { v_viol("output:frame-does-not-decode-to-the-input(lib)", "%s %s: %s", what, W->desc, ZSTD_isError(r) ? ZSTD_getErrorName(r) : "mismatch"); return; }
    refdec_info_t I; memset(&I, 0, sizeof I); I.keep_blocks = 0; refdec_dict_t* rd = W->dictMode ? refdec_dict_create(g_dict, W->dictLen, 1) : NULL;
    if (!refdec_decode(g_out, W->n, f, fs, rd, &I, 0) || I.out_size != W->n || memcmp(g_out, g_x, W->n)) v_viol("output:frame-rejected-or-wrong-per-R", "%s %s: %s", what, W->desc, I.err ? I.err : "mismatch");
    else { if (I.frames[0].has_checksum) v_stat("frames_with_verified_checksum", 1); if (W->P.ldm && I.frames[0].max_offset > (1u << 17)) v_stat("frames_with_long_distance_matches", 1); v_stat("frames_verified", 1); }
    refdec_info_free(&I); refdec_dict_free(rd);
}

static void run_case(long idx, long nsched)
{
    long const wid = idx / nsched; vrng wr = vr_make(V.seed, 111, (uint64_t)wid);
    mtw W; gen_workload(&wr, &W); g_desc = W.desc;
    vrng dr = vr_make(V.seed, 311, (uint64_t)wid);
    if (W.ring) {   /* every 512 KiB section (= one job) holds the same 1 KiB markers at the same offsets, each followed by a 1 KiB tail that depends on
                     * (cell, section index mod nbWorkers): the section that refills a ring slot equals the section being parsed, and differs from the slot's old content */
        static uint8_t mk[256][1024]; static uint8_t tl[4][256][1024]; for (int i = 0; i < 256; i++) { vr_fill(&dr, mk[i], 1024); for (int q = 0; q < 4; q++) vr_fill(&dr, tl[q][i], 1024); }
        size_t const sec = 512u << 10; int const q = W.P.nbWorkers;
        for (size_t p = 0; p < W.n; p += 2048) { size_t const k = p / sec; size_t const cell = (p % sec) / 2048; size_t l = V_MIN((size_t)1024, W.n - p); memcpy(g_x + p, mk[cell], l); if (p + 1024 < W.n) { l = V_MIN((size_t)1024, W.n - p - 1024); memcpy(g_x + p + 1024, tl[k % (size_t)q][cell], l); } } }
    else if (W.farRepeat) { size_t const D = W.farRepeat; vr_fill(&dr, g_x, V_MIN(W.n, D)); for (size_t i = D; i < W.n; i++) g_x[i] = g_x[i - D]; for (size_t i = D; i < W.n; i += 1 + vr_u(&dr, 20000)) g_x[i] ^= 0x55; v_stat("far_repeat_level_raise_workloads", 1); }
    else gen_data(&dr, g_x, W.n, W.fam); if (W.dictLen) { gen_data(&dr, g_dict, W.dictLen, W.fam); memcpy(g_dict, g_x + W.n / 3, V_MIN(W.dictLen, W.n / 3)); if (g_dict[0] == 0x37 && g_dict[1] == 0xA4) g_dict[0] ^= 1; }
    sched_result SR;
    if (g_refWorkload != wid) {      /* reference schedule of this workload (first use in this process) */
        g_refSize = execute(&W, g_x, g_dict, g_ref, g_cap, 0xC0FFEEULL + (uint64_t)wid, SCHED_UNIFORM, 0, &SR); g_refWorkload = wid;
        if (!ZSTD_isError(g_refSize)) verify(&W, g_ref, g_refSize, "reference schedule");
        v_cell("workload", "%ld", wid); if (W.ring) v_stat("ring_lap_workloads", 1); v_cell("mtcfg", "w%d|ldm%d|rsync%d|dict%d|reset%d|pool%d|chg%d", W.P.nbWorkers, W.P.ldm, strstr(W.P.desc, "500=1") != NULL, W.dictMode, W.midReset, W.sharedPool, W.paramChange);
    }
    if (ZSTD_isError(g_refSize)) { if (ZSTD_getErrorCode(g_refSize) != ZSTD_error_memory_allocation) v_viol("compress:mt-compression-fails", "%s: %s", W.desc, ZSTD_getErrorName(g_refSize)); v_stat("schedules", 1); return; }
    vrng sr = vr_make(V.seed, 411, (uint64_t)idx);
    int const mode = vr_chance(&sr, 1, 3) ? SCHED_PCT : SCHED_UNIFORM; int const depth = 1 + (int)vr_u(&sr, 3);
    size_t const cs = execute(&W, g_x, g_dict, g_var, g_cap, vr_next(&sr), mode, depth, &SR);
    v_stat("schedules", 1); v_stat("sched_steps", (long)SR.steps); v_stat("cond_waits", (long)SR.cond_waits); v_stat("mutex_blocks", (long)SR.mutex_blocks); v_stat("preemptions", (long)SR.preemptions); v_stat("broadcasts_with_several_waiters", (long)SR.broadcasts_with_several_waiters); v_stat("signals_with_several_waiters", (long)SR.signals_with_several_waiters); if (SR.cond_waits) v_stat("schedules_where_a_thread_waited_on_a_condition", 1);
    note_schedule(SR.hash ^ vr_mix((uint64_t)wid));
    if (ZSTD_isError(cs)) { v_viol("compress:fails-under-another-schedule", "%s: %s", W.desc, ZSTD_getErrorName(cs)); return; }
    if (cs != g_refSize || memcmp(g_ref, g_var, cs)) {
#ifdef SCHED_STRESS
        /* real threads: the number of calls (hence flush points on e_end with pending input) may legitimately differ; validity is still required */
        verify(&W, g_var, cs, "stress schedule");
#else
        verify(&W, g_var, cs, "variant schedule");
        /* call sequence is identical under the serialising scheduler only if the library consumes / produces the same amounts per call;
         * with nbWorkers >= 1 that depends on worker progress, so a byte difference is judged only when the input-side call sequence is
         * schedule independent: every slice fully handed over per call (checked by construction: directives end/flush loop until done) */
        v_stat("outputs_differing_from_reference_schedule", 1);
        if (!getenv("VERIF_C11_ALLOW_DIFF")) v_viol("determinism:output-differs-between-schedules", "%s: reference %zu bytes, this schedule %zu bytes", W.desc, g_refSize, cs);
#endif
    } else v_stat("outputs_identical_to_reference_schedule", 1);
    v_sample("workload %ld {%s} schedule %ld mode=%s steps=%llu hash=%016llx -> %zu bytes", wid, W.desc, idx, mode == SCHED_PCT ? "PCT" : "uniform", (unsigned long long)SR.steps, (unsigned long long)SR.hash, cs);
}

static void on_alarm(int s) { (void)s; char b[64]; int n = snprintf(b, sizeof b, "HANG\t%ld\n", V.cur_case); if (write(1, b, (size_t)n)) {} _exit(77); }

int main(int argc, char** argv)
{
    v_init(argc, argv); vp_trace_on = 0;
    sched_on_stuck = on_stuck; signal(SIGALRM, on_alarm);
    g_maxSize = (size_t)v_opt_long("maxsize", V.thorough ? (8 << 20) : (5 << 20)); g_ringOnly = (int)v_opt_long("ringonly", 0);
    long const nsched = v_opt_long("nsched", 25);
    { size_t const keep = g_maxSize; if (g_ringSize > g_maxSize) g_maxSize = g_ringSize;      /* buffers sized for the ring-lap stratum */
    g_cap = ZSTD_compressBound(g_maxSize) + 4096; g_x = (uint8_t*)malloc(g_maxSize + 64); g_dict = (uint8_t*)malloc(70000); g_ref = (uint8_t*)malloc(g_cap); g_var = (uint8_t*)malloc(g_cap); g_out = (uint8_t*)malloc(g_maxSize + 64); g_maxSize = keep; }
    for (long i = V.from; i < V.to; i++) { v_case(i); alarm(600); run_case(i, nsched); alarm(0); }
    v_stat("distinct_schedules", g_distinct);
    return v_finish();
}
