/* h_c19tool.c - library-side verdicts for C19 (the CLI is never its own judge)
 *   verify <file.zst> <orig> [dict] : exit 0 iff the library streaming decoder AND R regenerate exactly <orig> from the whole file
 *   verdict <file> [dict]           : prints ACCEPT <size> <xxh64> or REJECT (library, whole file, all frames, window limit 2^27 like the CLI) */
#include "vcommon.h"
#include "refdec.h"
static uint8_t* slurp(const char* p, size_t* n) { FILE* f = fopen(p, "rb"); if (!f) return NULL; fseek(f, 0, SEEK_END); long s = ftell(f); fseek(f, 0, SEEK_SET); uint8_t* b = (uint8_t*)malloc((size_t)s + 1); *n = fread(b, 1, (size_t)s, f); fclose(f); return b; }
static int lib_decode(const uint8_t* c, size_t cs, const uint8_t* dict, size_t dl, uint8_t** out, size_t* on)
{
    ZSTD_DCtx* d = ZSTD_createDCtx(); ZSTD_DCtx_setParameter(d, ZSTD_d_windowLogMax, 27); if (dict) ZSTD_DCtx_loadDictionary(d, dict, dl);
    size_t cap = 1 << 20, pos = 0; uint8_t* o = (uint8_t*)malloc(cap); ZSTD_inBuffer in = { c, cs, 0 }; size_t r = 0; int ok = 1;
    if (cs == 0) { ok = 0; }
    while (ok && in.pos < in.size) { if (cap - pos < (1 << 17)) { cap *= 2; o = (uint8_t*)realloc(o, cap); } ZSTD_outBuffer ob = { o + pos, cap - pos, 0 }; r = ZSTD_decompressStream(d, &ob, &in); if (ZSTD_isError(r)) { ok = 0; break; } pos += ob.pos; }
    if (ok && r != 0) { /* input exhausted inside a frame: drain then it is a truncation */ for (int i = 0; i < 64 && r != 0; i++) { if (cap - pos < (1 << 17)) { cap *= 2; o = (uint8_t*)realloc(o, cap); } ZSTD_outBuffer ob = { o + pos, cap - pos, 0 }; size_t before = pos; r = ZSTD_decompressStream(d, &ob, &in); if (ZSTD_isError(r)) break; pos += ob.pos; if (pos == before) break; } if (r != 0) ok = 0; }
    ZSTD_freeDCtx(d); *out = o; *on = pos; return ok;
}
int main(int argc, char** argv)
{
    if (argc < 3) return 2;
    size_t cs = 0, dl = 0; uint8_t* c = slurp(argv[2], &cs); uint8_t* dict = NULL;
    if (!c) { printf("REJECT (cannot read)\n"); return 1; }
    if (!strcmp(argv[1], "verify")) {
        if (argc < 4) return 2; size_t n = 0; uint8_t* x = slurp(argv[3], &n); if (!x) return 2; if (argc > 4) dict = slurp(argv[4], &dl);
        uint8_t* o; size_t on; int ok = lib_decode(c, cs, dict, dl, &o, &on) && on == n && !memcmp(o, x, n);
        if (ok) { refdec_info_t I; memset(&I, 0, sizeof I); refdec_dict_t* rd = dict ? refdec_dict_create(dict, dl, 0) : NULL; uint8_t* o2 = (uint8_t*)malloc(n + 1); ok = refdec_decode(o2, n, c, cs, rd, &I, 0) && I.out_size == n && !memcmp(o2, x, n); }
        printf(ok ? "SAME\n" : "DIFFERENT\n"); return ok ? 0 : 1;
    }
    if (!strcmp(argv[1], "verdict")) {
        if (argc > 3) dict = slurp(argv[3], &dl);
        uint8_t* o; size_t on; int ok = lib_decode(c, cs, dict, dl, &o, &on);
        if (ok) printf("ACCEPT %zu %016llx\n", on, (unsigned long long)v_xxh64(o, on, 0)); else printf("REJECT\n");
        return 0;
    }
    return 2;
}
