/* vhist.h - call-history engine for the streaming properties (C02, C05, C09, C10, C11, C15).
 * A compression history is a SCRIPT INDEXED BY INPUT OFFSET, fixed before the run: which slice and which directive apply at
 * offset i never depends on how many calls the library needed or how much it flushed (so that two schedules of one MT workload
 * see the same call sequence as far as the input side is concerned). Output capacities cycle through a fixed small pattern. */
#ifndef VHIST_H
#define VHIST_H
#include "vparams.h"

#define H_MAXSEG 4096
typedef struct { size_t len; int dir; } hseg;              /* dir: ZSTD_e_continue / flush / end ; the last segment always ends */
typedef struct { hseg seg[H_MAXSEG]; int nseg; size_t outPat[8]; int nOut; int api; /* 0 compressStream2, 1 legacy compressStream/flushStream/endStream */ char desc[160]; } hscript;

typedef struct { size_t inBefore, inAfter, inSize, outBefore, outAfter, outSize; size_t ret; int dir; } hcall;
typedef struct { hcall* c; size_t n, cap; size_t flushPoints[256]; size_t flushIn[256]; int nFlush; } hlog;
static void hl_push(hlog* L, hcall c) { if (L->n == L->cap) { L->cap = L->cap ? L->cap * 2 : 256; L->c = (hcall*)realloc(L->c, L->cap * sizeof(hcall)); if (!L->c) exit(2); } L->c[L->n++] = c; }
static void hl_free(hlog* L) { free(L->c); memset(L, 0, sizeof *L); }

static size_t h_pick_slice(vrng* r, size_t remaining, int style)
{
    size_t s;
    switch (style) {
    case 0: s = 1 + vr_u(r, 3); break;                                   /* tiny */
    case 1: s = 1 + vr_u(r, 5000); break;
    case 2: s = (128u << 10) + vr_u(r, 5) - 2; break;                     /* block +-1 */
    case 3: s = 1 + vr_u64(r, 1u << 20); break;
    case 4: s = remaining; break;                                        /* everything at once */
    default: { static const size_t e[] = { 1, 2, 3, 100, 4096, 32768, 131071, 131072, 131073, 262144, 1000000 }; s = e[vr_u(r, 11)]; }
    }
    if (s == 0) s = 1;
    return s < remaining ? s : remaining;
}
static void h_gen_script(vrng* r, size_t n, hscript* S, int allowLegacy)
{
    memset(S, 0, sizeof *S);
    int style = (int)vr_u(r, 6); int const flushRate = (int)vr_u(r, 4);       /* 0: never flush */
    if (style == 0 && n > 3000) style = 1;                                     /* tiny slices only on small inputs */
    size_t pos = 0;
    while (pos < n && S->nseg < H_MAXSEG - 1) {
        size_t const l = h_pick_slice(r, n - pos, vr_chance(r, 1, 5) ? 5 : style);
        S->seg[S->nseg].len = l; pos += l;
        S->seg[S->nseg].dir = (pos == n) ? ZSTD_e_end : (flushRate && vr_u(r, 8) < (uint32_t)flushRate) ? ZSTD_e_flush : ZSTD_e_continue;
        S->nseg++;
    }
    if (pos < n) { S->seg[S->nseg].len = n - pos; S->seg[S->nseg].dir = ZSTD_e_end; S->nseg++; }
    if (n == 0) { S->seg[0].len = 0; S->seg[0].dir = ZSTD_e_end; S->nseg = 1; }
    else if (vr_chance(r, 1, 6) && S->nseg < H_MAXSEG) { S->seg[S->nseg - 1].dir = vr_chance(r, 1, 2) ? ZSTD_e_continue : ZSTD_e_flush; S->seg[S->nseg].len = 0; S->seg[S->nseg].dir = ZSTD_e_end; S->nseg++; }  /* empty end call */
    S->nOut = 1 + (int)vr_u(r, 4);
    {   int const ostyle = (int)vr_u(r, 5);
        for (int i = 0; i < S->nOut; i++) S->outPat[i] = ostyle == 0 ? 1 + vr_u(r, 3) : ostyle == 1 ? 1 + vr_u(r, 300) : ostyle == 2 ? 1 + vr_u(r, 70000) : ostyle == 3 ? (size_t)1 << 22 : (size_t[]){ 1, 7, 513, 4096, 131072, 200000 }[vr_u(r, 6)]; }
    if (n > 200000) for (int i = 0; i < S->nOut; i++) if (S->outPat[i] < 64) S->outPat[i] += 64;       /* keep call counts bounded on big inputs */
    S->api = allowLegacy && vr_chance(r, 1, 5);
    snprintf(S->desc, sizeof S->desc, "nseg=%d style=%d flushRate=%d/8 out[%d]={%zu,%zu,..} api=%s", S->nseg, style, flushRate, S->nOut, S->outPat[0], S->outPat[S->nOut > 1 ? 1 : 0], S->api ? "legacy" : "stream2");
}

/* run the script. Returns compressed size or a zstd error code. Progress oracle hooks are evaluated by the caller on the log. */
static size_t h_run_script(ZSTD_CCtx* c, const uint8_t* src, size_t n, const hscript* S, uint8_t* dst, size_t dstCap, hlog* L, long* callBudgetExceeded)
{
    size_t inPos = 0, outPos = 0; long calls = 0; int oi = 0; (void)n;
    long const maxCalls = 64 + 8 * (long)S->nseg + 8 * (long)(ZSTD_compressBound(n) / (S->outPat[0] ? S->outPat[0] : 1)) + (long)(n / 16);
    for (int s = 0; s < S->nseg; s++) {
        ZSTD_inBuffer in = { src + inPos, S->seg[s].len, 0 };
        int const dir = S->seg[s].dir;
        for (;;) {
            size_t const prevIn = in.pos;
            size_t const room = S->outPat[oi++ % S->nOut];
            ZSTD_outBuffer out = { dst + outPos, room < dstCap - outPos ? room : dstCap - outPos, 0 };
            size_t ret;
            if (out.size == 0 && outPos == dstCap) return (size_t)-ZSTD_error_dstSize_tooSmall;
            if (!S->api) ret = ZSTD_compressStream2(c, &out, &in, (ZSTD_EndDirective)dir);
            else if (in.pos < in.size || dir == ZSTD_e_continue) { ret = ZSTD_compressStream(c, &out, &in); if (!ZSTD_isError(ret) && in.pos == in.size && dir != ZSTD_e_continue) ret = 1; /* directive still to come */ }
            else ret = (dir == ZSTD_e_flush) ? ZSTD_flushStream(c, &out) : ZSTD_endStream(c, &out);
            if (L) { hcall hc; hc.inBefore = inPos + prevIn; hc.inAfter = inPos + in.pos; hc.inSize = inPos + in.size; hc.outBefore = outPos; hc.outAfter = outPos + out.pos; hc.outSize = out.size; hc.ret = ret; hc.dir = dir; hl_push(L, hc); }
            if (ZSTD_isError(ret)) return ret;
            outPos += out.pos; calls++;
            if (calls > maxCalls) { if (callBudgetExceeded) *callBudgetExceeded = calls; return (size_t)-ZSTD_error_GENERIC; }
            if (dir == ZSTD_e_continue) { if (in.pos == in.size) break; }
            else if (ret == 0 && in.pos == in.size) {
                if (dir == ZSTD_e_flush && L && L->nFlush < 256) { L->flushPoints[L->nFlush] = outPos; L->flushIn[L->nFlush] = inPos + in.pos; L->nFlush++; }
                break; }
        }
        inPos += S->seg[s].len;
    }
    return outPos;
}

/* decoder history: random segmentation of input and output; returns produced size or error; *retAtEnd = last return value */
typedef struct { size_t inChunk[4]; size_t outChunk[4]; int n; int stableOut; } dscript;
static void d_gen_script(vrng* r, dscript* D, size_t csz)
{
    int const st = (int)vr_u(r, 5); D->n = 1 + (int)vr_u(r, 4); D->stableOut = 0;
    for (int i = 0; i < D->n; i++) {
        D->inChunk[i] = st == 0 ? 1 : st == 1 ? 1 + vr_u(r, 7) : st == 2 ? 1 + vr_u(r, 5000) : st == 3 ? 1 + vr_u64(r, 300000) : csz + 1;
        D->outChunk[i] = vr_chance(r, 1, 4) ? 1 + vr_u(r, 7) : vr_chance(r, 1, 2) ? 1 + vr_u(r, 5000) : 1 + vr_u64(r, 400000);
    }
    if (csz > 300000) for (int i = 0; i < D->n; i++) { if (D->inChunk[i] < 32) D->inChunk[i] += 32; if (D->outChunk[i] < 32) D->outChunk[i] += 32; }
}
#endif
