/* vhist.h - call-history engine for the streaming properties (C02, C05, C09, C10, C11, C15).
 * A compression history is a SCRIPT INDEXED BY INPUT OFFSET, fixed before the run: which slice and which directive apply at
 * offset i never depends on how many calls the library needed or how much it flushed (so that two schedules of one MT workload
 * see the same call sequence as far as the input side is concerned). Output capacities cycle through a fixed small pattern. */
#ifndef VHIST_H
#define VHIST_H
#include "vparams.h"

#define H_MAXSEG 4096
typedef struct { size_t len; int dir; } hseg;              /* dir: ZSTD_e_continue / flush / end ; the last segment always ends */
typedef struct { hseg seg[H_MAXSEG]; int nseg; size_t outPat[8]; int nOut; int api; /* 0 compressStream2, 1 legacy compressStream/flushStream/endStream */ char desc[160];
                 int chgAtSeg, chgLevel;   /* chgAtSeg > 0: before that segment the caller changes ZSTD_c_compressionLevel (allowed mid-frame with nbWorkers >= 1: applies to the next job) */ } hscript;

typedef struct { size_t inBefore, inAfter, inSize, outBefore, outAfter, outSize; size_t ret; int dir; } hcall;
typedef struct { hcall* c; size_t n, cap; size_t flushPoints[256]; size_t flushIn[256]; int nFlush; } hlog;
static void hl_push(hlog* L, hcall c) { if (L->n == L->cap) { L->cap = L->cap ? L->cap * 2 : 256; L->c = (hcall*)realloc(L->c, L->cap * sizeof(hcall)); if (!L->c) exit(2); } L->c[L->n++] = c; }
static void hl_free(hlog* L) { free(L->c); memset(L, 0, sizeof *L); }

static size_t h_pick_slice(vrng* r, size_t remaining, int style)
{
    size_t s;
    switch (style) {
    case 0: s = 1 + vr_u(r, 3); break;                                   /* tiny */
    case 1: s = 1 + vr_u(r, 5000); break;
    case 2: s = (128u << 10) + vr_u(r, 5) - 2; break;                     /* block +-1 */
    case 3: s = 1 + vr_u64(r, 1u << 20); break;
    case 4: s = remaining; break;                                        /* everything at once */
    default: { static const size_t e[] = { 1, 2, 3, 100, 4096, 32768, 131071, 131072, 131073, 262144, 1000000 }; s = e[vr_u(r, 11)]; }
    }
    if (s == 0) s = 1;
    return s < remaining ? s : remaining;
}
static void h_gen_script(vrng* r, size_t n, hscript* S, int allowLegacy)
{
    memset(S, 0, sizeof *S);
    int style = (int)vr_u(r, 6); int const flushRate = (int)vr_u(r, 4);       /* 0: never flush */
    if (style == 0 && n > 3000) style = 1;                                     /* tiny slices only on small inputs */
    size_t pos = 0;
    while (pos < n && S->nseg < H_MAXSEG - 1) {
        size_t const l = h_pick_slice(r, n - pos, vr_chance(r, 1, 5) ? 5 : style);
        S->seg[S->nseg].len = l; pos += l;
        S->seg[S->nseg].dir = (pos == n) ? ZSTD_e_end : (flushRate && vr_u(r, 8) < (uint32_t)flushRate) ? ZSTD_e_flush : ZSTD_e_continue;
        S->nseg++;
    }
    if (pos < n) { S->seg[S->nseg].len = n - pos; S->seg[S->nseg].dir = ZSTD_e_end; S->nseg++; }
    if (n == 0) { S->seg[0].len = 0; S->seg[0].dir = ZSTD_e_end; S->nseg = 1; }
    else if (vr_chance(r, 1, 6) && S->nseg < H_MAXSEG) { S->seg[S->nseg - 1].dir = vr_chance(r, 1, 2) ? ZSTD_e_continue : ZSTD_e_flush; S->seg[S->nseg].len = 0; S->seg[S->nseg].dir = ZSTD_e_end; S->nseg++; }  /* empty end call */
    S->nOut = 1 + (int)vr_u(r, 4);
    {   int const ostyle = (int)vr_u(r, 5);
        for (int i = 0; i < S->nOut; i++) S->outPat[i] = ostyle == 0 ? 1 + vr_u(r, 3) : ostyle == 1 ? 1 + vr_u(r, 300) : ostyle == 2 ? 1 + vr_u(r, 70000) : ostyle == 3 ? (size_t)1 << 22 : (size_t[]){ 1, 7, 513, 4096, 131072, 200000 }[vr_u(r, 6)]; }
    if (n > 200000) for (int i = 0; i < S->nOut; i++) if (S->outPat[i] < 64) S->outPat[i] += 64;       /* keep call counts bounded on big inputs */
    S->api = allowLegacy && vr_chance(r, 1, 5);
    snprintf(S->desc, sizeof S->desc, "nseg=%d style=%d flushRate=%d/8 out[%d]={%zu,%zu,..} api=%s", S->nseg, style, flushRate, S->nOut, S->outPat[0], S->outPat[S->nOut > 1 ? 1 : 0], S->api ? "legacy" : "stream2");
}

/* run the script. Returns compressed size or a zstd error code. Progress oracle hooks are evaluated by the caller on the log. */
static size_t h_run_script(ZSTD_CCtx* c, const uint8_t* src, size_t n, const hscript* S, uint8_t* dst, size_t dstCap, hlog* L, long* callBudgetExceeded)
{
    size_t inPos = 0, outPos = 0; long calls = 0; int oi = 0; (void)n;
    long const maxCalls = 64 + 8 * (long)S->nseg + 8 * (long)(ZSTD_compressBound(n) / (S->outPat[0] ? S->outPat[0] : 1)) + (long)(n / 16);
    for (int s = 0; s < S->nseg; s++) {
        ZSTD_inBuffer in = { src + inPos, S->seg[s].len, 0 };
        int const dir = S->seg[s].dir;
        if (S->chgAtSeg > 0 && s == S->chgAtSeg) (void)ZSTD_CCtx_setParameter(c, ZSTD_c_compressionLevel, S->chgLevel);
        for (;;) {
            size_t const prevIn = in.pos;
            size_t const room = S->outPat[oi++ % S->nOut];
            ZSTD_outBuffer out = { dst + outPos, room < dstCap - outPos ? room : dstCap - outPos, 0 };
            size_t ret;
            if (out.size == 0 && outPos == dstCap) return (size_t)-ZSTD_error_dstSize_tooSmall;
            if (!S->api) ret = ZSTD_compressStream2(c, &out, &in, (ZSTD_EndDirective)dir);
            else if (in.pos < in.size || dir == ZSTD_e_continue) { ret = ZSTD_compressStream(c, &out, &in); if (!ZSTD_isError(ret) && in.pos == in.size && dir != ZSTD_e_continue) ret = 1; /* directive still to come */ }
            else ret = (dir == ZSTD_e_flush) ? ZSTD_flushStream(c, &out) : ZSTD_endStream(c, &out);
            if (L) { hcall hc; hc.inBefore = inPos + prevIn; hc.inAfter = inPos + in.pos; hc.inSize = inPos + in.size; hc.outBefore = outPos; hc.outAfter = outPos + out.pos; hc.outSize = out.size; hc.ret = ret; hc.dir = dir; hl_push(L, hc); }
            if (ZSTD_isError(ret)) return ret;
            outPos += out.pos; calls++;
            if (calls > maxCalls) { if (callBudgetExceeded) *callBudgetExceeded = calls; return (size_t)-ZSTD_error_GENERIC; }
            if (dir == ZSTD_e_continue) { if (in.pos == in.size) break; }
            else if (ret == 0 && in.pos == in.size) {
                if (dir == ZSTD_e_flush && L && L->nFlush < 256) { L->flushPoints[L->nFlush] = outPos; L->flushIn[L->nFlush] = inPos + in.pos; L->nFlush++; }
                break; }
        }
        inPos += S->seg[s].len;
    }
    return outPos;
}

/* ---------------- alternative compression entry points for the same scripts (C02 / C05): stable-buffer modes, buffer-less, ZBUFF */
enum { HA_STREAM2 = 0, HA_LEGACY = 1, HA_STABLE_IN, HA_STABLE_OUT, HA_STABLE_BOTH, HA_BUFFERLESS, HA_BUFFERLESS_SCATTER, HA_BUFFERLESS_COPYCCTX, HA_ZBUFF, HA_NB };
static const char* const ha_name[HA_NB] = { "stream2", "legacy", "stable-in", "stable-out", "stable-in+out", "bufferless", "bufferless-scattered-segments", "bufferless-copyCCtx", "ZBUFF" };
#define HA_IS_STABLE(a) ((a) >= HA_STABLE_IN && (a) <= HA_STABLE_BOTH)
#define HA_IS_LEVELONLY(a) ((a) >= HA_BUFFERLESS)

/* stable-buffer contracts: stable-in = same src pointer, pos only moved by zstd, size may grow; stable-out = same buffer, (size - pos) never changed by the caller */
static size_t h_run_stable(ZSTD_CCtx* c, int api, const uint8_t* src, size_t n, const hscript* S, uint8_t* dst, size_t dstCap, long* callBudgetExceeded, hlog* L)
{
    int const sIn = (api == HA_STABLE_IN || api == HA_STABLE_BOTH), sOut = (api == HA_STABLE_OUT || api == HA_STABLE_BOTH);
    ZSTD_inBuffer in = { src, 0, 0 }; ZSTD_outBuffer out = { dst, dstCap, 0 }; size_t inBase = 0, outPos = 0; long calls = 0; int oi = 0;
    long const maxCalls = 64 + 8 * (long)S->nseg + 8 * (long)(ZSTD_compressBound(n) / (S->outPat[0] ? S->outPat[0] : 1)) + (long)(n / 16);
    for (int s = 0; s < S->nseg; s++) {
        ZSTD_inBuffer lin = { src + inBase, S->seg[s].len, 0 }; int const dir = S->seg[s].dir;
        if (sIn) in.size = inBase + S->seg[s].len;
        for (;;) {
            ZSTD_inBuffer* const ip = sIn ? &in : &lin; ZSTD_outBuffer lo; ZSTD_outBuffer* op = &out;
            if (!sOut) { size_t const room = S->outPat[oi++ % S->nOut]; lo.dst = dst + outPos; lo.size = room < dstCap - outPos ? room : dstCap - outPos; lo.pos = 0; op = &lo; if (lo.size == 0) return (size_t)-ZSTD_error_dstSize_tooSmall; }
            size_t const inB = (sIn ? 0 : inBase) + ip->pos, outB = sOut ? out.pos : outPos; size_t const roomB = op->size - op->pos;
            size_t const ret = ZSTD_compressStream2(c, op, ip, (ZSTD_EndDirective)dir);
            if (L) { hcall hc; hc.inBefore = inB; hc.inAfter = (sIn ? 0 : inBase) + ip->pos; hc.inSize = (sIn ? 0 : inBase) + ip->size; hc.outBefore = outB; hc.outAfter = sOut ? out.pos : outPos + lo.pos; hc.outSize = roomB; hc.ret = ret; hc.dir = dir; hl_push(L, hc); }
            if (ZSTD_isError(ret)) return ret;
            if (!sOut) outPos += lo.pos;
            if (++calls > maxCalls) { if (callBudgetExceeded) *callBudgetExceeded = calls; return (size_t)-ZSTD_error_GENERIC; }
            if (dir == ZSTD_e_continue) { if (ip->pos == ip->size) break; }
            else if (ret == 0 && ip->pos == ip->size) {
                if (dir == ZSTD_e_flush && L && L->nFlush < 256) { L->flushPoints[L->nFlush] = sOut ? out.pos : outPos; L->flushIn[L->nFlush] = (sIn ? 0 : inBase) + ip->pos; L->nFlush++; }
                break; }
        }
        inBase += S->seg[s].len;
    }
    return sOut ? out.pos : outPos;
}
/* buffer-less: Begin*, Continue per script segment (input consumed entirely each call, prior input stays accessible), End with the last segment */
typedef struct { int level; int useAdvanced; ZSTD_parameters zp; int pledge; const uint8_t* dict; size_t dictLen; } hbl;
static size_t h_run_bufferless(ZSTD_CCtx* c, int api, const uint8_t* src, size_t n, const hscript* S, uint8_t* dst, size_t dstCap, const hbl* B)
{
    size_t e; ZSTD_CCtx* c2 = NULL; ZSTD_CCtx* cc = c; size_t inPos = 0, op = 0; void** keep = NULL; int nkeep = 0;
    unsigned long long const pledged = B->pledge ? (unsigned long long)n : ZSTD_CONTENTSIZE_UNKNOWN;
    if (B->useAdvanced) e = ZSTD_compressBegin_advanced(c, B->dict, B->dictLen, B->zp, pledged);
    else if (B->dict) e = ZSTD_compressBegin_usingDict(c, B->dict, B->dictLen, B->level);
    else e = ZSTD_compressBegin(c, B->level);
    if (ZSTD_isError(e)) return e;
    if (api == HA_BUFFERLESS_COPYCCTX) { c2 = ZSTD_createCCtx(); if (!c2) exit(2); e = ZSTD_copyCCtx(c2, c, pledged); if (ZSTD_isError(e)) { ZSTD_freeCCtx(c2); return e; } cc = c2; }
    if (api == HA_BUFFERLESS_SCATTER) keep = (void**)calloc((size_t)S->nseg + 1, sizeof(void*));
    for (int s = 0; s < S->nseg; s++) {
        size_t const len = S->seg[s].len; const uint8_t* p = src + inPos; int const last = (s == S->nseg - 1);
        if (keep) { uint8_t* q = (uint8_t*)malloc(len + 1); if (!q) exit(2); memcpy(q, p, len); keep[nkeep++] = q; p = q; }   /* every segment lives in its own memory: non-contiguous history */
        e = last ? ZSTD_compressEnd(cc, dst + op, dstCap - op, p, len) : ZSTD_compressContinue(cc, dst + op, dstCap - op, p, len);
        if (ZSTD_isError(e)) break;
        op += e; inPos += len;
    }
    for (int i = 0; i < nkeep; i++) free(keep[i]); free(keep); ZSTD_freeCCtx(c2);
    return ZSTD_isError(e) ? e : op;
}
#include "zbuff.h"
static size_t h_run_zbuff(int level, const uint8_t* dict, size_t dictLen, const uint8_t* src, size_t n, const hscript* S, uint8_t* dst, size_t dstCap, long* callBudgetExceeded)
{
    ZBUFF_CCtx* z = ZBUFF_createCCtx(); if (!z) exit(2); size_t inPos = 0, op = 0; int oi = 0; long calls = 0; size_t e;
    long const maxCalls = 64 + 8 * (long)S->nseg + 8 * (long)(ZSTD_compressBound(n) / (S->outPat[0] ? S->outPat[0] : 1)) + (long)(n / 16);
    e = dict ? ZBUFF_compressInitDictionary(z, dict, dictLen, level) : ZBUFF_compressInit(z, level);
    for (int s = 0; s < S->nseg && !ZSTD_isError(e); s++) {
        size_t ip = 0; size_t const len = S->seg[s].len; int const dir = S->seg[s].dir;
        while (ip < len) { size_t room = S->outPat[oi++ % S->nOut]; if (room > dstCap - op) room = dstCap - op; size_t ssz = len - ip; e = ZBUFF_compressContinue(z, dst + op, &room, src + inPos + ip, &ssz); if (ZSTD_isError(e)) break; ip += ssz; op += room;
            if (room == 0 && op == dstCap) { e = (size_t)-ZSTD_error_dstSize_tooSmall; break; } if (++calls > maxCalls) { if (callBudgetExceeded) *callBudgetExceeded = calls; e = (size_t)-ZSTD_error_GENERIC; break; } }
        if (ZSTD_isError(e)) break;
        if (dir != ZSTD_e_continue) do { size_t room = S->outPat[oi++ % S->nOut]; if (room > dstCap - op) room = dstCap - op; if (room == 0) { e = (size_t)-ZSTD_error_dstSize_tooSmall; break; }
            e = (dir == ZSTD_e_flush) ? ZBUFF_compressFlush(z, dst + op, &room) : ZBUFF_compressEnd(z, dst + op, &room); if (ZSTD_isError(e)) break; op += room;
            if (++calls > maxCalls) { if (callBudgetExceeded) *callBudgetExceeded = calls; e = (size_t)-ZSTD_error_GENERIC; break; } } while (e > 0);
        inPos += len;
    }
    ZBUFF_freeCCtx(z);
    return ZSTD_isError(e) ? e : op;
}

/* decoder history: random segmentation of input and output; returns produced size or error; *retAtEnd = last return value */
typedef struct { size_t inChunk[4]; size_t outChunk[4]; int n; int stableOut; } dscript;
static void d_gen_script(vrng* r, dscript* D, size_t csz)
{
    int const st = (int)vr_u(r, 5); D->n = 1 + (int)vr_u(r, 4); D->stableOut = 0;
    for (int i = 0; i < D->n; i++) {
        D->inChunk[i] = st == 0 ? 1 : st == 1 ? 1 + vr_u(r, 7) : st == 2 ? 1 + vr_u(r, 5000) : st == 3 ? 1 + vr_u64(r, 300000) : csz + 1;
        D->outChunk[i] = vr_chance(r, 1, 4) ? 1 + vr_u(r, 7) : vr_chance(r, 1, 2) ? 1 + vr_u(r, 5000) : 1 + vr_u64(r, 400000);
    }
    if (csz > 300000) for (int i = 0; i < D->n; i++) { if (D->inChunk[i] < 32) D->inChunk[i] += 32; if (D->outChunk[i] < 32) D->outChunk[i] += 32; }
}
#endif
