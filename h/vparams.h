/* vparams.h - stratified random parameter vectors for compression contexts + applied-parameter tracing */
#ifndef VPARAMS_H
#define VPARAMS_H
#include "vcommon.h"
#include "common/zstd_trace.h"

#define VP_MAXP 40
typedef struct { int n; ZSTD_cParameter p[VP_MAXP]; int v[VP_MAXP]; int level; int nbWorkers; int magicless; int windowLog; int checksum; int contentSize; int maxBlockSize; int targetCBlockSize; int ldm; char desc[400]; } vparams;

#define VP_MT         1u   /* may pick nbWorkers >= 1 */
#define VP_MAGICLESS  2u   /* may pick the magicless format */
#define VP_SMALLWIN   4u   /* bias windowLog to 10..14 */
#define VP_NOLEVELONLY 8u  /* always set explicit advanced parameters */
#define VP_BIG        16u  /* allow windowLog up to 27 */
#define VP_NOMAXBLOCK 32u

static void vp_add(vparams* P, ZSTD_cParameter p, int v) { if (P->n < VP_MAXP) { P->p[P->n] = p; P->v[P->n] = v; P->n++; } }
static void vp_redesc(vparams* P) { int o = 0; P->desc[0] = 0; for (int i = 0; i < P->n && o < (int)sizeof(P->desc) - 16; i++) o += snprintf(P->desc + o, sizeof(P->desc) - (size_t)o, "%s%d=%d", i ? "," : "", (int)P->p[i], P->v[i]); }
static void vp_random(vrng* r, vparams* P, unsigned flags)
{
    memset(P, 0, sizeof *P);
    /* level */
    {   int l;
        switch (vr_u(r, 10)) {
        case 0: l = 0; break;
        case 1: l = -(int)(1 + vr_u(r, 200)); break;
        case 2: l = vr_chance(r, 1, 4) ? ZSTD_minCLevel() : (int)vr_range(r, 20, 22); break;
        default: l = (int)vr_range(r, 1, 19); break;
        }
        P->level = l; vp_add(P, ZSTD_c_compressionLevel, l);
    }
    int const maxWL = (flags & VP_BIG) ? 27 : 22;
    int wl = 0;
    int const advanced = (flags & VP_NOLEVELONLY) ? 1 : vr_chance(r, 3, 4);
    if (P->level >= 20 || advanced) {
        wl = (flags & VP_SMALLWIN) ? (int)vr_range(r, 10, 14) : vr_chance(r, 1, 3) ? (int)vr_range(r, 10, 13) : (int)vr_range(r, 10, maxWL);
        vp_add(P, ZSTD_c_windowLog, wl);
    }
    P->windowLog = wl;
    if (advanced) {
        int const w = wl ? wl : 20;
        if (vr_chance(r, 2, 3)) vp_add(P, ZSTD_c_strategy, (int)vr_range(r, 1, 9));
        if (vr_chance(r, 1, 2)) vp_add(P, ZSTD_c_hashLog, (int)vr_range(r, 6, V_MIN(w + 1, 24)));
        if (vr_chance(r, 1, 2)) vp_add(P, ZSTD_c_chainLog, (int)vr_range(r, 6, V_MIN(w + 1, 24)));
        if (vr_chance(r, 1, 2)) vp_add(P, ZSTD_c_searchLog, (int)vr_range(r, 1, vr_chance(r, 1, 8) ? V_MIN(w - 1, 12) : 6));
        if (vr_chance(r, 1, 2)) vp_add(P, ZSTD_c_minMatch, (int)vr_range(r, 3, 7));
        if (vr_chance(r, 1, 3)) vp_add(P, ZSTD_c_targetLength, vr_chance(r, 1, 6) ? 131072 : (int)vr_u(r, 1000));
        if (vr_chance(r, 1, 5)) { P->ldm = 1; vp_add(P, ZSTD_c_enableLongDistanceMatching, 1);
            if (vr_chance(r, 1, 2)) vp_add(P, ZSTD_c_ldmHashLog, (int)vr_range(r, 6, 20));
            if (vr_chance(r, 1, 2)) vp_add(P, ZSTD_c_ldmMinMatch, vr_chance(r, 1, 2) ? (int)vr_range(r, 4, 64) : (int)vr_range(r, 4, 4096));
            if (vr_chance(r, 1, 2)) vp_add(P, ZSTD_c_ldmBucketSizeLog, (int)vr_range(r, 1, 8));
            if (vr_chance(r, 1, 2)) vp_add(P, ZSTD_c_ldmHashRateLog, (int)vr_range(r, 0, 7)); }
        else if (vr_chance(r, 1, 8)) vp_add(P, ZSTD_c_enableLongDistanceMatching, 2);
        if (vr_chance(r, 1, 2)) vp_add(P, ZSTD_c_useBlockSplitter, (int)vr_range(r, 0, 2));
        if (vr_chance(r, 1, 2)) vp_add(P, ZSTD_c_useRowMatchFinder, (int)vr_range(r, 0, 2));
        if (vr_chance(r, 1, 3)) vp_add(P, ZSTD_c_literalCompressionMode, (int)vr_range(r, 0, 2));
        if (vr_chance(r, 1, 5)) { P->targetCBlockSize = vr_chance(r, 1, 2) ? (int)vr_range(r, 1340, 4000) : (int)vr_range(r, 1340, 131072); vp_add(P, ZSTD_c_targetCBlockSize, P->targetCBlockSize); }
        if (!(flags & VP_NOMAXBLOCK) && vr_chance(r, 1, 5)) { P->maxBlockSize = vr_chance(r, 1, 2) ? (int)vr_range(r, 1024, 8192) : (int)vr_range(r, 1024, 131072); vp_add(P, ZSTD_c_maxBlockSize, P->maxBlockSize); }
        if (vr_chance(r, 1, 12)) vp_add(P, ZSTD_c_forceMaxWindow, 1);
        if (vr_chance(r, 1, 12)) vp_add(P, ZSTD_c_srcSizeHint, (int)vr_u(r, 1 << 20));
        if (vr_chance(r, 1, 12)) vp_add(P, ZSTD_c_searchForExternalRepcodes, (int)vr_range(r, 0, 2));
    }
    P->checksum = vr_chance(r, 1, 2); vp_add(P, ZSTD_c_checksumFlag, P->checksum);
    P->contentSize = !vr_chance(r, 1, 4); if (!P->contentSize || vr_chance(r, 1, 4)) vp_add(P, ZSTD_c_contentSizeFlag, P->contentSize);
    if (vr_chance(r, 1, 6)) vp_add(P, ZSTD_c_dictIDFlag, (int)vr_u(r, 2));
    if ((flags & VP_MAGICLESS) && vr_chance(r, 1, 8)) { P->magicless = 1; vp_add(P, ZSTD_c_format, ZSTD_f_zstd1_magicless); }
    if ((flags & VP_MT) && vr_chance(r, 1, 3)) {
        P->nbWorkers = (int)vr_range(r, 1, 4); vp_add(P, ZSTD_c_nbWorkers, P->nbWorkers);
        if (vr_chance(r, 2, 3)) vp_add(P, ZSTD_c_jobSize, vr_chance(r, 1, 2) ? 1 : (int)vr_range(r, 512 << 10, 2 << 20));
        if (vr_chance(r, 1, 2)) vp_add(P, ZSTD_c_overlapLog, (int)vr_range(r, 0, 9));
        if (vr_chance(r, 1, 4)) vp_add(P, ZSTD_c_rsyncable, 1);
    }
    vp_redesc(P);
}
/* keep only the level (used to bound memory): derived fields are reset with the list */
static void vp_level_only(vparams* P) { int const l = P->level; memset(P, 0, sizeof *P); P->level = l; P->contentSize = 1; vp_add(P, ZSTD_c_compressionLevel, l); snprintf(P->desc, sizeof P->desc, "%d=%d", (int)ZSTD_c_compressionLevel, l); }
/* returns 0, or the first error code from a setter (a rejected set is an accepted outcome: caller skips the case) */
static size_t vp_apply(ZSTD_CCtx* c, const vparams* P)
{
    for (int i = 0; i < P->n; i++) { size_t const e = ZSTD_CCtx_setParameter(c, P->p[i], P->v[i]); if (ZSTD_isError(e)) return e; }
    return 0;
}
static size_t vp_apply_params(ZSTD_CCtx_params* c, const vparams* P)
{
    for (int i = 0; i < P->n; i++) { size_t const e = ZSTD_CCtxParams_setParameter(c, P->p[i], P->v[i]); if (ZSTD_isError(e)) return e; }
    return 0;
}

/* applied-parameter tracing (weak symbols in the library) */
static int vp_trace_on = 1;
static char vp_last_cell[160];
ZSTD_TraceCtx ZSTD_trace_compress_begin(struct ZSTD_CCtx_s const* cctx) { (void)cctx; return 1; }
void ZSTD_trace_compress_end(ZSTD_TraceCtx ctx, ZSTD_Trace const* t)
{
    (void)ctx;
    if (!vp_trace_on || !t->params) return;
    int strat = 0, row = 0, ldm = 0, split = 0, tcb = 0, lit = 0, wlog = 0, mm = 0, nbw = 0;
    ZSTD_CCtxParams_getParameter(t->params, ZSTD_c_strategy, &strat);
    ZSTD_CCtxParams_getParameter(t->params, ZSTD_c_useRowMatchFinder, &row);
    ZSTD_CCtxParams_getParameter(t->params, ZSTD_c_enableLongDistanceMatching, &ldm);
    ZSTD_CCtxParams_getParameter(t->params, ZSTD_c_useBlockSplitter, &split);
    ZSTD_CCtxParams_getParameter(t->params, ZSTD_c_targetCBlockSize, &tcb);
    ZSTD_CCtxParams_getParameter(t->params, ZSTD_c_literalCompressionMode, &lit);
    ZSTD_CCtxParams_getParameter(t->params, ZSTD_c_windowLog, &wlog);
    ZSTD_CCtxParams_getParameter(t->params, ZSTD_c_minMatch, &mm);
    ZSTD_CCtxParams_getParameter(t->params, ZSTD_c_nbWorkers, &nbw);
    snprintf(vp_last_cell, sizeof vp_last_cell, "s%d row%d ldm%d split%d tcb%d lit%d dict%d mt%d", strat, row, ldm == 1, split == 1, tcb != 0, lit, t->dictionaryID != 0 || t->dictionarySize != 0, nbw > 0);
    v_cell("applied", "%s", vp_last_cell);
    v_cell("applied_strategy_mm", "s%d mm%d", strat, mm);
    v_cell("applied_wlog", "%d", wlog);
}
#endif
