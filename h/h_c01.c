/* h_c01.c - C01: one-shot round trip for every input and parameter set.
 * Oracles: library decoder AND independent reference decoder R must regenerate exactly the input. */
#include "vparams.h"
#include "refdec.h"

static size_t g_maxSize;

enum { EP_COMPRESS, EP_COMPRESSCCTX, EP_COMPRESS2, EP_ADVANCED, EP_USINGDICT, EP_USINGCDICT, EP_USINGCDICT_ADV, EP_COMPRESS2_DICT, EP_NB };
static const char* const ep_name[EP_NB] = { "compress", "compressCCtx", "compress2", "compress_advanced", "compress_usingDict", "compress_usingCDict", "compress_usingCDict_advanced", "compress2+loadDictionary" };

static void run_case(long idx)
{
    vrng r = vr_make(V.seed, 101, (uint64_t)idx);
    int fam = (int)vr_u(&r, DF_NB);
    size_t n = pick_size(&r, g_maxSize);
    int ep = (int)vr_u(&r, EP_NB + 3); if (ep >= EP_NB) ep = EP_COMPRESS2;   /* compress2 carries the parameter space */
    /* stratum "sub-blocks": every 8th case is a multi-block input with targetCBlockSize on and data whose blocks mix
     * compressible and incompressible stretches (state carried from one block to the next: repcodes, entropy tables) */
    int const sbStratum = (idx % 8) == 7;
    if (sbStratum) { static const int fams[] = { DF_REPBAIT, DF_REPBAIT, DF_ISLANDS, DF_MIX, DF_LZ, DF_LONGREP, DF_SPARSE, DF_SPARSE }; fam = fams[vr_u(&r, 8)];
        ep = EP_COMPRESS2; size_t const two = (256u << 10) + 1 + vr_u(&r, 40000); n = two <= g_maxSize ? two + vr_u64(&r, g_maxSize - two + 1) : g_maxSize; }
    /* stratum "long literal run" (every 16th case): a literal run of 65534..65538 bytes inside a long repcode history, block splitter on in half of them */
    int const llStratum = (idx % 16) == 11;
    if (llStratum) { fam = DF_REPBAIT; ep = EP_COMPRESS2; n = V_MIN(g_maxSize, (size_t)(270000 + vr_u(&r, 30000))); v_repbait_force = 1; }
    gbuf src = gb_alloc(n, (int)vr_u(&r, 2));
    gen_data(&r, src.p, n, fam); v_repbait_force = 0;
    size_t const bound = ZSTD_compressBound(n);
    gbuf dst = gb_alloc(bound, (int)vr_u(&r, 2));
    /* dictionary (raw content) for the dict entry points */
    size_t dictLen = 0; uint8_t* dict = NULL;
    if (ep == EP_USINGDICT || ep == EP_USINGCDICT || ep == EP_USINGCDICT_ADV || ep == EP_COMPRESS2_DICT || (ep == EP_ADVANCED && vr_chance(&r, 1, 3))) {
        dictLen = vr_chance(&r, 1, 6) ? vr_u(&r, 9) : 1 + vr_u64(&r, 1 << 16);
        dict = (uint8_t*)malloc(dictLen + 1);
        if (n > 0 && vr_chance(&r, 2, 3)) { for (size_t i = 0; i < dictLen; i++) dict[i] = src.p[(i * 7 + idx) % n]; size_t c = V_MIN(dictLen, n); memcpy(dict + dictLen - c, src.p + vr_u64(&r, n - c + 1), c); }
        else gen_data(&r, dict, dictLen, fam);
        if (dictLen >= 4 && dict[0] == 0x37 && dict[1] == 0xA4 && dict[2] == 0x30 && dict[3] == 0xEC) dict[0] ^= 1; /* raw content only here; formatted dictionaries belong to C08 */
    }
    ZSTD_CCtx* const cctx = ZSTD_createCCtx();
    ZSTD_DCtx* const dctx = ZSTD_createDCtx();
    ZSTD_CDict* cdict = NULL;
    vparams P; memset(&P, 0, sizeof P);
    size_t csz = 0; int skipped = 0; int magicless = 0; int level = 3;
    if (!cctx || !dctx) { fprintf(stderr, "alloc failure\n"); exit(2); }
    vp_last_cell[0] = 0;
    switch (ep) {
    case EP_COMPRESS: level = (int)vr_range(&r, -5, vr_chance(&r, 1, 10) ? 22 : 19); if (level >= 20 && n > (1 << 20)) level = 19; csz = ZSTD_compress(dst.p, bound, src.p, n, level); break;
    case EP_COMPRESSCCTX: level = (int)vr_range(&r, -5, 19); csz = ZSTD_compressCCtx(cctx, dst.p, bound, src.p, n, level); break;
    case EP_USINGDICT: level = (int)vr_range(&r, -5, 19); csz = ZSTD_compress_usingDict(cctx, dst.p, bound, src.p, n, dict, dictLen, level); break;
    case EP_USINGCDICT: level = (int)vr_range(&r, -5, 19); cdict = ZSTD_createCDict(dict, dictLen, level); if (!cdict) { skipped = 1; break; } csz = ZSTD_compress_usingCDict(cctx, dst.p, bound, src.p, n, cdict); break;
    case EP_USINGCDICT_ADV: {
        level = (int)vr_range(&r, 1, 19);
        ZSTD_compressionParameters cp = ZSTD_getCParams(level, vr_chance(&r, 1, 2) ? n : 0, dictLen);
        cdict = ZSTD_createCDict_advanced(dict, dictLen, vr_chance(&r, 1, 2) ? ZSTD_dlm_byRef : ZSTD_dlm_byCopy, ZSTD_dct_rawContent, cp, ZSTD_defaultCMem);
        if (!cdict) { skipped = 1; break; }
        ZSTD_frameParameters fp; fp.contentSizeFlag = (int)vr_u(&r, 2); fp.checksumFlag = (int)vr_u(&r, 2); fp.noDictIDFlag = (int)vr_u(&r, 2);
        csz = ZSTD_compress_usingCDict_advanced(cctx, dst.p, bound, src.p, n, cdict, fp); break; }
    case EP_ADVANCED: {
        level = (int)vr_range(&r, -3, 19);
        ZSTD_parameters zp = ZSTD_getParams(level, n, dictLen);
        if (vr_chance(&r, 2, 3)) { zp.cParams.windowLog = (unsigned)vr_range(&r, 10, 22); zp.cParams.strategy = (ZSTD_strategy)vr_range(&r, 1, 9);
            zp.cParams.hashLog = (unsigned)vr_range(&r, 6, 22); zp.cParams.chainLog = (unsigned)vr_range(&r, 6, 22); zp.cParams.searchLog = (unsigned)vr_range(&r, 1, 7);
            zp.cParams.minMatch = (unsigned)vr_range(&r, 3, 7); zp.cParams.targetLength = (unsigned)vr_u(&r, 300); }
        zp.fParams.contentSizeFlag = (int)vr_u(&r, 2); zp.fParams.checksumFlag = (int)vr_u(&r, 2); zp.fParams.noDictIDFlag = (int)vr_u(&r, 2);
        if (ZSTD_isError(ZSTD_checkCParams(zp.cParams))) { skipped = 1; break; }
        csz = ZSTD_compress_advanced(cctx, dst.p, bound, src.p, n, dict, dictLen, zp); break; }
    case EP_COMPRESS2_DICT:
    case EP_COMPRESS2: default:
        vp_random(&r, &P, VP_MAGICLESS | (V.thorough ? VP_BIG : 0) | (n > (1u << 20) && vr_chance(&r, 1, 2) ? VP_MT : 0));
        if (llStratum && vr_chance(&r, 1, 2)) { vp_level_only(&P); if (vr_chance(&r, 1, 2)) { P.level = (int)vr_range(&r, 16, 19); P.p[0] = ZSTD_c_compressionLevel; P.v[0] = P.level; } vp_add(&P, ZSTD_c_useBlockSplitter, 1); vp_redesc(&P); }
        if (sbStratum && !P.targetCBlockSize) { P.targetCBlockSize = (int)vr_range(&r, 1340, vr_chance(&r, 1, 2) ? 4000 : 20000); vp_add(&P, ZSTD_c_targetCBlockSize, P.targetCBlockSize);
            size_t const o = strlen(P.desc); snprintf(P.desc + o, sizeof P.desc - o, ",%d=%d", (int)ZSTD_c_targetCBlockSize, P.targetCBlockSize); }
        if (P.windowLog > 24 && !vr_chance(&r, 1, 8)) { skipped = 1; break; }   /* keep the memory-hungry ones rare */
        if (ZSTD_isError(vp_apply(cctx, &P))) { skipped = 1; v_stat("params_rejected", 1); break; }
        magicless = P.magicless; level = P.level;
        if (ep == EP_COMPRESS2_DICT) { if (ZSTD_isError(ZSTD_CCtx_loadDictionary_advanced(cctx, dict, dictLen, ZSTD_dlm_byCopy, ZSTD_dct_rawContent))) { skipped = 1; break; } }
        csz = ZSTD_compress2(cctx, dst.p, bound, src.p, n); break;
    }
    v_stat("cases", 1);
    if (skipped) { v_stat("skipped", 1); goto done; }
    if (!gb_ok(&dst) || !gb_ok(&src)) v_viol("guard:canary-damaged-by-compress", "ep=%s n=%zu", ep_name[ep], n);
    if (ZSTD_isError(csz)) {
        /* at bound capacity the single-pass functions must succeed (also C06); memory errors with huge windows are the only excuse */
        if (ZSTD_getErrorCode(csz) == ZSTD_error_memory_allocation) { v_stat("memory_refusals", 1); goto done; }
        v_viol("compress-failed-at-bound-capacity", "ep=%s n=%zu fam=%s level=%d params=[%s] err=%s", ep_name[ep], n, v_df_name[fam], level, P.desc, ZSTD_getErrorName(csz));
        goto done;
    }
    if (csz > bound) { v_viol("compressed-size-exceeds-capacity", "ep=%s n=%zu csz=%zu", ep_name[ep], n, csz); goto done; }
    {   /* library decoder */
        gbuf out = gb_alloc(n, (int)vr_u(&r, 2));
        gbuf cin = gb_alloc(csz, (int)vr_u(&r, 2)); memcpy(cin.p, dst.p, csz);   /* exact-size source: over-reads fault */
        if (magicless) ZSTD_DCtx_setParameter(dctx, ZSTD_d_format, ZSTD_f_zstd1_magicless);
        ZSTD_DCtx_setParameter(dctx, ZSTD_d_windowLogMax, 30);
        size_t dsz;
        if (dict) { ZSTD_DCtx_loadDictionary_advanced(dctx, dict, dictLen, ZSTD_dlm_byRef, ZSTD_dct_rawContent); }
        dsz = ZSTD_decompressDCtx(dctx, out.p, n, cin.p, csz);
        if (ZSTD_isError(dsz)) v_viol("roundtrip:lib-decoder-rejects", "ep=%s n=%zu fam=%s level=%d params=[%s] err=%s", ep_name[ep], n, v_df_name[fam], level, P.desc, ZSTD_getErrorName(dsz));
        else if (dsz != n || (n && memcmp(out.p, src.p, n))) v_viol("roundtrip:lib-decoder-mismatch", "ep=%s n=%zu dsz=%zu fam=%s level=%d params=[%s]", ep_name[ep], n, dsz, v_df_name[fam], level, P.desc);
        if (!gb_ok(&out) || !gb_ok(&cin)) v_viol("guard:canary-damaged-by-decompress", "ep=%s n=%zu", ep_name[ep], n);
        /* reference decoder */
        refdec_info_t I; memset(&I, 0, sizeof I); I.magicless = magicless; I.keep_blocks = 1;
        refdec_dict_t* rd = dict ? refdec_dict_create(dict, dictLen, 1) : NULL;
        memset(out.p, 0xA5, n);
        if (!refdec_decode(out.p, n, cin.p, csz, rd, &I, 0)) v_viol("roundtrip:R-rejects", "ep=%s n=%zu fam=%s level=%d params=[%s] R=%s at %zu", ep_name[ep], n, v_df_name[fam], level, P.desc, I.err ? I.err : "?", I.err_src_off);
        else if (I.out_size != n || I.consumed != csz || (n && memcmp(out.p, src.p, n))) v_viol("roundtrip:R-mismatch", "ep=%s n=%zu R.out=%zu consumed=%zu/%zu fam=%s level=%d params=[%s]", ep_name[ep], n, I.out_size, I.consumed, csz, v_df_name[fam], level, P.desc);
        else {
            size_t nseq = 0, ncomp = 0, nraw = 0, nrle = 0;
            for (size_t b = 0; b < I.nb_blocks; b++) { refdec_block_t* B = &I.blocks[b]; if (B->type == 2) { ncomp++; nseq += B->nb_seq; v_cell("lit_type", "%d/%d", B->lit_type, B->lit_streams); if (B->nb_seq) v_cell("seq_modes", "%02x", B->seq_modes); if (B->nb_long_len) v_stat("blocks_with_long_lengths", 1); } else if (B->type == 0) nraw++; else nrle++; }
            v_stat("blocks_compressed", (long)ncomp); v_stat("blocks_raw", (long)nraw); v_stat("blocks_rle", (long)nrle); v_stat("sequences", (long)nseq);
            v_stat("roundtrips_ok", 1); v_stat("bytes_in", (long)n);
            if (nseq) { v_stat("cases_with_sequences", 1); v_cell("nontrivial", "%s|%s|%s", ep_name[ep], vp_last_cell[0] ? vp_last_cell : "-", v_df_name[fam]); }
            if (I.nb_frames && I.frames[0].dict_refs) v_stat("frames_referencing_dict", 1);
            v_cell("ep", "%s", ep_name[ep]);
        }
        v_sample("ep=%s n=%zu fam=%s level=%d params=[%s] csz=%zu blocks=%zu", ep_name[ep], n, v_df_name[fam], level, P.desc, csz, I.nb_blocks);
        refdec_info_free(&I); refdec_dict_free(rd);
        gb_free(&out); gb_free(&cin);
    }
done:
    ZSTD_freeCDict(cdict); ZSTD_freeCCtx(cctx); ZSTD_freeDCtx(dctx); free(dict);
    gb_free(&src); gb_free(&dst);
}

int main(int argc, char** argv)
{
    v_init(argc, argv);
    g_maxSize = (size_t)v_opt_long("maxsize", V.thorough ? (8 << 20) : (300 << 10));
    for (long i = V.from; i < V.to; i++) { v_case(i); v_budget(600); run_case(i); }
    return v_finish();
}
