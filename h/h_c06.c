/* h_c06.c - C06: capacity discipline and size bounds.
 * Exact-size guard-paged buffers for dst and src; capacity sweep chosen from the frame structure R reports. */
#include "vparams.h"
#include "refdec.h"

static size_t g_maxSize;
enum { EP_COMPRESS2, EP_COMPRESSCCTX, EP_USINGCDICT, EP_SEQUENCES, EP_STREAM_END, EP_COMPRESS2_MT, EP_NB };
static const char* const ep_name[EP_NB] = { "compress2", "compressCCtx", "compress_usingCDict", "compressSequences", "compressStream2(end)", "compress2-MT" };

typedef struct {
    int ep; const uint8_t* src; size_t n; vparams P; int level; ZSTD_CDict* cdict; const uint8_t* dict; size_t dictLen;
    ZSTD_Sequence* seqs; size_t nbSeqs; size_t extraBlocks;
} cjob;

/* one compression into a buffer of exactly `cap` bytes; returns zstd result (for the streaming ep: total produced, or error) */
static size_t compress_into(const cjob* J, ZSTD_CCtx* cctx, uint8_t* dst, size_t cap, int* streamIncomplete)
{
    *streamIncomplete = 0;
    ZSTD_CCtx_reset(cctx, ZSTD_reset_session_and_parameters);
    switch (J->ep) {
    case EP_COMPRESSCCTX: return ZSTD_compressCCtx(cctx, dst, cap, J->src, J->n, J->level);
    case EP_USINGCDICT: return ZSTD_compress_usingCDict(cctx, dst, cap, J->src, J->n, J->cdict);
    case EP_SEQUENCES:
        if (ZSTD_isError(vp_apply(cctx, &J->P))) return (size_t)-ZSTD_error_parameter_unsupported;
        ZSTD_CCtx_setParameter(cctx, ZSTD_c_blockDelimiters, ZSTD_sf_explicitBlockDelimiters);
        ZSTD_CCtx_setParameter(cctx, ZSTD_c_validateSequences, 1);
        return ZSTD_compressSequences(cctx, dst, cap, J->seqs, J->nbSeqs, J->src, J->n);
    case EP_STREAM_END: {
        if (ZSTD_isError(vp_apply(cctx, &J->P))) return (size_t)-ZSTD_error_parameter_unsupported;
        ZSTD_inBuffer in = { J->src, J->n, 0 }; ZSTD_outBuffer out = { dst, cap, 0 };
        size_t const r = ZSTD_compressStream2(cctx, &out, &in, ZSTD_e_end);
        if (ZSTD_isError(r)) return r;
        if (out.pos > cap) return out.pos;   /* caller reports */
        if (r != 0) *streamIncomplete = 1;
        return out.pos; }
    default:
        if (ZSTD_isError(vp_apply(cctx, &J->P))) return (size_t)-ZSTD_error_parameter_unsupported;
        return ZSTD_compress2(cctx, dst, cap, J->src, J->n);
    }
}

static int cmp_sz(const void* a, const void* b) { size_t x = *(const size_t*)a, y = *(const size_t*)b; return x < y ? -1 : x > y; }

static void run_case(long idx)
{
    vrng r = vr_make(V.seed, 106, (uint64_t)idx);
    int fam = (int)vr_u(&r, DF_NB); if (vr_chance(&r, 1, 3)) fam = vr_chance(&r, 1, 2) ? DF_RANDOM : DF_ISLANDS;   /* emphasise incompressible / splitter-fooling */
    int const giantStratum = vr_chance(&r, 1, 12);      /* blocks whose match-length table description holds a long run of zero-probability symbols (short matches + one giant match) */
    if (giantStratum) fam = DF_SPARSE;
    size_t const n = giantStratum ? V_MIN(g_maxSize, (size_t)(90000 + vr_u(&r, 110000))) : pick_size(&r, g_maxSize);
    v_sparse_giant_force = giantStratum;
    cjob J; memset(&J, 0, sizeof J);
    J.ep = (int)vr_u(&r, EP_NB); if (J.ep == EP_COMPRESS2_MT && n < 600000) J.ep = EP_COMPRESS2;
    gbuf src = gb_alloc(n, 0); gen_data(&r, src.p, n, fam); v_sparse_giant_force = 0; if (giantStratum) v_stat("giant_match_stratum_inputs", 1);
    J.src = src.p; J.n = n; J.level = (int)vr_range(&r, -3, 12);
    uint8_t* dict = NULL;
    vp_random(&r, &J.P, (J.ep == EP_COMPRESS2_MT ? VP_MT : 0) | VP_MAGICLESS);
    if (J.ep == EP_COMPRESS2_MT) { vp_add(&J.P, ZSTD_c_nbWorkers, 1 + (int)vr_u(&r, 3)); vp_add(&J.P, ZSTD_c_jobSize, 1); J.P.nbWorkers = 1; }
    if (J.P.windowLog > 21) J.P.windowLog = 0;
    if (vr_chance(&r, 1, 3) && J.ep != EP_SEQUENCES) { J.P.targetCBlockSize = (int)vr_range(&r, 1340, 6000); vp_add(&J.P, ZSTD_c_targetCBlockSize, J.P.targetCBlockSize); }
    if (J.ep == EP_USINGCDICT) { J.dictLen = 1 + vr_u(&r, 30000); dict = (uint8_t*)malloc(J.dictLen); gen_data(&r, dict, J.dictLen, fam); if (n) memcpy(dict, src.p, V_MIN(n, J.dictLen)); J.dict = dict;
        J.cdict = ZSTD_createCDict_advanced(dict, J.dictLen, ZSTD_dlm_byRef, ZSTD_dct_rawContent, ZSTD_getCParams(J.level, 0, J.dictLen), ZSTD_defaultCMem); }
    ZSTD_CCtx* const cctx = ZSTD_createCCtx(); ZSTD_DCtx* const dctx = ZSTD_createDCtx();
    if (J.ep == EP_SEQUENCES) {
        J.seqs = (ZSTD_Sequence*)malloc(ZSTD_sequenceBound(n) * sizeof(ZSTD_Sequence));
        ZSTD_CCtx* g = ZSTD_createCCtx();     /* separate context for extraction */
        /* extraction must use the parameters of the target context: a parse is valid for the context it is given to */
        vparams Q = J.P;
        if (ZSTD_isError(vp_apply(g, &Q))) { ZSTD_freeCCtx(g); goto done; }
        J.nbSeqs = ZSTD_generateSequences(g, J.seqs, ZSTD_sequenceBound(n), src.p, n);
        ZSTD_freeCCtx(g);
        if (ZSTD_isError(J.nbSeqs)) { v_stat("skipped", 1); goto done; }
        if (vr_chance(&r, 1, 2) && J.nbSeqs) {   /* caller-chosen partition: extra delimiters cut tiny blocks (0..9 literal bytes) and odd small ones out of literal runs */
            size_t const maxExtra = 1 + vr_u(&r, 40); ZSTD_Sequence* q = (ZSTD_Sequence*)malloc((J.nbSeqs + maxExtra + 2) * sizeof(ZSTD_Sequence)); size_t nq = 0; uint32_t const rate = 1 + vr_u(&r, 30);
            for (size_t i = 0; i < J.nbSeqs; i++) { ZSTD_Sequence sq = J.seqs[i];
                if (J.extraBlocks < maxExtra && vr_u(&r, rate) == 0) { uint32_t k = vr_chance(&r, 3, 4) ? vr_u(&r, 10) : vr_u(&r, 300); if (k > sq.litLength) k = sq.litLength; q[nq].offset = 0; q[nq].matchLength = 0; q[nq].rep = 0; q[nq].litLength = k; nq++; sq.litLength -= k; J.extraBlocks++; }
                q[nq++] = sq; }
            free(J.seqs); J.seqs = q; J.nbSeqs = nq; v_stat("sequence_jobs_with_caller_partition", 1); }
    }
    size_t const bound = ZSTD_compressBound(n) + J.extraBlocks * 4 + (J.extraBlocks ? 64 : 0);      /* every extra block of a caller-chosen partition costs a block header: not covered by compressBound */
    v_stat("inputs", 1);
    /* reference run at bound */
    size_t refSize; int incomplete;
    size_t caps[420]; int nc = 0;
    {   gbuf ref = gb_alloc(bound, 0);
        refSize = compress_into(&J, cctx, ref.p, bound, &incomplete);
        if (ZSTD_isError(refSize)) {
            ZSTD_ErrorCode const ec = ZSTD_getErrorCode(refSize);
            if (ec == ZSTD_error_parameter_unsupported || ec == ZSTD_error_parameter_outOfBound || ec == ZSTD_error_parameter_combination_unsupported) { v_stat("skipped", 1); gb_free(&ref); goto done; }
            if (J.ep == EP_SEQUENCES && ec == ZSTD_error_externalSequences_invalid) { v_stat("skipped", 1); gb_free(&ref); goto done; }
            v_viol("compress:fails-at-compressBound", "ep=%s n=%zu fam=%s params=[%s] level=%d err=%s", ep_name[J.ep], n, v_df_name[fam], J.P.desc, J.level, ZSTD_getErrorName(refSize));
            gb_free(&ref); goto done;
        }
        if (incomplete) v_viol("compress:stream-end-incomplete-at-compressBound", "ep=%s n=%zu params=[%s]", ep_name[J.ep], n, J.P.desc);
        /* structure from R */
        refdec_info_t I; memset(&I, 0, sizeof I); I.magicless = J.P.magicless && J.ep != EP_COMPRESSCCTX && J.ep != EP_USINGCDICT; I.keep_blocks = 1;
        uint8_t* tmp = (uint8_t*)malloc(n + 1);
        refdec_dict_t* rd = J.dict ? refdec_dict_create(J.dict, J.dictLen, 1) : NULL;
        for (size_t c = 0; c <= 20; c++) caps[nc++] = c;
        if (refdec_decode(tmp, n, ref.p, refSize, rd, &I, 0)) {
            size_t const step = I.nb_blocks > 12 ? I.nb_blocks / 12 : 1;
            if (I.nb_frames) { size_t h = I.frames[0].header_size; caps[nc++] = h; caps[nc++] = h + 1; caps[nc++] = h + 2; caps[nc++] = h + 3; caps[nc++] = h + 4; }
            for (size_t b = 0; b < I.nb_blocks && nc < 100; b += step) { size_t e = I.blocks[b].src_off + 3 + I.blocks[b].csize; caps[nc++] = e; caps[nc++] = e + 1; caps[nc++] = e > 0 ? e - 1 : 0; caps[nc++] = e + 2; if (e >= 2) caps[nc++] = e - 2; caps[nc++] = I.blocks[b].src_off + 3; }
            /* dense window: every capacity across the sequence-section header and table descriptions of one compressed block (where the entropy-table writers run) */
            {   size_t cand[64]; int ncand = 0; for (size_t b = 0; b < I.nb_blocks && ncand < 64; b++) if (I.blocks[b].type == 2 && I.blocks[b].nb_seq && I.blocks[b].seq_tables_size) cand[ncand++] = b;
                if (ncand) { const refdec_block_t* B = &I.blocks[cand[vr_u(&r, (uint32_t)ncand)]]; size_t const e = B->src_off + 3 + B->csize; size_t const tabStart = e - B->seq_bitstream_size - B->seq_tables_size;
                    size_t const lo = tabStart > 8 ? tabStart - 8 : 0; size_t hi = tabStart + B->seq_tables_size + 12; if (hi - lo > 300) hi = lo + 300;
                    for (size_t c = lo; c <= hi && nc < 400; c++) caps[nc++] = c; v_stat("dense_windows_over_table_descriptions", 1); v_statmax("longest_table_description", (long)B->seq_tables_size); } }
            v_stat("ref_blocks", (long)I.nb_blocks);
        } else v_viol("compress:R-rejects-reference-frame", "ep=%s n=%zu params=[%s] R=%s", ep_name[J.ep], n, J.P.desc, I.err ? I.err : "?");
        refdec_info_free(&I); refdec_dict_free(rd); free(tmp);
        for (int d = -3; d <= 3; d++) if ((long)refSize + d >= 0) caps[nc++] = (size_t)((long)refSize + d);
        caps[nc++] = bound > 0 ? bound - 1 : 0; caps[nc++] = bound; caps[nc++] = bound + 1;
        for (int k = 0; k < 4; k++) caps[nc++] = vr_u64(&r, bound + 2);
        gb_free(&ref);
    }
    qsort(caps, (size_t)nc, sizeof(size_t), cmp_sz);
    {   int m = 0; for (int i = 0; i < nc; i++) if (i == 0 || caps[i] != caps[i - 1]) caps[m++] = caps[i]; nc = m; }
    gbuf out = gb_alloc(n, 0);
    for (int i = 0; i < nc; i++) {
        size_t const c = caps[i];
        gbuf dst = gb_alloc(c, (int)(vr_u(&r, 4) == 0));       /* mostly end-aligned: a write past dst+c faults */
        size_t const cs = compress_into(&J, cctx, dst.p, c, &incomplete);
        v_stat("compress_capacity_runs", 1);
        if (!gb_ok(&dst)) v_viol("compress:write-outside-dst(canary)", "ep=%s n=%zu cap=%zu params=[%s]", ep_name[J.ep], n, c, J.P.desc);
        if (!ZSTD_isError(cs) && cs > c) v_viol("compress:returned-size-exceeds-capacity", "ep=%s n=%zu cap=%zu ret=%zu", ep_name[J.ep], n, c, cs);
        else if (ZSTD_isError(cs)) {
            v_stat("compress_errors", 1);
            if (c >= bound) v_viol("compress:fails-at-or-above-compressBound", "ep=%s n=%zu cap=%zu bound=%zu params=[%s] err=%s", ep_name[J.ep], n, c, bound, J.P.desc, ZSTD_getErrorName(cs));
            v_cell("capclass", "%s|%s|error", ep_name[J.ep], c < 21 ? "tiny" : c < refSize ? "below-ref" : c < bound ? "ref..bound" : ">=bound");
        } else if (incomplete) {
            v_stat("stream_incomplete", 1);
            if (c >= bound) v_viol("compress:stream-end-incomplete-at-or-above-compressBound", "ep=%s n=%zu cap=%zu", ep_name[J.ep], n, c);
        } else {
            /* success at this capacity: output must decode to x */
            int const ml = J.P.magicless && J.ep != EP_COMPRESSCCTX && J.ep != EP_USINGCDICT;
            ZSTD_DCtx_reset(dctx, ZSTD_reset_session_and_parameters); ZSTD_DCtx_setParameter(dctx, ZSTD_d_windowLogMax, 30);
            if (ml) ZSTD_DCtx_setParameter(dctx, ZSTD_d_format, ZSTD_f_zstd1_magicless);
            if (J.dict) ZSTD_DCtx_loadDictionary_advanced(dctx, J.dict, J.dictLen, ZSTD_dlm_byRef, ZSTD_dct_rawContent);
            size_t const d = ZSTD_decompressDCtx(dctx, out.p, n, dst.p, cs);
            if (ZSTD_isError(d) || d != n || (n && memcmp(out.p, src.p, n))) v_viol("compress:success-at-small-capacity-does-not-decode", "ep=%s n=%zu cap=%zu csz=%zu ref=%zu params=[%s] : %s", ep_name[J.ep], n, c, cs, refSize, J.P.desc, ZSTD_isError(d) ? ZSTD_getErrorName(d) : "mismatch");
            v_stat("compress_success", 1); if (cs != refSize) v_stat("success_with_different_size_than_reference(fallback)", 1);
            v_cell("capclass", "%s|%s|ok", ep_name[J.ep], c < refSize ? "below-ref" : c < bound ? "ref..bound" : ">=bound");
        }
        gb_free(&dst);
    }
    gb_free(&out);
    v_sample("compress side: ep=%s n=%zu fam=%s params=[%s] ref=%zu bound=%zu capacities=%d (first %zu last %zu)", ep_name[J.ep], n, v_df_name[fam], J.P.desc, refSize, bound, nc, caps[0], caps[nc - 1]);
done:
    ZSTD_freeCDict(J.cdict); ZSTD_freeCCtx(cctx); ZSTD_freeDCtx(dctx); free(dict); free(J.seqs); gb_free(&src);
}

/* ---------------- decode side + inspectors: case stream 2 */
static void run_dcase(long idx)
{
    vrng r = vr_make(V.seed, 206, (uint64_t)idx);
    int const nframes = 1 + (int)vr_u(&r, 3);
    size_t total = 0, ctotal = 0; size_t ns[4], cs[4];
    uint8_t* content = (uint8_t*)malloc(4 * g_maxSize + 16); uint8_t* comp = (uint8_t*)malloc(4 * ZSTD_compressBound(g_maxSize) + 1024);
    int anyUnknown = 0; int skipFrames = 0;
    ZSTD_CCtx* cctx = ZSTD_createCCtx();
    size_t margin_ok = 1;
    for (int f = 0; f < nframes; f++) {
        int const fam = (int)vr_u(&r, DF_NB); size_t const n = pick_size(&r, g_maxSize);
        gen_data(&r, content + total, n, fam);
        vparams P; vp_random(&r, &P, 0); ZSTD_CCtx_reset(cctx, ZSTD_reset_session_and_parameters);
        if (P.windowLog > 21) vp_level_only(&P);
        if (ZSTD_isError(vp_apply(cctx, &P))) { ZSTD_CCtx_reset(cctx, ZSTD_reset_session_and_parameters); }
        size_t c;
        if (vr_chance(&r, 1, 3)) { /* streaming: no content size in header */
            ZSTD_inBuffer in = { content + total, n, 0 }; ZSTD_outBuffer out = { comp + ctotal, ZSTD_compressBound(n) + 64, 0 };
            size_t rr = ZSTD_compressStream2(cctx, &out, &in, ZSTD_e_continue); while (!ZSTD_isError(rr) && (rr = ZSTD_compressStream2(cctx, &out, &in, ZSTD_e_end)) != 0 && !ZSTD_isError(rr)) {}
            c = ZSTD_isError(rr) ? rr : out.pos; anyUnknown = 1;
        } else { c = ZSTD_compress2(cctx, comp + ctotal, ZSTD_compressBound(n), content + total, n); if (!P.contentSize) anyUnknown = 1; }
        if (ZSTD_isError(c)) { v_stat("dskipped", 1); goto out; }
        ns[f] = n; cs[f] = c; total += n; ctotal += c;
        if (vr_chance(&r, 1, 4)) { size_t sl = vr_u(&r, 300); uint8_t sk[300]; vr_fill(&r, sk, sl); size_t w = ZSTD_writeSkippableFrame(comp + ctotal, 400, sk, sl, vr_u(&r, 16)); if (!ZSTD_isError(w)) { ctotal += w; skipFrames++; } }
    }
    v_stat("dcases", 1);
    {   gbuf in = gb_alloc(ctotal, 0); memcpy(in.p, comp, ctotal);
        /* inspectors */
        size_t const f0 = ZSTD_findFrameCompressedSize(in.p, ctotal);
        if (ZSTD_isError(f0) || f0 != cs[0]) v_viol("inspect:findFrameCompressedSize-wrong", "got %zu want %zu", f0, cs[0]);
        unsigned long long const db = ZSTD_decompressBound(in.p, ctotal);
        if (db == ZSTD_CONTENTSIZE_ERROR || db < total) v_viol("inspect:decompressBound-below-actual", "bound=%llu actual=%zu frames=%d", db, total, nframes);
        unsigned long long const fds = ZSTD_findDecompressedSize(in.p, ctotal);
        if (!anyUnknown) { if (fds != total) v_viol("inspect:findDecompressedSize-wrong", "got %llu want %zu", fds, total); }
        else if (fds != ZSTD_CONTENTSIZE_UNKNOWN && fds != total) v_viol("inspect:findDecompressedSize-wrong", "got %llu want %zu or UNKNOWN", fds, total);
        unsigned long long const gcs = ZSTD_getFrameContentSize(in.p, ctotal);
        if (gcs != ZSTD_CONTENTSIZE_UNKNOWN && gcs != ns[0]) v_viol("inspect:getFrameContentSize-wrong", "got %llu want %zu", gcs, ns[0]);
        v_stat("inspector_checks", 4);
        /* capacity sweep on one-shot decode of the whole concatenation */
        size_t caps[16]; int nc = 0; caps[nc++] = 0; caps[nc++] = 1; if (total > 0) caps[nc++] = total - 1; caps[nc++] = total; caps[nc++] = total + 1; caps[nc++] = total + 70000;
        if (total > 3) caps[nc++] = total - 3; caps[nc++] = ns[0]; if (ns[0]) caps[nc++] = ns[0] - 1; caps[nc++] = vr_u64(&r, total + 1); caps[nc++] = (total > (128u << 10)) ? (128u << 10) + vr_u(&r, 3) - 1 : total / 2;
        ZSTD_DCtx* d = ZSTD_createDCtx();
        for (int i = 0; i < nc; i++) {
            size_t const c = caps[i]; gbuf out = gb_alloc(c, (int)(vr_u(&r, 3) == 0));
            size_t const rr = ZSTD_decompressDCtx(d, out.p, c, in.p, ctotal);
            v_stat("decode_capacity_runs", 1);
            if (!gb_ok(&out)) v_viol("decode:write-outside-dst(canary)", "cap=%zu total=%zu", c, total);
            if (!ZSTD_isError(rr) && rr > c) v_viol("decode:returned-size-exceeds-capacity", "cap=%zu ret=%zu", c, rr);
            if (c < total && !ZSTD_isError(rr)) v_viol("decode:success-with-capacity-below-content", "cap=%zu total=%zu ret=%zu", c, total, rr);
            if (c >= total) { if (ZSTD_isError(rr)) v_viol("decode:fails-with-sufficient-capacity", "cap=%zu total=%zu err=%s", c, total, ZSTD_getErrorName(rr)); else if (rr != total || memcmp(out.p, content, total)) v_viol("decode:wrong-output", "cap=%zu total=%zu ret=%zu", c, total, rr); }
            v_cell("dcapclass", "%s|%s", c < total ? "below" : c == total ? "exact" : "above", ZSTD_isError(rr) ? "error" : "ok");
            gb_free(&out);
        }
        /* in-place decoding with the advertised margin */
        {   size_t const margin = ZSTD_decompressionMargin(in.p, ctotal);
            if (ZSTD_isError(margin)) v_viol("inplace:decompressionMargin-fails-on-valid-frames", "%s", ZSTD_getErrorName(margin));
            else { gbuf buf = gb_alloc(total + margin, 0);
                uint8_t* const ip = buf.p + buf.size - ctotal; memcpy(ip, comp, ctotal);
                size_t const rr = ZSTD_decompressDCtx(d, buf.p, buf.size, ip, ctotal);
                if (ZSTD_isError(rr) || rr != total || memcmp(buf.p, content, total)) v_viol("inplace:decode-with-advertised-margin-fails", "total=%zu csize=%zu margin=%zu : %s", total, ctotal, margin, ZSTD_isError(rr) ? ZSTD_getErrorName(rr) : "mismatch");
                if (!gb_ok(&buf)) v_viol("inplace:write-outside-buffer", "total=%zu", total);
                v_stat("inplace_runs", 1); gb_free(&buf); } }
        /* invalid frames, any capacity: error or n <= c, nothing outside dst (shared with C03) */
        for (int m = 0; m < 6; m++) {
            size_t const c = vr_chance(&r, 1, 2) ? vr_u64(&r, total + 100) : total;
            gbuf bad = gb_alloc(ctotal, 0); memcpy(bad.p, comp, ctotal);
            int flips = 1 + (int)vr_u(&r, 3); while (flips-- && ctotal) bad.p[vr_u64(&r, ctotal)] ^= (uint8_t)(1u << vr_u(&r, 8));
            gbuf out = gb_alloc(c, 0);
            size_t const rr = ZSTD_decompressDCtx(d, out.p, c, bad.p, ctotal);
            if (!ZSTD_isError(rr) && rr > c) v_viol("decode:returned-size-exceeds-capacity(invalid-frame)", "cap=%zu ret=%zu", c, rr);
            if (!gb_ok(&out)) v_viol("decode:write-outside-dst(canary,invalid-frame)", "cap=%zu", c);
            v_stat("invalid_frame_runs", 1);
            gb_free(&bad); gb_free(&out);
        }
        ZSTD_freeDCtx(d); gb_free(&in);
        v_sample("decode side: %d frame(s) total=%zu compressed=%zu anyUnknownSize=%d", nframes, total, ctotal, anyUnknown);
    }
    (void)skipFrames; (void)margin_ok;
out:
    ZSTD_freeCCtx(cctx); free(content); free(comp);
}

/* side 2: dense capacity sweep (EVERY capacity 0 .. N+40) over small frames: the legacy frames of tests/legacy.c (one per supported version) and small modern frames;
 * one-shot into guard-paged exact-size destinations (both alignments) and streaming with the same total room */
extern const char* const COMPRESSED; extern size_t const COMPRESSED_SIZE;
static void run_lcase(long idx)
{
    vrng r = vr_make(V.seed, 306, (uint64_t)idx);
    const uint8_t* b = (const uint8_t*)COMPRESSED; size_t starts[40]; int nsf = 0;
    for (size_t i = 0; i + 4 <= COMPRESSED_SIZE && nsf < 39; i++) if (b[i + 1] == 0xB5 && b[i + 2] == 0x2F && b[i + 3] == 0xFD && b[i] >= 0x25 && b[i] <= 0x28) starts[nsf++] = i;
    starts[nsf] = COMPRESSED_SIZE; if (!nsf) return;
    uint8_t* frame; size_t fs; const char* kind; uint8_t tmp[4096];
    if (idx % 2 == 0) { int const k = (int)((idx / 2) % nsf); frame = (uint8_t*)b + starts[k]; fs = starts[k + 1] - starts[k]; kind = b[starts[k]] == 0x28 ? "modern(legacy.c)" : b[starts[k]] == 0x27 ? "v0.7" : b[starts[k]] == 0x26 ? "v0.6" : "v0.5"; }
    else { uint8_t x[700]; size_t const n = 1 + vr_u(&r, 600); gen_data(&r, x, n, (int)vr_u(&r, DF_NB)); ZSTD_CCtx* c = ZSTD_createCCtx(); ZSTD_CCtx_setParameter(c, ZSTD_c_compressionLevel, (int)vr_range(&r, 1, 19)); ZSTD_CCtx_setParameter(c, ZSTD_c_minMatch, 3); ZSTD_CCtx_setParameter(c, ZSTD_c_checksumFlag, (int)vr_u(&r, 2));
        fs = ZSTD_compress2(c, tmp, sizeof tmp, x, n); ZSTD_freeCCtx(c); if (ZSTD_isError(fs)) return; frame = tmp; kind = "modern-small"; }
    gbuf in = gb_alloc(fs, 0); memcpy(in.p, frame, fs);
    uint8_t ref[8192]; size_t const N = ZSTD_decompress(ref, sizeof ref, in.p, fs);
    if (ZSTD_isError(N)) { v_viol("dense:valid-small-frame-rejected", "kind=%s: %s", kind, ZSTD_getErrorName(N)); gb_free(&in); return; }
    ZSTD_DCtx* d = ZSTD_createDCtx();
    for (size_t c = 0; c <= N + 40; c++) for (int mode = 0; mode < 2; mode++) {
        gbuf out = gb_alloc(c, mode);
        size_t const rr = ZSTD_decompressDCtx(d, out.p, c, in.p, fs);
        if (!gb_ok(&out)) v_viol("decode:write-outside-dst(canary)", "dense sweep kind=%s cap=%zu content=%zu", kind, c, N);
        if (!ZSTD_isError(rr) && rr > c) v_viol("decode:returned-size-exceeds-capacity", "dense sweep kind=%s cap=%zu ret=%zu", kind, c, rr);
        if (c < N && !ZSTD_isError(rr)) v_viol("decode:success-with-capacity-below-content", "dense sweep kind=%s cap=%zu content=%zu", kind, c, N);
        if (c >= N && (ZSTD_isError(rr) || rr != N || memcmp(out.p, ref, N))) v_viol("decode:fails-with-sufficient-capacity", "dense sweep kind=%s cap=%zu content=%zu", kind, c, N);
        if (mode == 0) {   /* streaming with the same total room, input in small slices */
            ZSTD_DCtx_reset(d, ZSTD_reset_session_only); ZSTD_inBuffer ib = { in.p, 0, 0 }; ZSTD_outBuffer ob = { out.p, c, 0 }; size_t const step = 1 + vr_u(&r, 9); size_t ret = 1; int g = 0;
            while (!ZSTD_isError(ret) && ret != 0 && ++g < 20000) { size_t const ip0 = ib.pos, op0 = ob.pos; if (ib.pos == ib.size) ib.size = V_MIN(fs, ib.size + step); ret = ZSTD_decompressStream(d, &ob, &ib); if (!ZSTD_isError(ret) && ib.pos == ip0 && ob.pos == op0 && ib.size == fs) break; }
            if (!gb_ok(&out)) v_viol("decode:write-outside-dst(canary)", "dense sweep (streaming) kind=%s cap=%zu content=%zu", kind, c, N);
            if (ob.pos > c) v_viol("decode:returned-size-exceeds-capacity", "dense sweep (streaming) kind=%s", kind);
            if (!ZSTD_isError(ret) && ret == 0 && (ob.pos != N || memcmp(out.p, ref, N))) v_viol("decode:wrong-output", "dense sweep (streaming) kind=%s cap=%zu", kind, c);
            ZSTD_DCtx_reset(d, ZSTD_reset_session_only); }
        v_stat("decode_capacity_runs", 1); v_stat("dense_sweep_runs", 1);
        gb_free(&out); }
    /* the skippable-frame writer and reader, every capacity 0 .. payload+12 */
    {   size_t const pl = vr_u(&r, 41); uint8_t pay[48]; vr_fill(&r, pay, pl);
        for (size_t c = 0; c <= pl + 12; c++) { gbuf w = gb_alloc(c, (int)(c & 1)); size_t const wr = ZSTD_writeSkippableFrame(w.p, c, pay, pl, (unsigned)vr_u(&r, 16));
            if (!gb_ok(&w)) v_viol("compress:write-outside-dst(canary)", "ZSTD_writeSkippableFrame payload=%zu cap=%zu", pl, c);
            if (!ZSTD_isError(wr) && wr > c) v_viol("compress:returned-size-exceeds-capacity", "ZSTD_writeSkippableFrame payload=%zu cap=%zu ret=%zu", pl, c, wr);
            if (c >= pl + 8 && (ZSTD_isError(wr) || wr != pl + 8)) v_viol("compress:fails-at-or-above-compressBound", "ZSTD_writeSkippableFrame payload=%zu cap=%zu", pl, c);
            if (!ZSTD_isError(wr) && wr <= c) { for (size_t rc = 0; rc <= pl + 4; rc++) { gbuf o = gb_alloc(rc, 0); unsigned mv = 0; size_t const rd = ZSTD_readSkippableFrame(o.p, rc, &mv, w.p, wr);
                    if (!gb_ok(&o)) v_viol("decode:write-outside-dst(canary)", "ZSTD_readSkippableFrame payload=%zu cap=%zu", pl, rc);
                    if (!ZSTD_isError(rd) && (rd > rc || rd != pl || memcmp(o.p, pay, pl))) v_viol("decode:wrong-output", "ZSTD_readSkippableFrame payload=%zu cap=%zu ret=%zu", pl, rc, rd);
                    if (rc >= pl && ZSTD_isError(rd)) v_viol("decode:fails-with-sufficient-capacity", "ZSTD_readSkippableFrame payload=%zu cap=%zu", pl, rc); gb_free(&o); } }
            v_stat("skippable_capacity_runs", 1); gb_free(&w); } }
    v_cell("dense_kind", "%s", kind); v_stat("dense_frames", 1);
    v_sample("dense capacity sweep: kind=%s frame=%zu bytes content=%zu capacities 0..%zu", kind, fs, N, N + 40);
    ZSTD_freeDCtx(d); gb_free(&in);
}

int main(int argc, char** argv)
{
    v_init(argc, argv);
    g_maxSize = (size_t)v_opt_long("maxsize", V.thorough ? (1 << 20) : (200 << 10));
    int const side = (int)v_opt_long("side", 0);
    for (long i = V.from; i < V.to; i++) { v_case(i); v_budget(900); if (side == 0) run_case(i); else if (side == 1) run_dcase(i); else run_lcase(i); }
    return v_finish();
}
