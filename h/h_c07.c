/* h_c07.c - C07: compressed output is a pure function of input, parameters, dictionary and calls.
 * Paired executions differing in exactly one irrelevant thing; byte compare against a fresh-context, zero-filled-heap reference.
 * On a difference the two frames are parsed with R and the divergence is classified (header / block boundaries / same boundaries). */
#include "vhist.h"
#include "refdec.h"
#include <pthread.h>

static size_t g_maxSize;

/* allocator that fills fresh memory with a pattern */
static int g_fill = 0; static uint64_t g_noise = 88172645463325252ULL; static pthread_mutex_t g_mu = PTHREAD_MUTEX_INITIALIZER;
#if defined(__has_feature)
#  if __has_feature(memory_sanitizer)
#    define H_MSAN 1      /* MemorySanitizer build: fresh memory is handed out untouched (poisoned), whatever the fill mode */
#  endif
#endif
#ifndef H_MSAN
#  define H_MSAN 0
#endif
static void* f_alloc(void* o, size_t n) { (void)o; uint8_t* p = (uint8_t*)malloc(n ? n : 1); if (!p) return NULL; if (H_MSAN) return p; if (g_fill == 0) memset(p, 0, n); else if (g_fill == 1) memset(p, 0xFF, n); else { pthread_mutex_lock(&g_mu); for (size_t i = 0; i < n; i++) { g_noise ^= g_noise << 13; g_noise ^= g_noise >> 7; g_noise ^= g_noise << 17; p[i] = (uint8_t)g_noise; } pthread_mutex_unlock(&g_mu); } return p; }
static void f_free(void* o, void* p) { (void)o; free(p); }
static ZSTD_customMem const FMEM = { f_alloc, f_free, NULL };

typedef struct { const uint8_t* x; size_t n; vparams P; const uint8_t* dict; size_t dictLen; int dictMode; /* 0 none 1 loadDictionary 2 refPrefix 3 refCDict */ hscript S; int oneShot; } workload;

static size_t run_workload(ZSTD_CCtx* c, const workload* W, const hscript* S, const uint8_t* src, uint8_t* dst, size_t cap, ZSTD_CDict* cd)
{
    size_t e = ZSTD_CCtx_reset(c, ZSTD_reset_session_and_parameters); if (ZSTD_isError(e)) return e;
    e = vp_apply(c, &W->P); if (ZSTD_isError(e)) return e;
    if (W->dictMode == 1) e = ZSTD_CCtx_loadDictionary_advanced(c, W->dict, W->dictLen, ZSTD_dlm_byRef, ZSTD_dct_rawContent);
    else if (W->dictMode == 2) e = ZSTD_CCtx_refPrefix_advanced(c, W->dict, W->dictLen, ZSTD_dct_rawContent);
    else if (W->dictMode == 3) e = ZSTD_CCtx_refCDict(c, cd);
    if (ZSTD_isError(e)) return e;
    if (W->oneShot) return ZSTD_compress2(c, dst, cap, src, W->n);
    return h_run_script(c, src, W->n, S, dst, cap, NULL, NULL);
}

static const char* classify(const uint8_t* a, size_t na, const uint8_t* b, size_t nb, size_t n, const workload* W, char* detail, size_t dcap)
{
    refdec_info_t A, B; memset(&A, 0, sizeof A); memset(&B, 0, sizeof B); A.magicless = B.magicless = W->P.magicless; A.keep_blocks = B.keep_blocks = 1;
    uint8_t* o = (uint8_t*)malloc(n + 8); const char* cls = "unparsable";
    refdec_dict_t* rd = W->dictMode ? refdec_dict_create(W->dict, W->dictLen, 1) : NULL;
    int const okA = refdec_decode(o, n, a, na, rd, &A, 0), okB = refdec_decode(o, n, b, nb, rd, &B, 0);
    detail[0] = 0;
    if (okA && okB && A.nb_frames == 1 && B.nb_frames == 1) {
        if (A.frames[0].header_size != B.frames[0].header_size || memcmp(a, b, A.frames[0].header_size)) cls = "header-differs";
        else if (A.nb_blocks != B.nb_blocks) cls = "block-boundaries-differ";
        else { cls = "same-boundaries-different-bytes"; for (size_t i = 0; i < A.nb_blocks; i++) if (A.blocks[i].rsize != B.blocks[i].rsize) { cls = "block-boundaries-differ"; break; } }
        {   int o2 = 0; o2 += snprintf(detail + o2, dcap - (size_t)o2, "ref blocks:"); for (size_t i = 0; i < A.nb_blocks && i < 5; i++) o2 += snprintf(detail + o2, dcap - (size_t)o2, " %zu", A.blocks[i].rsize);
            o2 += snprintf(detail + o2, dcap - (size_t)o2, " | variant blocks:"); for (size_t i = 0; i < B.nb_blocks && i < 5; i++) o2 += snprintf(detail + o2, dcap - (size_t)o2, " %zu", B.blocks[i].rsize); }
    } else if (!okB) cls = "variant-frame-invalid";
    refdec_info_free(&A); refdec_info_free(&B); refdec_dict_free(rd); free(o);
    return cls;
}

static void compare(const char* axis, const uint8_t* ref, size_t nref, const uint8_t* var, size_t nvar, const workload* W, const char* desc, const char* what)
{
    v_stat("pairs", 1); v_cell("axis", "%s", axis);
    if (ZSTD_isError(nvar)) { if (ZSTD_getErrorCode(nvar) == ZSTD_error_memory_allocation) { v_stat("memory_refusals", 1); return; } char k[96]; snprintf(k, sizeof k, "%s:variant-fails-where-reference-succeeds", axis); v_viol(k, "%s %s: %s", desc, what, ZSTD_getErrorName(nvar)); return; }
    if (nref == nvar && !memcmp(ref, var, nref)) { v_stat("pairs_identical", 1); return; }
    char detail[300]; const char* cls = classify(ref, nref, var, nvar, W->n, W, detail, sizeof detail);
    char key[128]; snprintf(key, sizeof key, "%s:%s", axis, cls);
    v_viol(key, "%s %s: reference %zu bytes, variant %zu bytes; %s", desc, what, nref, nvar, detail);
}

/* leave hostile residue in a context */
static void wear(ZSTD_CCtx* c, vrng* r, const uint8_t* x, size_t n, uint8_t* scratch, size_t cap, const vparams* own)
{
    int const k = 1 + (int)vr_u(r, 3);
    for (int i = 0; i < k; i++) {
        vparams Q; vp_random(r, &Q, VP_MT | VP_MAGICLESS); if (Q.windowLog > 21) vp_level_only(&Q);
        if (vr_chance(r, 1, 3)) {   /* a tiny or small frame (1..16 bytes dense, then up to 300) under the workload's OWN parameters: per-strategy state that only such frames set up */
            size_t const m = V_MIN(n, vr_chance(r, 2, 3) ? 1 + vr_u(r, 16) : 1 + vr_u(r, 300)); ZSTD_CCtx_reset(c, ZSTD_reset_session_and_parameters);
            if (!ZSTD_isError(vp_apply(c, own))) { if (vr_chance(r, 1, 2)) ZSTD_compress2(c, scratch, cap, x, m); else { ZSTD_inBuffer in = { x, m, 0 }; ZSTD_outBuffer out = { scratch, cap, 0 }; ZSTD_compressStream2(c, &out, &in, ZSTD_e_end); } }
            continue; }
        ZSTD_CCtx_reset(c, ZSTD_reset_session_and_parameters); if (ZSTD_isError(vp_apply(c, &Q))) continue;
        size_t const m = n ? 1 + vr_u64(r, n) : 0; size_t const off = n > m ? vr_u64(r, n - m) : 0;
        switch (vr_u(r, 6)) {
        case 0: ZSTD_compress2(c, scratch, cap, x + off, m); break;                                         /* a complete other frame */
        case 1: { size_t e = ZSTD_compress2(c, scratch, 1 + vr_u(r, 30), x + off, m); (void)e; ZSTD_CCtx_reset(c, ZSTD_reset_session_only); break; }   /* failed operation + reset */
        case 2: { ZSTD_inBuffer in = { x + off, m, 0 }; ZSTD_outBuffer out = { scratch, cap, 0 }; ZSTD_compressStream2(c, &out, &in, vr_chance(r, 1, 2) ? ZSTD_e_continue : ZSTD_e_flush); ZSTD_CCtx_reset(c, ZSTD_reset_session_only); break; }  /* aborted frame (also MT with jobs in flight) */
        case 3: { uint8_t pre[3000]; size_t pl = 1 + vr_u(r, 2999); vr_fill(r, pre, pl); ZSTD_CCtx_refPrefix(c, pre, pl); ZSTD_compress2(c, scratch, cap, x + off, m); break; }
        case 4: { ZSTD_CCtx_loadDictionary(c, x, V_MIN(n, (size_t)5000)); ZSTD_compress2(c, scratch, cap, x + off, m); break; }
        default: { hscript S; h_gen_script(r, m, &S, 0); h_run_script(c, x + off, m, &S, scratch, cap, NULL, NULL); break; }
        }
    }
}

static void run_case(long idx)
{
    vrng r = vr_make(V.seed, 107, (uint64_t)idx);
    workload W; memset(&W, 0, sizeof W);
    int const fam = (int)vr_u(&r, DF_NB); W.n = pick_size(&r, g_maxSize);
    uint8_t* x = (uint8_t*)malloc(W.n + 64); gen_data(&r, x, W.n, fam); W.x = x;
    int const wantMT = vr_chance(&r, 1, 4) && W.n > 300000;
    vp_random(&r, &W.P, VP_MAGICLESS | (wantMT ? VP_MT : 0)); if (W.P.windowLog > 21) vp_level_only(&W.P);
    if (wantMT && !W.P.nbWorkers) { W.P.nbWorkers = 2; vp_add(&W.P, ZSTD_c_nbWorkers, 2); vp_add(&W.P, ZSTD_c_jobSize, 1); }
    W.oneShot = (int)vr_u(&r, 3) == 0;
    h_gen_script(&r, W.n, &W.S, 0);
    uint8_t* dict = NULL; ZSTD_CDict* cd = NULL;
    if (vr_chance(&r, 1, 3)) { W.dictLen = vr_chance(&r, 1, 4) ? 1 + vr_u(&r, 16) : 1 + vr_u(&r, 40000); dict = (uint8_t*)malloc(W.dictLen); gen_data(&r, dict, W.dictLen, fam); if (W.n > 32) memcpy(dict, x, V_MIN(W.dictLen, W.n / 2)); if (W.dictLen >= 4 && dict[0] == 0x37 && dict[1] == 0xA4 && dict[2] == 0x30 && dict[3] == 0xEC) dict[0] ^= 1; W.dict = dict; W.dictMode = 1 + (int)vr_u(&r, 3);
        if (W.dictMode == 3) { cd = ZSTD_createCDict_advanced(dict, W.dictLen, ZSTD_dlm_byRef, ZSTD_dct_rawContent, ZSTD_getCParams(W.P.level ? W.P.level : 3, 0, W.dictLen), ZSTD_defaultCMem); if (!cd) W.dictMode = 1; } }
    /* prefix mode: half of the cases with ZSTD_c_deterministicRefPrefix, which promises an output independent of where the prefix lies relative to the source */
    int const detPrefix = (W.dictMode == 2) && vr_chance(&r, 1, 2); if (detPrefix) { vp_add(&W.P, ZSTD_c_deterministicRefPrefix, 1); vp_redesc(&W.P); }
    size_t const cap = ZSTD_compressBound(W.n) + 1024;
    uint8_t* ref = (uint8_t*)malloc(cap); uint8_t* var = (uint8_t*)malloc(cap);
    char desc[600]; snprintf(desc, sizeof desc, "n=%zu fam=%s params=[%s] %s dictMode=%d dictLen=%zu", W.n, v_df_name[fam], W.P.desc, W.oneShot ? "compress2" : W.S.desc, W.dictMode, W.dictLen);
    /* reference: fresh context, zero-filled heap */
    g_fill = 0; ZSTD_CCtx* c0 = ZSTD_createCCtx_advanced(FMEM);
    size_t const nref = run_workload(c0, &W, &W.S, x, ref, cap, cd);
    ZSTD_freeCCtx(c0);
    if (ZSTD_isError(nref)) { v_stat("skipped", 1); goto out; }
    v_stat("workloads", 1);
    /* axis: repeat on a second fresh context (sanity) and on the same fresh context twice */
    {   g_fill = 0; ZSTD_CCtx* c = ZSTD_createCCtx_advanced(FMEM); size_t nv = run_workload(c, &W, &W.S, x, var, cap, cd); compare("repeat", ref, nref, var, nv, &W, desc, "second fresh context");
        nv = run_workload(c, &W, &W.S, x, var, cap, cd); compare("reuse", ref, nref, var, nv, &W, desc, "same workload again on the same context"); ZSTD_freeCCtx(c); }
    /* axis: contents of newly allocated memory */
    for (int fill = 1; fill <= 2; fill++) { g_fill = fill; ZSTD_CCtx* c = ZSTD_createCCtx_advanced(FMEM); size_t const nv = run_workload(c, &W, &W.S, x, var, cap, cd); compare("heapfill", ref, nref, var, nv, &W, desc, fill == 1 ? "fresh memory filled with 0xFF" : "fresh memory filled with noise"); ZSTD_freeCCtx(c); }
    /* axis: prior context history (other frames, other parameters, failed/aborted operations + reset) */
    for (int h = 0; h < 2; h++) { g_fill = (int)vr_u(&r, 3); ZSTD_CCtx* c = ZSTD_createCCtx_advanced(FMEM); uint8_t* scratch = (uint8_t*)malloc(cap);
        wear(c, &r, x, W.n, scratch, cap, &W.P); size_t const nv = run_workload(c, &W, &W.S, x, var, cap, cd); compare("history", ref, nref, var, nv, &W, desc, "context worn by other frames / failed / aborted operations"); free(scratch); ZSTD_freeCCtx(c); }
    /* axis: static (caller-provided, noise-filled) memory; single-thread workloads only */
    if (!W.P.nbWorkers && W.dictMode != 1) {
        ZSTD_CCtx_params* cp = ZSTD_createCCtxParams(); vp_apply_params(cp, &W.P);
        size_t est = W.oneShot ? ZSTD_estimateCCtxSize_usingCCtxParams(cp) : ZSTD_estimateCStreamSize_usingCCtxParams(cp); ZSTD_freeCCtxParams(cp);
        if (!ZSTD_isError(est)) { est = est * 2 + (8u << 20); uint64_t* ws = (uint64_t*)malloc(est); if (ws) { vrng q = vr_make(V.seed, 7, (uint64_t)idx); if (!H_MSAN) vr_fill(&q, ws, est);
            ZSTD_CCtx* c = ZSTD_initStaticCCtx(ws, est); if (c) { size_t const nv = run_workload(c, &W, &W.S, x, var, cap, cd); if (!(ZSTD_isError(nv) && ZSTD_getErrorCode(nv) == ZSTD_error_memory_allocation)) compare("static", ref, nref, var, nv, &W, desc, "static context in noise-filled caller memory"); } free(ws); } }
    }
    /* axis: buffer placement and alignment (whole arenas move; relative contiguity of src is preserved) */
    {   size_t const sh = 1 + vr_u(&r, 63); uint8_t* x2 = (uint8_t*)malloc(W.n + 128); memcpy(x2 + sh, x, W.n); uint8_t* var2 = (uint8_t*)malloc(cap + 128);
        g_fill = 0; ZSTD_CCtx* c = ZSTD_createCCtx_advanced(FMEM); size_t const nv = run_workload(c, &W, &W.S, x2 + sh, var2 + (sh % 13), cap, cd);
        compare("placement", ref, nref, var2 + (sh % 13), nv, &W, desc, "source and destination moved / misaligned"); ZSTD_freeCCtx(c); free(x2); free(var2); }
    /* sub-axis: the prefix lies immediately before / after the source in memory (only under deterministicRefPrefix: without it the documentation allows a dependence) */
    if (detPrefix) for (int where = 0; where < 2; where++) {
        uint8_t* arena = (uint8_t*)malloc(W.n + W.dictLen + 64); workload W2 = W; const uint8_t* x2;
        if (where == 0) { memcpy(arena, dict, W.dictLen); memcpy(arena + W.dictLen, x, W.n); W2.dict = arena; x2 = arena + W.dictLen; } else { memcpy(arena, x, W.n); memcpy(arena + W.n, dict, W.dictLen); W2.dict = arena + W.n; x2 = arena; }
        g_fill = 0; ZSTD_CCtx* c = ZSTD_createCCtx_advanced(FMEM); size_t const nv = run_workload(c, &W2, &W.S, x2, var, cap, cd);
        compare("placement-prefix-adjacent", ref, nref, var, nv, &W, desc, where == 0 ? "prefix immediately before the source (deterministicRefPrefix=1)" : "prefix immediately after the source (deterministicRefPrefix=1)"); ZSTD_freeCCtx(c); free(arena); }
    /* same sub-axis at the prefix lengths around the minimum the match finders index (8 bytes), one-shot (the source is then read in place) */
    if (detPrefix && W.n <= 300000) for (size_t plen = 6; plen <= 10; plen++) { if (plen > W.dictLen) break;
        workload W3 = W; W3.oneShot = 1; W3.dictLen = plen; uint8_t* refp = (uint8_t*)malloc(cap); uint8_t* arena = (uint8_t*)malloc(W.n + plen + 64);
        g_fill = 0; ZSTD_CCtx* c = ZSTD_createCCtx_advanced(FMEM); size_t const nr = run_workload(c, &W3, &W.S, x, refp, cap, cd); ZSTD_freeCCtx(c);
        if (!ZSTD_isError(nr)) { memcpy(arena, dict, plen); memcpy(arena + plen, x, W.n); W3.dict = arena; g_fill = 0; c = ZSTD_createCCtx_advanced(FMEM); size_t const nv = run_workload(c, &W3, &W.S, arena + plen, var, cap, cd); ZSTD_freeCCtx(c);
            char what[96]; snprintf(what, sizeof what, "one-shot, %zu-byte prefix immediately before the source (deterministicRefPrefix=1)", plen); W3.dict = dict; compare("placement-prefix-adjacent", refp, nr, var, nv, &W3, desc, what); }
        free(refp); free(arena); }
    /* axis: output-capacity sequence (same input slices and directives) */
    if (!W.oneShot) for (int k = 0; k < 2; k++) {
        hscript S2 = W.S; S2.nOut = 1 + (int)vr_u(&r, 3); for (int i = 0; i < S2.nOut; i++) S2.outPat[i] = k == 0 ? cap : (size_t[]){ 7, 513, 4096, 50000, 131072 }[vr_u(&r, 5)]; if (W.n > 200000) for (int i = 0; i < S2.nOut; i++) if (S2.outPat[i] < 513) S2.outPat[i] = 513;
        g_fill = 0; ZSTD_CCtx* c = ZSTD_createCCtx_advanced(FMEM); size_t const nv = run_workload(c, &W, &S2, x, var, cap, cd);
        /* sub-axis where the implementation has no reason to look at the output room: single thread, the whole input smaller than half the
         * smallest possible window (the internal input ring never wraps), and the final call preceded by a call that buffered input
         * (so the "compress straight from the caller's buffer" shortcut of the last e_end call cannot apply) */
        {   size_t const minWin = (size_t)1 << (W.P.windowLog ? V_MIN(W.P.windowLog, 19) : 19);
            int const nowrap = !W.P.nbWorkers && W.n <= minWin / 2 && W.n <= (60u << 10) && W.S.nseg >= 2 && W.S.seg[0].len > 0 && (W.P.windowLog || !W.dictMode);     /* with a dictionary / prefix and no explicit windowLog the window comes from the small-source tables (can be 1 KiB..16 KiB): the ring may wrap */
            compare(W.P.nbWorkers ? "outcap-mt" : nowrap ? "outcap-nowrap" : "outcap", ref, nref, var, nv, &W, desc, k == 0 ? "one huge output window" : "small output windows"); }
        ZSTD_freeCCtx(c); }
    /* axis: number of workers (>= 1), same job size */
    if (W.P.nbWorkers) for (int k = 0; k < 2; k++) {
        workload W2 = W; int const nw = 1 + (int)vr_u(&r, 4); for (int i = 0; i < W2.P.n; i++) if (W2.P.p[i] == ZSTD_c_nbWorkers) W2.P.v[i] = nw;
        g_fill = 0; ZSTD_CCtx* c = ZSTD_createCCtx_advanced(FMEM); size_t const nv = run_workload(c, &W2, &W2.S, x, var, cap, cd);
        char what[64]; snprintf(what, sizeof what, "nbWorkers %d instead of %d", nw, W.P.nbWorkers); compare("workers", ref, nref, var, nv, &W, desc, what); ZSTD_freeCCtx(c); }
    v_sample("%s -> %zu bytes", desc, nref);
out:
    ZSTD_freeCDict(cd); free(x); free(dict); free(ref); free(var);
}

int main(int argc, char** argv)
{
    v_init(argc, argv);
    g_maxSize = (size_t)v_opt_long("maxsize", V.thorough ? (3 << 20) : (900 << 10));
    for (long i = V.from; i < V.to; i++) { v_case(i); v_budget(1200); run_case(i); }
    return v_finish();
}
