/* h_c20.c - C20: seekable format: any byte range reads back exactly; malformed archives give errors, never OOB or wrong data as success */
#include "vcommon.h"
#include "refdec.h"
#include "zstd_seekable.h"

static size_t g_maxSize;

typedef struct { const uint8_t* p; size_t size, pos; long failReadAt, reads; long failSeekAt, seeks; } cbfile;
static int cb_read(void* o, void* buf, size_t n) { cbfile* f = (cbfile*)o; f->reads++; if (f->failReadAt && f->reads >= f->failReadAt && f->reads < f->failReadAt + 2) return -1; if (n > f->size - f->pos) return -1; memcpy(buf, f->p + f->pos, n); f->pos += n; return 0; }
static int cb_seek(void* o, long long off, int origin) { cbfile* f = (cbfile*)o; f->seeks++; if (f->failSeekAt && f->seeks == f->failSeekAt) return -1; long long np = origin == SEEK_SET ? off : origin == SEEK_END ? (long long)f->size + off : (long long)f->pos + off; if (np < 0 || (size_t)np > f->size) return -1; f->pos = (size_t)np; return 0; }

/* build an archive; returns size. frame boundaries (decompressed) recorded in fb[] */
static size_t build_archive(vrng* r, const uint8_t* x, size_t n, unsigned maxFrameSize, int checksum, int level, uint8_t* dst, size_t cap, size_t* fb, size_t* nfb, size_t fbcap, char* hist, size_t histcap)
{
    ZSTD_seekable_CStream* zcs = ZSTD_seekable_createCStream();
    size_t const ir = ZSTD_seekable_initCStream(zcs, level, checksum, maxFrameSize);
    if (ZSTD_isError(ir)) { ZSTD_seekable_freeCStream(zcs); return ir; }
    ZSTD_outBuffer out = { dst, cap, 0 }; size_t pos = 0; size_t inFrame = 0; *nfb = 0; int ho = 0; hist[0] = 0;
    int const smallOut = vr_chance(r, 1, 2);      /* output room per call: tiny windows (frame ends need several calls) or everything */
    #define ROOM() do { if (smallOut) { size_t const room_ = vr_chance(r, 1, 2) ? 1 + vr_u(r, 40) : 1 + vr_u(r, 1200); out.size = V_MIN(cap, out.pos + room_); } } while (0)
    size_t const mfs = maxFrameSize ? maxFrameSize : (size_t)1 << 30;
    int const bigIn = vr_chance(r, 1, 4); if (bigIn) v_stat("archives_fed_in_multi_block_chunks", 1);
    while (pos < n) {
        size_t chunk = 1 + vr_u64(r, vr_chance(r, 1, 3) ? 300 : 70000); if (bigIn) chunk = vr_chance(r, 1, 2) ? n - pos : 1 + vr_u64(r, n);      /* several blocks offered at once: consumed over many calls when the output is small */
        if (chunk > n - pos) chunk = n - pos;
        ZSTD_inBuffer in = { x + pos, chunk, 0 };
        while (in.pos < in.size) {
            size_t before = in.pos;
            ROOM();
            size_t const rr = ZSTD_seekable_compressStream(zcs, &out, &in);
            if (ZSTD_isError(rr)) { ZSTD_seekable_freeCStream(zcs); return rr; }
            /* track automatic frame ends (exactly every maxFrameSize bytes) */
            size_t adv = in.pos - before; while (adv) { size_t room = mfs - inFrame; size_t t = adv < room ? adv : room; inFrame += t; adv -= t; if (inFrame == mfs) { if (*nfb < fbcap) fb[(*nfb)++] = pos + (in.pos - adv); inFrame = 0; } }
            if (out.pos == cap) { ZSTD_seekable_freeCStream(zcs); return (size_t)-ZSTD_error_dstSize_tooSmall; }
        }
        pos += chunk;
        if (vr_chance(r, 1, 6)) { int k = 1 + (int)vr_u(r, 2); while (k--) { size_t rr; do { ROOM(); rr = ZSTD_seekable_endFrame(zcs, &out); } while (!ZSTD_isError(rr) && rr && out.pos < cap); if (ZSTD_isError(rr)) { ZSTD_seekable_freeCStream(zcs); return rr; } if (inFrame || k == 0) { if (*nfb < fbcap) fb[(*nfb)++] = pos; } inFrame = 0; } if (ho < (int)histcap - 16) ho += snprintf(hist + ho, histcap - (size_t)ho, "E@%zu ", pos); }
    }
    {   size_t rr; int guard = 0; do { ROOM(); rr = ZSTD_seekable_endStream(zcs, &out); } while (!ZSTD_isError(rr) && rr && ++guard < 10000000 && out.pos < cap); if (ZSTD_isError(rr)) { ZSTD_seekable_freeCStream(zcs); return rr; } }
    ZSTD_seekable_freeCStream(zcs);
    return out.pos;
}

static void check_accessors(ZSTD_seekable* zs, const uint8_t* arch, size_t asz, size_t n, const refdec_info_t* I, const char* desc)
{
    unsigned const nf = ZSTD_seekable_getNumFrames(zs);
    /* R's frame walk: data frames are all non-skippable frames; the last frame of the archive is the skippable seek table */
    size_t nData = 0; for (size_t i = 0; i < I->nb_frames; i++) if (!I->frames[i].skippable) nData++;
    if (I->nb_frames == 0 || !I->frames[I->nb_frames - 1].skippable) v_viol("layout:no-trailing-seek-table-frame", "%s", desc);
    if (nData != nf) v_viol("layout:numFrames-disagrees-with-frame-walk", "%s: table %u, R walk %zu", desc, nf, nData);
    ZSTD_seekTable* st = ZSTD_seekTable_create_fromSeekable(zs);
    unsigned long long cOff = 0, dOff = 0; size_t di = 0;
    for (unsigned i = 0; i < nf && nData == nf; i++) {
        while (di < I->nb_frames && I->frames[di].skippable) di++;
        const refdec_frame_t* F = &I->frames[di++];
        unsigned long long a = ZSTD_seekable_getFrameCompressedOffset(zs, i), b = ZSTD_seekable_getFrameDecompressedOffset(zs, i);
        size_t cs = ZSTD_seekable_getFrameCompressedSize(zs, i), ds = ZSTD_seekable_getFrameDecompressedSize(zs, i);
        if (a != F->src_off || cs != F->src_end - F->src_off || b != F->out_off || ds != F->out_size) v_viol("accessor:disagrees-with-frame-layout", "%s frame %u: table(cOff=%llu cSize=%zu dOff=%llu dSize=%zu) R(%zu %zu %zu %zu)", desc, i, a, cs, b, ds, F->src_off, F->src_end - F->src_off, F->out_off, F->out_size);
        if (st && (ZSTD_seekTable_getFrameCompressedOffset(st, i) != a || ZSTD_seekTable_getFrameDecompressedOffset(st, i) != b || ZSTD_seekTable_getFrameCompressedSize(st, i) != cs || ZSTD_seekTable_getFrameDecompressedSize(st, i) != ds)) v_viol("accessor:seekTable-copy-disagrees", "%s frame %u", desc, i);
        cOff = a + cs; dOff = b + ds;
        if (ds) { unsigned fi = ZSTD_seekable_offsetToFrameIndex(zs, b); unsigned fj = ZSTD_seekable_offsetToFrameIndex(zs, b + ds - 1); if (fi != i || fj != i) v_viol("accessor:offsetToFrameIndex-wrong", "%s frame %u: first->%u last->%u", desc, i, fi, fj); }
        v_stat("accessor_checks", 1);
    }
    if (nData == nf && dOff != n) v_viol("accessor:sizes-do-not-sum-to-content", "%s: %llu vs %zu", desc, dOff, n);
    /* out-of-range indices: index == numFrames must at least be memory safe; indices beyond must yield the documented error values */
    (void)ZSTD_seekable_getFrameCompressedOffset(zs, nf); (void)ZSTD_seekable_getFrameDecompressedOffset(zs, nf); (void)ZSTD_seekable_getFrameCompressedSize(zs, nf); (void)ZSTD_seekable_getFrameDecompressedSize(zs, nf);
    if (st) { (void)ZSTD_seekTable_getFrameCompressedSize(st, nf); (void)ZSTD_seekTable_getFrameDecompressedSize(st, nf); (void)ZSTD_seekTable_getFrameCompressedOffset(st, nf); (void)ZSTD_seekTable_getFrameDecompressedOffset(st, nf); }
    for (unsigned k = 1; k < 4; k++) {
        unsigned const idx = nf + k * (k == 3 ? 1000000u : 1u);
        if (ZSTD_seekable_getFrameCompressedOffset(zs, idx) != ZSTD_SEEKABLE_FRAMEINDEX_TOOLARGE || ZSTD_seekable_getFrameDecompressedOffset(zs, idx) != ZSTD_SEEKABLE_FRAMEINDEX_TOOLARGE) v_viol("accessor:out-of-range-index-not-reported(offset)", "%s idx=%u nf=%u", desc, idx, nf);
        if (!ZSTD_isError(ZSTD_seekable_getFrameCompressedSize(zs, idx)) || !ZSTD_isError(ZSTD_seekable_getFrameDecompressedSize(zs, idx))) v_viol("accessor:out-of-range-index-not-reported(size)", "%s idx=%u nf=%u", desc, idx, nf);
    }
    (void)arch; (void)asz; (void)cOff;
    ZSTD_seekTable_free(st);
}

static void do_reads(vrng* r, ZSTD_seekable* zs, const uint8_t* x, size_t n, const size_t* fb, size_t nfb, int nreads, const char* desc, const char* access)
{
    size_t prevEnd = 0; size_t const cap = V_MIN(n, (size_t)300000) + 16; gbuf dst = gb_alloc(cap, 0);
    for (int k = 0; k < nreads; k++) {
        size_t off, len; const char* cls;
        switch (vr_u(r, 8)) {
        case 0: off = prevEnd < n ? prevEnd : 0; len = vr_u64(r, V_MIN(n - off, cap) + 1); cls = "continue-forward"; break;
        case 1: off = prevEnd > 10 ? prevEnd - 1 - vr_u(r, 9) : 0; len = vr_u64(r, V_MIN(n - off, cap) + 1); cls = "back-a-little"; break;
        case 2: if (nfb) { size_t b = fb[vr_u64(r, nfb)]; off = b > 3 ? b - 1 - vr_u(r, 3) : 0; len = 1 + vr_u(r, 8); if (off + len > n) len = n - off; cls = "straddle-frame-boundary"; break; } /* fallthrough */
        case 3: if (nfb) { size_t b = fb[vr_u64(r, nfb)]; off = b < n ? b : 0; len = vr_u64(r, V_MIN(n - off, cap) + 1); cls = "start-at-frame-boundary"; break; } /* fallthrough */
        case 4: off = n ? vr_u64(r, n) : 0; len = n - off; if (len > cap) len = cap; cls = "to-end-of-content"; break;
        case 5: off = n ? vr_u64(r, n + 1) : 0; len = 0; cls = "zero-length"; break;
        case 6: off = 0; len = V_MIN(n, cap); cls = "from-start-large"; break;
        default: off = n ? vr_u64(r, n) : 0; len = vr_u64(r, V_MIN(n - off, cap) + 1); cls = "random"; break;
        }
        if (off + len > n) len = n - off;
        memset(dst.p, 0x5A, len);
        size_t const rr = ZSTD_seekable_decompress(zs, dst.p, len, off);
        v_stat("range_reads", 1); v_cell("read_class", "%s|%s", access, cls);
        if (ZSTD_isError(rr)) v_viol("read:valid-range-refused", "%s access=%s class=%s off=%zu len=%zu n=%zu: %s", desc, access, cls, off, len, n, ZSTD_getErrorName(rr));
        else if (rr != len) v_viol("read:wrong-length", "%s access=%s class=%s off=%zu len=%zu got=%zu", desc, access, cls, off, len, rr);
        else if (len && memcmp(dst.p, x + off, len)) v_viol("read:wrong-bytes", "%s access=%s class=%s off=%zu len=%zu", desc, access, cls, off, len);
        if (!gb_ok(&dst)) v_viol("read:write-outside-dst", "%s off=%zu len=%zu", desc, off, len);
        prevEnd = off + len;
    }
    gb_free(&dst);
}

static void run_case(long idx)
{
    vrng r = vr_make(V.seed, 120, (uint64_t)idx);
    int const fam = (int)vr_u(&r, DF_NB);
    unsigned maxFrame; const char* mfc;
    switch (vr_u(&r, 6)) { case 0: maxFrame = 1 + vr_u(&r, 3); mfc = "tiny"; break; case 1: maxFrame = 100 + vr_u(&r, 2000); mfc = "small"; break; case 2: maxFrame = (128u << 10) + vr_u(&r, 5) - 2; mfc = "around-block"; break; case 3: maxFrame = 1u << 30; mfc = "2^30"; break; case 4: maxFrame = 0; mfc = "default"; break; default: maxFrame = 1 + vr_u(&r, 300000); mfc = "random"; }
    size_t n = pick_size(&r, g_maxSize); if (maxFrame && maxFrame < 50 && n > 6000) n = vr_u(&r, 6000);
    int const checksum = (int)vr_u(&r, 2); int const level = (int)vr_range(&r, 1, 7);
    uint8_t* x = (uint8_t*)malloc(n + 1); gen_data(&r, x, n, fam);
    size_t const nfEst = (maxFrame ? n / maxFrame : 0) + 64;
    size_t const cap = ZSTD_compressBound(n) + nfEst * 64 + 4096; uint8_t* arch = (uint8_t*)malloc(cap);
    size_t* fb = (size_t*)malloc((nfEst + 4096) * sizeof(size_t)); size_t nfb = 0; char hist[200];
    size_t const asz = build_archive(&r, x, n, maxFrame, checksum, level, arch, cap, fb, &nfb, nfEst + 4096, hist, sizeof hist);
    char desc[300]; snprintf(desc, sizeof desc, "n=%zu fam=%s maxFrame=%u(%s) checksum=%d level=%d ends=[%s]", n, v_df_name[fam], maxFrame, mfc, checksum, level, hist);
    v_stat("archives", 1);
    if (ZSTD_isError(asz)) { v_viol("build:seekable-compression-fails", "%s: %s", desc, ZSTD_getErrorName(asz)); goto out; }
    {   /* valid frame sequence + seek table; regular decoder regenerates the whole content */
        gbuf A = gb_alloc(asz, 0); memcpy(A.p, arch, asz);
        uint8_t* outb = (uint8_t*)malloc(n + 1);
        refdec_info_t I; memset(&I, 0, sizeof I);
        if (!refdec_decode(outb, n, A.p, asz, NULL, &I, 0)) v_viol("layout:R-rejects-archive", "%s: %s at %zu", desc, I.err ? I.err : "?", I.err_src_off);
        else if (I.out_size != n || memcmp(outb, x, n)) v_viol("layout:R-decodes-other-content", "%s", desc);
        {   size_t const d = ZSTD_decompress(outb, n, A.p, asz); if (ZSTD_isError(d) || d != n || memcmp(outb, x, n)) v_viol("layout:regular-decoder-does-not-regenerate-content", "%s: %s", desc, ZSTD_isError(d) ? ZSTD_getErrorName(d) : "mismatch"); }
        v_cell("layout", "%s|cks%d|frames%s", mfc, checksum, I.nb_frames > 100 ? ">100" : I.nb_frames > 3 ? "4..100" : "<=3");
        /* three access modes */
        for (int mode = 0; mode < 3; mode++) {
            ZSTD_seekable* zs = ZSTD_seekable_create(); size_t ir; FILE* fp = NULL; cbfile cf; memset(&cf, 0, sizeof cf);
            if (mode == 0) ir = ZSTD_seekable_initBuff(zs, A.p, asz);
            else if (mode == 1) { fp = fmemopen(A.p, asz, "rb"); ir = ZSTD_seekable_initFile(zs, fp); }
            else { cf.p = A.p; cf.size = asz; ZSTD_seekable_customFile c; c.opaque = &cf; c.read = cb_read; c.seek = cb_seek; ir = ZSTD_seekable_initAdvanced(zs, c); }
            static const char* const an[3] = { "memory", "FILE", "callbacks" };
            if (ZSTD_isError(ir)) v_viol("read:init-fails-on-valid-archive", "%s access=%s: %s", desc, an[mode], ZSTD_getErrorName(ir));
            else {
                if (I.ok) check_accessors(zs, A.p, asz, n, &I, desc);
                do_reads(&r, zs, x, n, fb, nfb, V.thorough ? 60 : 25, desc, an[mode]);
                /* whole frames */
                unsigned const nf = ZSTD_seekable_getNumFrames(zs);
                for (int k = 0; k < 4 && nf; k++) { unsigned fi = vr_u(&r, nf); size_t ds = ZSTD_seekable_getFrameDecompressedSize(zs, fi); unsigned long long dof = ZSTD_seekable_getFrameDecompressedOffset(zs, fi);
                    if (ZSTD_isError(ds) || ds > n) continue; gbuf fo = gb_alloc(ds, 0); size_t rr = ZSTD_seekable_decompressFrame(zs, fo.p, ds, fi);
                    if (ZSTD_isError(rr) || rr != ds || (ds && memcmp(fo.p, x + dof, ds))) v_viol("read:decompressFrame-wrong", "%s frame %u: %s", desc, fi, ZSTD_isError(rr) ? ZSTD_getErrorName(rr) : "mismatch"); v_stat("frame_reads", 1); gb_free(&fo); }
            }
            ZSTD_seekable_free(zs); if (fp) fclose(fp);
        }
        refdec_info_free(&I); free(outb);
        /* ---- corrupted archives: memory safety on any call sequence (reads continue after errors); wrong-data clause for confined corruptions */
        int const ncor = V.thorough ? 24 : 10;
        for (int c = 0; c < ncor; c++) {
            gbuf B = gb_alloc(asz, 0); memcpy(B.p, arch, asz); const char* kind; long confinedFrame = -1;
            ZSTD_seekable* ref = ZSTD_seekable_create(); unsigned nf0 = 0; if (!ZSTD_isError(ZSTD_seekable_initBuff(ref, A.p, asz))) nf0 = ZSTD_seekable_getNumFrames(ref);
            switch (vr_u(&r, 7)) {
            case 0: { size_t o = asz >= 9 ? asz - 9 + vr_u(&r, 5) : 0; B.p[o] ^= (uint8_t)(1 + vr_u(&r, 255)); kind = "footer(numFrames/descriptor)"; break; }
            case 1: { size_t o = asz >= 4 ? asz - 4 + vr_u(&r, 4) : 0; B.p[o] ^= (uint8_t)(1 + vr_u(&r, 255)); kind = "footer-magic"; break; }
            case 2: { size_t tbl = (size_t)nf0 * (checksum ? 12 : 8) + 9; size_t o = asz > tbl ? asz - tbl + vr_u64(&r, tbl - 9 ? tbl - 9 : 1) : 0; B.p[o] ^= (uint8_t)(1 + vr_u(&r, 255)); kind = "table-entry"; break; }
            case 3: if (nf0) { unsigned fi = vr_u(&r, nf0); size_t cs = ZSTD_seekable_getFrameCompressedSize(ref, fi); unsigned long long co = ZSTD_seekable_getFrameCompressedOffset(ref, fi); if (!ZSTD_isError(cs) && cs > 8) { size_t o = (size_t)co + 5 + vr_u64(&r, cs - 6); B.p[o] ^= (uint8_t)(1 << vr_u(&r, 8)); confinedFrame = fi; } kind = "frame-bytes"; break; } /* fallthrough */
            case 4: if (nf0 && checksum) { unsigned fi = vr_u(&r, nf0); size_t tbl = (size_t)nf0 * 12 + 9; size_t o = asz - tbl + (size_t)fi * 12 + 8 + vr_u(&r, 4); B.p[o] ^= (uint8_t)(1 + vr_u(&r, 255)); confinedFrame = fi; kind = "checksum-entry"; break; } /* fallthrough */
            case 5: { size_t cut = vr_u64(&r, asz); gb_free(&B); B = gb_alloc(cut, 0); memcpy(B.p, arch, cut); kind = "truncated"; break; }
            default: { int k = 1 + (int)vr_u(&r, 4); while (k--) B.p[vr_u64(&r, asz)] = (uint8_t)vr_u(&r, 256); kind = "random-bytes"; break; }
            }
            v_stat("corrupted_archives", 1);
            int const mode = (int)vr_u(&r, 3);
            ZSTD_seekable* zs = ZSTD_seekable_create(); size_t ir; FILE* fp = NULL; cbfile cf; memset(&cf, 0, sizeof cf);
            if (mode == 0) ir = ZSTD_seekable_initBuff(zs, B.p, B.size);
            else if (mode == 1 && B.size) { fp = fmemopen(B.p, B.size, "rb"); ir = ZSTD_seekable_initFile(zs, fp); }
            else { cf.p = B.p; cf.size = B.size; if (vr_chance(&r, 1, 2)) cf.failReadAt = 3 + (long)vr_u(&r, 12); if (vr_chance(&r, 1, 4)) cf.failSeekAt = 3 + (long)vr_u(&r, 8); ZSTD_seekable_customFile cc; cc.opaque = &cf; cc.read = cb_read; cc.seek = cb_seek; ir = ZSTD_seekable_initAdvanced(zs, cc); }
            v_cell("corruption", "%s|%s", kind, ZSTD_isError(ir) ? "init-refused" : "init-accepted");
            if (!ZSTD_isError(ir)) {
                unsigned const nf = ZSTD_seekable_getNumFrames(zs); gbuf dst = gb_alloc(70000, 0);
                for (int k = 0; k < 12; k++) {    /* reads continue after reads that failed */
                    /* in scope: ranges inside the original content (offset+length <= |x|); ranges beyond it are exercised for memory safety only */
                    int const inScope = !vr_chance(&r, 1, 5);
                    unsigned long long off = inScope ? vr_u64(&r, n + 1) : (vr_chance(&r, 1, 2) ? vr_next(&r) : n + vr_u(&r, 100)); size_t len = vr_u(&r, 70000);
                    if (inScope && off + len > n) len = (size_t)(n - off);
                    size_t const rr = ZSTD_seekable_decompress(zs, dst.p, len, off);
                    if (inScope && !ZSTD_isError(rr) && rr > len) v_viol("corrupt:returned-size-exceeds-request", "%s kind=%s off=%llu len=%zu returned=%zu", desc, kind, off, len, rr);
                    if (!gb_ok(&dst)) v_viol("corrupt:write-outside-dst", "%s kind=%s", desc, kind);
                    v_stat("corrupt_reads", 1); if (ZSTD_isError(rr)) v_stat("corrupt_reads_refused", 1);
                    if (nf) { unsigned fi = vr_u(&r, nf + 2); (void)ZSTD_seekable_getFrameDecompressedSize(zs, fi); (void)ZSTD_seekable_getFrameCompressedOffset(zs, fi); (void)ZSTD_seekable_offsetToFrameIndex(zs, off); }
                }
                gb_free(&dst);
                if (confinedFrame >= 0 && checksum && nf == nf0 && (unsigned)confinedFrame < nf) {
                    /* corruption confined to one data frame (or its checksum entry), checksums on: a read covering that frame to its end must not return wrong bytes as success */
                    size_t ds = ZSTD_seekable_getFrameDecompressedSize(ref, (unsigned)confinedFrame); unsigned long long dof = ZSTD_seekable_getFrameDecompressedOffset(ref, (unsigned)confinedFrame);
                    if (!ZSTD_isError(ds) && ds && ds <= n) { gbuf fo = gb_alloc(ds, 0); size_t rr = ZSTD_seekable_decompressFrame(zs, fo.p, ds, (unsigned)confinedFrame);
                        if (!ZSTD_isError(rr) && (rr != ds || memcmp(fo.p, x + dof, ds))) {
                            /* classify: what does the damaged frame regenerate when decoded on its own? */
                            size_t const cs = ZSTD_seekable_getFrameCompressedSize(ref, (unsigned)confinedFrame); unsigned long long const co = ZSTD_seekable_getFrameCompressedOffset(ref, (unsigned)confinedFrame);
                            size_t const big = ds + (1u << 20); uint8_t* tmp = (uint8_t*)malloc(big); ZSTD_DCtx* dd = ZSTD_createDCtx(); ZSTD_inBuffer in = { B.p + co, cs, 0 }; ZSTD_outBuffer ob = { tmp, big, 0 };
                            size_t const sr = ZSTD_decompressStream(dd, &ob, &in); ZSTD_freeDCtx(dd); free(tmp);
                            const char* cls = (ob.pos > ds) ? "damaged-frame-regenerates-more-than-its-table-entry" : ZSTD_isError(sr) ? "damaged-frame-fails-later" : "damaged-frame-same-size";
                            char key[160]; snprintf(key, sizeof key, "corrupt:wrong-data-reported-as-success:%s", cls);
                            v_viol(key, "%s kind=%s frame=%ld (checksums enabled, read covers the frame's table entry to its end; standalone decode of the damaged frame gives %zu bytes, table says %zu)", desc, kind, confinedFrame, ob.pos, ds);
                        }
                        v_stat("confined_corruption_checks", 1); if (ZSTD_isError(rr)) v_stat("confined_corruption_detected", 1); gb_free(&fo); }
                }
            }
            ZSTD_seekable_free(zs); ZSTD_seekable_free(ref); if (fp) fclose(fp); gb_free(&B);
        }
        /* IO faults on an intact archive through callbacks: reads after a failed read must stay safe and later succeed or fail cleanly */
        {   cbfile cf; memset(&cf, 0, sizeof cf); cf.p = A.p; cf.size = asz; ZSTD_seekable_customFile cc; cc.opaque = &cf; cc.read = cb_read; cc.seek = cb_seek;
            ZSTD_seekable* zs = ZSTD_seekable_create();
            if (!ZSTD_isError(ZSTD_seekable_initAdvanced(zs, cc)) && n) {
                gbuf dst = gb_alloc(V_MIN(n, (size_t)50000), 0);
                for (int k = 0; k < 8; k++) { size_t off = vr_u64(&r, n); size_t len = V_MIN(dst.size, n - off); cf.failReadAt = cf.reads + 1 + (long)vr_u(&r, 3); if (vr_chance(&r, 1, 3)) cf.failSeekAt = cf.seeks + 1;
                    size_t rr = ZSTD_seekable_decompress(zs, dst.p, len, off);
                    if (!ZSTD_isError(rr) && (rr != len || memcmp(dst.p, x + off, len))) v_viol("iofault:wrong-data-after-io-error", "%s off=%zu len=%zu", desc, off, len);
                    /* same range again, IO healthy */
                    cf.failReadAt = 0; cf.failSeekAt = 0;
                    rr = ZSTD_seekable_decompress(zs, dst.p, len, off);
                    if (!ZSTD_isError(rr) && (rr != len || memcmp(dst.p, x + off, len))) v_viol("iofault:wrong-data-after-io-error", "%s off=%zu len=%zu (retry)", desc, off, len);
                    v_stat("iofault_reads", 2); }
                gb_free(&dst);
            }
            ZSTD_seekable_free(zs); }
        gb_free(&A);
    }
    v_sample("%s archive=%zu bytes, %zu recorded frame ends", desc, asz, nfb);
out:
    free(fb); free(arch); free(x);
}

int main(int argc, char** argv)
{
    v_init(argc, argv);
    g_maxSize = (size_t)v_opt_long("maxsize", V.thorough ? (3 << 20) : (600 << 10));
    for (long i = V.from; i < V.to; i++) { v_case(i); v_budget(40); run_case(i); }
    return v_finish();
}
