/* vdict.h - assembler of structurally valid but UNUSUAL formatted dictionaries (C08, C17): entropy tables serialised with the tree's own
 * table writers; "valid" is decided by the loaders (and by R), never by the assembler. */
#ifndef VDICT_H
#define VDICT_H
#include "vparams.h"
#define FSE_STATIC_LINKING_ONLY
#include "common/fse.h"
#define HUF_STATIC_LINKING_ONLY
#include "common/huf.h"

/* ---- assembler of structurally valid but unusual dictionaries (serialised with the tree's own table writers; validity = both loaders accept) */
static int g_holeAt = -1;    /* when >= 0: every symbol present except this one (boundary bait for "is the table complete up to symbol k" logic) */
static size_t rand_ncount(vrng* r, short* nc, unsigned maxSym, unsigned tableLog)
{   /* normalised counts summing to 1<<tableLog; zero ("absent") and -1 ("less than one") entries allowed */
    int total = 1 << tableLog; unsigned present = 0;
    for (unsigned s = 0; s <= maxSym; s++) nc[s] = 0;
    if (g_holeAt >= 0 && (unsigned)g_holeAt <= maxSym && (1u << tableLog) > maxSym + 2) {
        for (unsigned s = 0; s <= maxSym; s++) if ((int)s != g_holeAt) { nc[s] = vr_chance(r, 1, 4) ? -1 : 1; total--; present++; }
        while (total > 0) { unsigned s = vr_u(r, maxSym + 1); if (nc[s] <= 0) { int any = 0; for (unsigned q = 0; q <= maxSym; q++) if (nc[q] > 0) any = 1; if (any) continue; nc[s] = (short)(total + 1); total = 0; break; } int add = 1 + (int)vr_u(r, (uint32_t)total); nc[s] = (short)(nc[s] + add); total -= add; }
        return 1;
    }
    int const zeroRate = (int)vr_u(r, 4);      /* 0: no absent symbol at all; else 1/4 .. 3/4 ... of the symbols may be absent */
    for (unsigned s = 0; s <= maxSym && total > 0; s++) { if (zeroRate && vr_u(r, 8) < (uint32_t)zeroRate && present) continue; nc[s] = vr_chance(r, 1, 3) ? -1 : 1; total -= 1; present++; }
    if (!present) { nc[0] = 1; total -= 1; present = 1; }
    {   int anyPos = 0; for (unsigned s = 0; s <= maxSym; s++) if (nc[s] > 0) anyPos = 1; if (!anyPos) for (unsigned s = 0; s <= maxSym; s++) if (nc[s] == -1) { nc[s] = 1; break; } }      /* somebody has to take the remaining probability mass */
    while (total > 0) { unsigned s = vr_u(r, maxSym + 1); if (nc[s] == 0 || nc[s] == -1) continue; int add = 1 + (int)vr_u(r, (uint32_t)total); nc[s] = (short)(nc[s] + add); total -= add; { int any = 0; for (unsigned q = 0; q <= maxSym; q++) if (nc[q] > 0) any = 1; if (!any) { nc[0] = (short)(nc[0] == -1 ? total + 1 : nc[0] + total); total = 0; } } }
    {   int anyPos = 0; for (unsigned s = 0; s <= maxSym; s++) if (nc[s] > 0) anyPos = 1; if (!anyPos) return 0; }
    return 1;
}
static int g_ofExact;   /* 1: offset-code table with exactly the codes 0..highbit(content + 128 KiB), every one present */
static size_t rand_ncount_full(vrng* r, short* nc, unsigned maxSym, unsigned tableLog)
{   int total = 1 << tableLog; if ((unsigned)total < maxSym + 1) return 0;
    for (unsigned s = 0; s <= maxSym; s++) { nc[s] = 1; total--; }
    while (total > 0) { unsigned const s = vr_u(r, maxSym + 1); int const add = 1 + (int)vr_u(r, (uint32_t)total); nc[s] = (short)(nc[s] + add); total -= add; }
    return 1; }
static size_t build_dict(vrng* r, uint8_t* dst, size_t cap, const uint8_t* content, size_t contentLen, char* feat, size_t fcap)
{
    uint8_t* op = dst; uint32_t const id = 1 + (uint32_t)vr_u64(r, 0x7FFFFFFF);
    if (cap < contentLen + 2048) return 0;
    op[0] = 0x37; op[1] = 0xA4; op[2] = 0x30; op[3] = 0xEC; memcpy(op + 4, &id, 4); op += 8;
    int zeroHuf = 0, zeroLL = 0, zeroML = 0, zeroOF = 0, ltone = 0;
    {   /* Huffman table from a histogram with up to 2/3 zero counts */
        unsigned count[256]; unsigned maxSym = 255; HUF_CREATE_STATIC_CTABLE(ct, 255); static uint32_t wk[HUF_CTABLE_WORKSPACE_SIZE_U32 + 1024];
        int const style = (int)vr_u(r, 4);
        for (int s = 0; s < 256; s++) { count[s] = 1 + vr_u(r, style == 0 ? 1000 : 30); if (style >= 2 && vr_chance(r, style == 2 ? 1 : 2, 3)) { count[s] = 0; zeroHuf = 1; } }
        if (style == 3) { maxSym = 100 + vr_u(r, 155); for (unsigned s = maxSym + 1; s < 256; s++) count[s] = 0; }
        count[maxSym] += 1; count[0] += 1;
        unsigned const maxBits = 11;     /* must be able to hold the alphabet */
        size_t const hl = HUF_buildCTable_wksp(ct, count, maxSym, maxBits, wk, sizeof wk); if (HUF_isError(hl)) return 0;
        size_t const hs = HUF_writeCTable_wksp(op, 400, ct, maxSym, (unsigned)hl, wk, sizeof wk); if (HUF_isError(hs)) return 0; op += hs;
    }
    {   short nc[64]; unsigned ofMax = vr_chance(r, 1, 2) ? 31 : 10 + vr_u(r, 21); unsigned ofLog = 5 + vr_u(r, 4);
        int const ofExact = g_ofExact; unsigned hbX = 0; { size_t v = contentLen + (128u << 10); while (v >>= 1) hbX++; }
        /* one offset-code table in three has exactly one hole around the highest code the loader requires for this content size */
        if (vr_chance(r, 1, 2)) { unsigned hb = 0; { size_t v = contentLen + (128u << 10); while (v >>= 1) hb++; } { static const int dlt[4] = { -1, 0, 0, 1 }; g_holeAt = (int)hb + dlt[vr_u(r, 4)]; } ofMax = V_MAX(ofMax, (unsigned)g_holeAt + 1); if (ofMax > 31) ofMax = 31; ofLog = 6 + vr_u(r, 3); }
        if (ofExact) { g_holeAt = -1; ofMax = hbX; ofLog = 6 + vr_u(r, 3); }      /* exactly the codes the loader requires for this content size, all present, none above */
        { int const ok = ofExact ? (int)rand_ncount_full(r, nc, ofMax, ofLog) : (int)rand_ncount(r, nc, ofMax, ofLog); g_holeAt = -1; if (!ok) return 0; }
        if (0) return 0; for (unsigned s = 0; s <= ofMax; s++) { if (nc[s] == 0) zeroOF = 1; if (nc[s] == -1) ltone = 1; }
        size_t const s1 = FSE_writeNCount(op, 200, nc, ofMax, ofLog); if (FSE_isError(s1)) return 0; op += s1;
        unsigned const mlMax = vr_chance(r, 1, 2) ? 52 : 20 + vr_u(r, 32); unsigned const mlLog = 5 + vr_u(r, 5);
        if (!rand_ncount(r, nc, mlMax, mlLog)) return 0; for (unsigned s = 0; s <= mlMax; s++) { if (nc[s] == 0) zeroML = 1; if (nc[s] == -1) ltone = 1; }
        size_t const s2 = FSE_writeNCount(op, 200, nc, mlMax, mlLog); if (FSE_isError(s2)) return 0; op += s2;
        unsigned const llMax = vr_chance(r, 1, 2) ? 35 : 15 + vr_u(r, 20); unsigned const llLog = 5 + vr_u(r, 5);
        if (!rand_ncount(r, nc, llMax, llLog)) return 0; for (unsigned s = 0; s <= llMax; s++) { if (nc[s] == 0) zeroLL = 1; if (nc[s] == -1) ltone = 1; }
        size_t const s3 = FSE_writeNCount(op, 200, nc, llMax, llLog); if (FSE_isError(s3)) return 0; op += s3;
    }
    {   uint32_t rep[3]; for (int i = 0; i < 3; i++) { switch (vr_u(r, 4)) { case 0: rep[i] = 1; break; case 1: rep[i] = (uint32_t)contentLen; break; case 2: rep[i] = 1 + (uint32_t)vr_u64(r, contentLen) ; break; default: rep[i] = (uint32_t)(1 + 2 * vr_u64(r, contentLen / 2 + 1)); } if (rep[i] == 0 || rep[i] > contentLen) rep[i] = 1; }
        memcpy(op, rep, 12); op += 12; }
    memcpy(op, content, contentLen); op += contentLen;
    snprintf(feat, fcap, "zeroHuf%d zeroLL%d zeroML%d zeroOF%d ltone%d", zeroHuf, zeroLL, zeroML, zeroOF, ltone);
    return (size_t)(op - dst);
}

#endif
