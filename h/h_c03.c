/* h_c03.c - C03: decoding untrusted bytes is memory-safe, bounded and terminating.
 * One multi-entry harness: every input goes through every decode / inspection entry point in exact-size guard-paged buffers
 * under ASan+UBSan (asan build) or at native speed with the assembly loops (plain build). CPU budget per case is linear in sizes. */
#include "vparams.h"
#include "refdec.h"
#include <dirent.h>

extern const char* const COMPRESSED; extern size_t const COMPRESSED_SIZE;      /* tests/legacy.c : frames of every legacy version */

typedef struct { uint8_t* p; size_t n; uint8_t* dict; size_t dl; const char* origin; } item;
static item* g_corpus; static size_t g_nCorpus, g_capCorpus;
static void add_item(const uint8_t* p, size_t n, const uint8_t* dict, size_t dl, const char* origin)
{
    if (g_nCorpus == g_capCorpus) { g_capCorpus = g_capCorpus ? g_capCorpus * 2 : 256; g_corpus = (item*)realloc(g_corpus, g_capCorpus * sizeof(item)); }
    item* it = &g_corpus[g_nCorpus++]; it->p = (uint8_t*)malloc(n + 1); memcpy(it->p, p, n); it->n = n; it->dict = NULL; it->dl = 0; it->origin = origin;
    if (dict) { it->dict = (uint8_t*)malloc(dl); memcpy(it->dict, dict, dl); it->dl = dl; }
}
static uint8_t* slurp(const char* path, size_t* n) { FILE* f = fopen(path, "rb"); if (!f) return NULL; fseek(f, 0, SEEK_END); long s = ftell(f); fseek(f, 0, SEEK_SET); uint8_t* b = (uint8_t*)malloc((size_t)s + 1); *n = fread(b, 1, (size_t)s, f); fclose(f); return b; }
static void load_dir(const char* dir, const char* origin, const uint8_t* dict, size_t dl)
{
    DIR* d = opendir(dir); if (!d) return; struct dirent* e;
    while ((e = readdir(d))) { if (e->d_name[0] == '.' || !strcmp(e->d_name, "dictionary")) continue; char path[1024]; snprintf(path, sizeof path, "%s/%s", dir, e->d_name); size_t n; uint8_t* b = slurp(path, &n); if (b && n < (4u << 20)) add_item(b, n, dict, dl, origin); free(b); }
    closedir(d);
}
static size_t g_legacyIdx[64]; static size_t g_nLegacy;
/* formatted dictionary + a frame made with it (dictID field of 4 bytes), for the tables of many DDicts with random dictIDs */
#include "zdict.h"
static uint8_t g_fdict[8192]; static size_t g_fdictLen; static uint8_t g_fframe[4096]; static size_t g_fframeLen, g_fframeIdOff; static uint8_t g_fplain[1500];
static void build_fdict(void)
{
    vrng r = vr_make(77, 3, 1); enum { NS = 300 }; static size_t sz[NS]; size_t tot = 0; uint8_t* buf = (uint8_t*)malloc(NS * 400);
    for (int i = 0; i < NS; i++) { sz[i] = 200 + vr_u(&r, 200); gen_data(&r, buf + tot, sz[i], DF_TEXT); tot += sz[i]; }
    size_t const dl = ZDICT_trainFromBuffer(g_fdict, sizeof g_fdict, buf, sz, NS);
    if (!ZDICT_isError(dl) && dl > 8) {
        g_fdict[4] = 0x78; g_fdict[5] = 0x56; g_fdict[6] = 0x34; g_fdict[7] = 0x12;     /* an ID that needs the 4-byte field */
        memcpy(g_fplain, buf, sizeof g_fplain);
        ZSTD_CCtx* c = ZSTD_createCCtx(); ZSTD_CCtx_setParameter(c, ZSTD_c_contentSizeFlag, 1); ZSTD_CCtx_loadDictionary(c, g_fdict, dl);
        size_t const cs = ZSTD_compress2(c, g_fframe, sizeof g_fframe, g_fplain, sizeof g_fplain); ZSTD_freeCCtx(c);
        if (!ZSTD_isError(cs)) for (size_t o = 5; o <= 6 && o + 4 <= cs; o++) if (g_fframe[o] == 0x78 && g_fframe[o + 1] == 0x56 && g_fframe[o + 2] == 0x34 && g_fframe[o + 3] == 0x12) { g_fframeIdOff = o; g_fframeLen = cs; g_fdictLen = dl; break; }
    }
    free(buf);
}
static void build_corpus(void)
{
    vrng r = vr_make(20250101, 3, 0);       /* corpus is fixed; mutations are seeded */
    const char* root = getenv("VERIF_REPO"); if (!root) root = "/repo"; char p[600];
    /* (a) compressor output across parameters / data families */
    for (int i = 0; i < 160; i++) {
        int const fam = (int)vr_u(&r, DF_NB); size_t const n = vr_chance(&r, 1, 3) ? vr_u(&r, 2000) : pick_size(&r, 200000);
        uint8_t* x = (uint8_t*)malloc(n + 1); gen_data(&r, x, n, fam); vparams P; vp_random(&r, &P, 0); if (P.windowLog > 20) vp_level_only(&P);
        ZSTD_CCtx* c = ZSTD_createCCtx(); uint8_t* dst = (uint8_t*)malloc(ZSTD_compressBound(n) + 64); uint8_t* dict = NULL; size_t dl = 0;
        if (!ZSTD_isError(vp_apply(c, &P))) { if (vr_chance(&r, 1, 5)) { dl = 1 + vr_u(&r, 5000); dict = (uint8_t*)malloc(dl); gen_data(&r, dict, dl, fam); ZSTD_CCtx_loadDictionary(c, dict, dl); }
            size_t const cs = ZSTD_compress2(c, dst, ZSTD_compressBound(n) + 64, x, n); if (!ZSTD_isError(cs)) add_item(dst, cs, dict, dl, "compressor"); }
        ZSTD_freeCCtx(c); free(x); free(dst); free(dict);
    }
    /* (b) decodecorpus frames (format features the compressor never emits), with and without dictionary */
    {   const char* cd = getenv("VERIF_CORPUS"); if (cd) { snprintf(p, sizeof p, "%s/plain", cd); load_dir(p, "decodecorpus", NULL, 0);
            snprintf(p, sizeof p, "%s/dict/dictionary", cd); size_t dl; uint8_t* dict = slurp(p, &dl); snprintf(p, sizeof p, "%s/dict", cd); if (dict) load_dir(p, "decodecorpus+dict", dict, dl); free(dict); } }
    /* (c) golden files and legacy frames */
    snprintf(p, sizeof p, "%s/tests/golden-decompression", root); load_dir(p, "golden", NULL, 0);
    snprintf(p, sizeof p, "%s/tests/golden-decompression-errors", root); load_dir(p, "golden-errors", NULL, 0);
    snprintf(p, sizeof p, "%s/tests/golden-compression", root); load_dir(p, "golden-raw", NULL, 0);
    {   /* split the legacy blob at the magics of the supported legacy versions (v0.5 .. v0.7) and the modern one */
        const uint8_t* b = (const uint8_t*)COMPRESSED; size_t starts[32]; int ns = 0;
        for (size_t i = 0; i + 4 <= COMPRESSED_SIZE && ns < 31; i++) if (b[i + 1] == 0xB5 && b[i + 2] == 0x2F && b[i + 3] == 0xFD && b[i] >= 0x1E && b[i] <= 0x28) starts[ns++] = i;
        starts[ns] = COMPRESSED_SIZE;
        for (int i = 0; i < ns; i++) if (b[starts[i]] >= 0x25) add_item(b + starts[i], starts[i + 1] - starts[i], NULL, 0, b[starts[i]] == 0x28 ? "legacy-blob-v08" : "legacy");
        add_item(b, COMPRESSED_SIZE, NULL, 0, "legacy-all-versions"); }
    for (size_t i = 0; i < g_nCorpus && g_nLegacy < 64; i++) if (!strcmp(g_corpus[i].origin, "legacy")) g_legacyIdx[g_nLegacy++] = i;
    /* (d) skippable + multi-frame */
    {   uint8_t buf[600]; uint8_t pay[100]; vr_fill(&r, pay, 100); size_t w = ZSTD_writeSkippableFrame(buf, sizeof buf, pay, 100, 3); if (!ZSTD_isError(w)) { add_item(buf, w, NULL, 0, "skippable"); if (g_nCorpus > 2) { uint8_t* cat = (uint8_t*)malloc(w + g_corpus[0].n + g_corpus[1].n); memcpy(cat, g_corpus[0].p, g_corpus[0].n); memcpy(cat + g_corpus[0].n, buf, w); memcpy(cat + g_corpus[0].n + w, g_corpus[1].p, g_corpus[1].n); add_item(cat, w + g_corpus[0].n + g_corpus[1].n, NULL, 0, "multi-frame"); free(cat); } } }
}

/* field-aware mutation: R reports where header fields, block headers, literals headers and sequence headers are */
static const char* mutate(vrng* r, const item* it, uint8_t** outp, size_t* outn)
{
    size_t n = it->n; uint8_t* m = (uint8_t*)malloc(n + 64 + 4096); memcpy(m, it->p, n); const char* kind;
    switch (vr_u(r, 12)) {
    case 0: { int k = 1 + (int)vr_u(r, 3); while (k-- && n) m[vr_u64(r, n)] ^= (uint8_t)(1u << vr_u(r, 8)); kind = "bitflip"; break; }
    case 1: { int k = 1 + (int)vr_u(r, 6); while (k-- && n) m[vr_u64(r, n)] = (uint8_t)vr_u(r, 256); kind = "bytes"; break; }
    case 2: n = n ? vr_u64(r, n) : 0; kind = "truncate"; break;
    case 3: { const item* o = &g_corpus[vr_u64(r, g_nCorpus)]; size_t cut = n ? vr_u64(r, n) : 0; size_t oc = o->n ? vr_u64(r, o->n) : 0; size_t take = V_MIN(o->n - oc, (size_t)4096); memcpy(m + cut, o->p + oc, take); n = cut + take; kind = "splice"; break; }
    case 4: case 5: case 6: case 7: {   /* field-aware */
        refdec_info_t I; memset(&I, 0, sizeof I); I.keep_blocks = 1; uint8_t* tmp = (uint8_t*)malloc(1u << 20); refdec_dict_t* rd = it->dict ? refdec_dict_create(it->dict, it->dl, 0) : NULL;
        refdec_decode(tmp, 1u << 20, it->p, it->n, rd, &I, 1);      /* partial parse is fine: we only need positions */
        kind = "field:none";
        if (I.nb_frames && !I.frames[0].skippable) {
            static const uint8_t edge[] = { 0x00, 0x01, 0x7F, 0x80, 0xFE, 0xFF, 0x3F, 0x40 };
            switch (vr_u(r, 6)) {
            case 0: if (n > 4) { m[4] = vr_chance(r, 1, 2) ? (uint8_t)vr_u(r, 256) : (uint8_t)(m[4] ^ (1u << vr_u(r, 8))); kind = "field:descriptor"; } break;
            case 1: if (n > 6) { m[5] = (uint8_t)vr_u(r, 256); if (vr_chance(r, 1, 2)) m[6] = edge[vr_u(r, 8)]; kind = "field:window/dictid/fcs"; } break;
            case 2: if (I.nb_blocks) { const refdec_block_t* B = &I.blocks[vr_u64(r, I.nb_blocks)]; if (B->src_off + 3 <= n) { uint32_t h = (uint32_t)m[B->src_off] | ((uint32_t)m[B->src_off + 1] << 8) | ((uint32_t)m[B->src_off + 2] << 16);
                    switch (vr_u(r, 4)) { case 0: h ^= 1; break; case 1: h = (h & ~6u) | (vr_u(r, 4) << 1); break; case 2: h = (h & 7) | ((vr_chance(r, 1, 2) ? (128u << 10) + vr_u(r, 3) - 1 : vr_u(r, 1u << 21)) << 3); break; default: h = (h & 7) | ((((h >> 3) + vr_u(r, 5)) - 2) << 3); }
                    m[B->src_off] = (uint8_t)h; m[B->src_off + 1] = (uint8_t)(h >> 8); m[B->src_off + 2] = (uint8_t)(h >> 16); kind = "field:block-header"; } } break;
            case 3: if (I.nb_blocks) { const refdec_block_t* B = &I.blocks[vr_u64(r, I.nb_blocks)]; if (B->type == 2 && B->src_off + 8 <= n) { size_t o = B->src_off + 3 + vr_u(r, 5); m[o] = vr_chance(r, 1, 2) ? edge[vr_u(r, 8)] : (uint8_t)vr_u(r, 256); kind = "field:literals-section-header"; } } break;
            case 4: if (I.nb_blocks) { const refdec_block_t* B = &I.blocks[vr_u64(r, I.nb_blocks)]; if (B->type == 2) { size_t lh = 3 + (B->lit_rsize > 1023) + (B->lit_rsize > 16383); if (B->lit_type < 2) lh = 1 + (B->lit_rsize > 31) + (B->lit_rsize > 4095); size_t o = B->src_off + 3 + lh + (B->lit_type == 1 ? 1 : B->lit_type == 0 ? B->lit_rsize : B->lit_csize); if (o + 4 <= n && o < B->src_off + 3 + B->csize) { size_t q = o + vr_u(r, 4); m[q] = vr_chance(r, 1, 2) ? edge[vr_u(r, 8)] : (uint8_t)vr_u(r, 256); kind = "field:sequences-header/modes/tables"; } } } break;
            default: if (I.nb_blocks) { const refdec_block_t* B = &I.blocks[vr_u64(r, I.nb_blocks)]; if (B->type == 2 && B->lit_type >= 2 && B->src_off + 12 <= n) { size_t o = B->src_off + 3 + 3 + vr_u(r, 6); if (o < n) { m[o] = (uint8_t)vr_u(r, 256); kind = "field:huffman-tree/jump-table"; } } } break;
            }
        }
        refdec_info_free(&I); refdec_dict_free(rd); free(tmp);
        break; }
    case 8: { n = vr_u(r, 300); vr_fill(r, m, n); kind = "random"; break; }
    case 9: { size_t keep = V_MIN(n, (size_t)(4 + vr_u(r, 14))); size_t extra = vr_u(r, 400); vr_fill(r, m + keep, extra); n = keep + extra; kind = "random-after-header"; break; }
    case 10: kind = "unchanged"; break;
    default: { size_t e = vr_u(r, 64); vr_fill(r, m + n, e); n += e; kind = "trailing-bytes"; break; }
    }
    *outp = m; *outn = n; return kind;
}

static const char* g_ep = "?"; static const char* g_kind = "?"; static const char* g_origin = "?";
static void chk(size_t ret, size_t cap) { if (!ZSTD_isError(ret) && ret > cap) v_viol("returned-size-exceeds-capacity", "entry=%s ret=%zu cap=%zu mutation=%s origin=%s", g_ep, ret, cap, g_kind, g_origin); }
static void canary(gbuf* g) { if (!gb_ok(g)) v_viol("write-outside-buffer(canary)", "entry=%s mutation=%s origin=%s", g_ep, g_kind, g_origin); }

static void stream_decode(ZSTD_DCtx* d, const uint8_t* src, size_t n, size_t cap, vrng* r, int stable)
{
    gbuf out = gb_alloc(cap, 0); ZSTD_inBuffer in = { src, 0, 0 }; ZSTD_outBuffer ob = { out.p, 0, 0 }; int noprog = 0; long calls = 0;
    size_t const ic = 1 + vr_u64(r, vr_chance(r, 1, 3) ? 8 : n + 1), oc = stable ? cap : 1 + vr_u64(r, vr_chance(r, 1, 3) ? 8 : cap + 1);
    if (stable) ZSTD_DCtx_setParameter(d, ZSTD_d_stableOutBuffer, 1);
    for (;;) {
        if (in.pos == in.size) in.size = V_MIN(n, in.size + ic);
        ob.size = stable ? cap : V_MIN(cap, ob.pos + oc);
        size_t const ib = in.pos, obp = ob.pos;
        size_t const ret = ZSTD_decompressStream(d, &ob, &in); calls++;
        if (ZSTD_isError(ret)) break;
        if (ob.pos > ob.size || in.pos > in.size) { v_viol("stream-position-beyond-buffer", "entry=%s", g_ep); break; }
        if (ret == 0 && in.pos == n) break;
        if (in.pos == ib && ob.pos == obp) {     /* no progress although input and output space are available: must turn into an error within the documented bound */
            int const hasIn = in.pos < in.size, hasOut = ob.pos < ob.size;
            if (in.size == n && !hasIn) { if (++noprog > 40) break; }          /* input exhausted: legitimate end of this history (truncated input) */
            else if (hasIn && hasOut) { if (++noprog > 20) { v_viol("stream-loops-without-progress", "entry=%s mutation=%s origin=%s in=%zu/%zu out=%zu/%zu", g_ep, g_kind, g_origin, in.pos, n, ob.pos, cap); break; } }
            else if (!hasOut) break;                                               /* output full */
        } else noprog = 0;
        if (calls > 4000000) { v_viol("stream-too-many-calls", "entry=%s", g_ep); break; }
    }
    canary(&out); gb_free(&out);
}

static void exercise(vrng* rp, const item* it, uint8_t* m, size_t n);
static void run_case(long idx)
{
    vrng r = vr_make(V.seed, 103, (uint64_t)idx);
    const item* it = &g_corpus[vr_u64(&r, g_nCorpus)];
    if (g_nLegacy && vr_chance(&r, 1, 8)) it = &g_corpus[g_legacyIdx[vr_u64(&r, g_nLegacy)]];     /* legacy decoders get a fixed share */
    uint8_t* m; size_t n; g_kind = mutate(&r, it, &m, &n); g_origin = it->origin;
    exercise(&r, it, m, n);
}
/* every decode / inspection entry point on the bytes m[0..n) (freed here); `it` = the frame they were derived from (capacity guesses, dictionary) */
static void exercise(vrng* rp, const item* it, uint8_t* m, size_t n)
{
    vrng r = *rp;
    if (!strncmp(it->origin, "legacy", 6) && n > 12 && vr_chance(&r, 1, 2)) {
        /* legacy frame layouts (v0.5-v0.7): descriptor / window byte after the magic, 3-byte block headers (type in the top 2 bits, 19..22-bit size) */
        switch (vr_u(&r, 6)) {
        case 5: {   /* a frame assembled for this legacy version: smallest windows + one raw block that announces more than the window (up to and beyond 128 KiB) + end mark;
                     * the legacy streaming decoders size their input buffer from the window */
            uint8_t const ver = m[0]; size_t const S = vr_chance(&r, 1, 6) ? (128u << 10) + vr_u(&r, 3) - 1 : 1025 + vr_u(&r, vr_chance(&r, 1, 2) ? 8000 : 130000); size_t const supplied = vr_chance(&r, 1, 4) ? vr_u64(&r, S) : S;
            uint8_t* f = (uint8_t*)malloc(16 + S + 16); size_t o = 4; memcpy(f, m, 4);
            if (ver == 0x27) { f[o++] = 0; f[o++] = (uint8_t)(vr_u(&r, 7) << 3); } else f[o++] = (uint8_t)vr_u(&r, 6);      /* v0.7: descriptor + window byte; v0.5 / v0.6: window log in the low bits */
            f[o++] = (uint8_t)((1u << 6) | ((S >> 16) & 7)); f[o++] = (uint8_t)(S >> 8); f[o++] = (uint8_t)S; vr_fill(&r, f + o, supplied); o += supplied;
            if (supplied == S) { f[o++] = 0xC0; f[o++] = 0; f[o++] = 0; }
            free(m); m = f; n = o; g_kind = "legacy:small-window+raw-block-beyond-the-window"; break; }
        case 4: { m[4] = vr_chance(&r, 1, 2) ? (uint8_t)vr_u(&r, 256) : (uint8_t)((m[4] & 0x1C) | vr_u(&r, 4) | (vr_u(&r, 4) << 6) | (vr_u(&r, 2) << 5)); size_t const keep = 5 + vr_u(&r, 18); if (keep < n) n = keep; g_kind = "legacy:descriptor+cut-inside-the-header"; break; }   /* header longer than what is supplied */
        case 0: m[4] = (uint8_t)vr_u(&r, 256); m[5] = (uint8_t)(vr_chance(&r, 1, 2) ? vr_u(&r, 16) : vr_u(&r, 256)); g_kind = "legacy:descriptor/window"; break;
        case 1: { size_t const o = 5 + vr_u(&r, 6); m[o] = (uint8_t)((vr_u(&r, 3) << 6) | 7); m[o + 1] = 0xFF; m[o + 2] = (uint8_t)(0xF0 | vr_u(&r, 16)); g_kind = "legacy:block-header-max-size"; break; }
        case 2: { size_t const o = 5 + vr_u(&r, 6); m[o] = (uint8_t)((vr_u(&r, 4) << 6) | vr_u(&r, 8)); m[o + 1] = (uint8_t)vr_u(&r, 256); m[o + 2] = (uint8_t)vr_u(&r, 256); g_kind = "legacy:block-header"; break; }
        default: { size_t const o = 4 + vr_u64(&r, n - 4); m[o] = (uint8_t)vr_u(&r, 256); g_kind = "legacy:byte"; } }
    }
    gbuf src = gb_alloc(n, 0); memcpy(src.p, m, n); free(m);           /* exact-size source: any over-read faults */
    /* plausible content size for capacity choices */
    unsigned long long const fcs = ZSTD_getFrameContentSize(it->p, it->n); size_t const guess = (fcs < (1u << 22)) ? (size_t)fcs : (it->n * 8 + 1000 < (1u << 22) ? it->n * 8 + 1000 : (1u << 22));
    size_t caps[4] = { 0, 1 + vr_u(&r, 16), guess, guess + 1 + vr_u(&r, 70000) }; size_t cap = caps[vr_u(&r, 4)];
    if (vr_chance(&r, 1, 5)) {   /* capacity class "literal-buffer placement": the one-shot decoder keeps a block's literals inside dst when the room left is
                                  * more than blockSizeMax + margins + litSize: pick capacities around that edge for a block of the original frame */
        ZSTD_frameHeader fh; if (ZSTD_getFrameHeader(&fh, it->p, it->n) == 0 && fh.frameType == ZSTD_frame) {
            refdec_info_t I; memset(&I, 0, sizeof I); I.keep_blocks = 1; uint8_t* tmp = (uint8_t*)malloc(1u << 22); refdec_dict_t* rd = it->dict ? refdec_dict_create(it->dict, it->dl, 0) : NULL;
            refdec_decode(tmp, 1u << 22, it->p, it->n, rd, &I, 1);
            if (I.nb_blocks) { size_t const b = vr_u64(&r, I.nb_blocks); size_t before = 0; for (size_t i = 0; i < b; i++) before += I.blocks[i].rsize;
                if (I.blocks[b].type == 2) { cap = before + fh.blockSizeMax + 32 + I.blocks[b].lit_rsize + vr_u(&r, 72) - 4; v_stat("caps_at_literal_buffer_edge", 1); } }
            refdec_info_free(&I); refdec_dict_free(rd); free(tmp); } }
#ifndef H_C03_FUZZ
    v_budget(5.0 + 2e-6 * (double)(n + cap) * 40);       /* all entry points together; linear in sizes */
#endif
    v_stat("inputs", 1); v_cell("mutation", "%s|%s", g_origin, g_kind);
    const uint8_t* dict = it->dict; size_t dl = it->dl; uint8_t rdict[300]; if (!dict && vr_chance(&r, 1, 4)) { dl = 8 + vr_u(&r, 292); vr_fill(&r, rdict, dl); if (vr_chance(&r, 1, 2)) { rdict[0] = 0x37; rdict[1] = 0xA4; rdict[2] = 0x30; rdict[3] = 0xEC; } dict = rdict; }
    ZSTD_DCtx* d = ZSTD_createDCtx();
    {   g_ep = "ZSTD_decompress"; gbuf o = gb_alloc(cap, 0); size_t const ret = ZSTD_decompress(o.p, cap, src.p, n); chk(ret, cap); canary(&o); v_cell("outcome", "%s|%s", g_ep, ZSTD_isError(ret) ? ZSTD_getErrorName(ret) : "success"); gb_free(&o); }
    {   g_ep = "ZSTD_decompressDCtx(reused)"; gbuf o = gb_alloc(cap, 1); size_t const ret = ZSTD_decompressDCtx(d, o.p, cap, src.p, n); chk(ret, cap); canary(&o); gb_free(&o); }
    if (dict) { g_ep = "ZSTD_decompress_usingDict"; gbuf o = gb_alloc(cap, 0); gbuf gd = gb_alloc(dl, 0); memcpy(gd.p, dict, dl); size_t const ret = ZSTD_decompress_usingDict(d, o.p, cap, src.p, n, gd.p, dl); chk(ret, cap); canary(&o); gb_free(&o);
        g_ep = "ZSTD_createDDict+usingDDict"; ZSTD_DDict* dd = ZSTD_createDDict(gd.p, dl); if (dd) { gbuf o2 = gb_alloc(cap, 0); size_t const r2 = ZSTD_decompress_usingDDict(d, o2.p, cap, src.p, n, dd); chk(r2, cap); canary(&o2); gb_free(&o2); (void)ZSTD_getDictID_fromDDict(dd); ZSTD_freeDDict(dd); }
        g_ep = "ZSTD_DCtx_loadDictionary/refPrefix"; ZSTD_DCtx_reset(d, ZSTD_reset_session_and_parameters); (void)ZSTD_DCtx_loadDictionary(d, gd.p, dl); { gbuf o3 = gb_alloc(cap, 0); size_t const r3 = ZSTD_decompressDCtx(d, o3.p, cap, src.p, n); chk(r3, cap); canary(&o3); gb_free(&o3); }
        ZSTD_DCtx_reset(d, ZSTD_reset_session_and_parameters); (void)ZSTD_DCtx_refPrefix(d, gd.p, dl); { gbuf o4 = gb_alloc(cap, 0); size_t const r4 = ZSTD_decompressDCtx(d, o4.p, cap, src.p, n); chk(r4, cap); canary(&o4); gb_free(&o4); }
        (void)ZSTD_getDictID_fromDict(gd.p, dl); gb_free(&gd); ZSTD_DCtx_reset(d, ZSTD_reset_session_and_parameters); }
    {   g_ep = "ZSTD_decompressStream"; ZSTD_DCtx_reset(d, ZSTD_reset_session_and_parameters); if (vr_chance(&r, 1, 3)) ZSTD_DCtx_setParameter(d, ZSTD_d_windowLogMax, (int)vr_range(&r, 10, 27)); stream_decode(d, src.p, n, cap, &r, 0);
        g_ep = "ZSTD_decompressStream(stableOut)"; ZSTD_DCtx_reset(d, ZSTD_reset_session_and_parameters); stream_decode(d, src.p, n, cap, &r, 1);
        /* the table of referenced DDicts lives as long as the DCtx (freed by ZSTD_freeDCtx only): own DCtx, freed before its DDicts */
        if (dict) { g_ep = "ZSTD_decompressStream(multiDDict)"; ZSTD_DCtx* dm = ZSTD_createDCtx(); ZSTD_DCtx_setParameter(dm, ZSTD_d_refMultipleDDicts, 1); ZSTD_DDict* dds[6]; int nd = 0; for (int i = 0; i < 6; i++) { uint8_t db[64]; memcpy(db, dict, V_MIN(dl, (size_t)64)); if (dl >= 8) db[4] = (uint8_t)i; ZSTD_DDict* dd = ZSTD_createDDict(db, V_MIN(dl, (size_t)64)); if (dd) { dds[nd++] = dd; ZSTD_DCtx_refDDict(dm, dd); } } stream_decode(dm, src.p, n, cap, &r, 0); ZSTD_freeDCtx(dm); for (int i = 0; i < nd; i++) ZSTD_freeDDict(dds[i]); } }
    if (g_fdictLen && vr_chance(&r, 1, 6)) {   /* table of many DDicts with random dictIDs (ZSTD_d_refMultipleDDicts), frames naming present / absent IDs */
        g_ep = "refMultipleDDicts(table of random dictIDs)"; int const K = 1 + (int)vr_u(&r, vr_chance(&r, 1, 2) ? 70 : 300); ZSTD_DDict** dds = (ZSTD_DDict**)calloc((size_t)K, sizeof *dds); uint32_t* ids = (uint32_t*)calloc((size_t)K, sizeof *ids);
        uint8_t* db = (uint8_t*)malloc(g_fdictLen); memcpy(db, g_fdict, g_fdictLen); ZSTD_DCtx* const dm = ZSTD_createDCtx(); ZSTD_DCtx_setParameter(dm, ZSTD_d_refMultipleDDicts, ZSTD_rmd_refMultipleDDicts);
        for (int i = 0; i < K; i++) { uint32_t id = (uint32_t)vr_next(&r) | 0x10000u; if (i && vr_chance(&r, 1, 10)) id = ids[vr_u(&r, (uint32_t)i)]; ids[i] = id; db[4] = (uint8_t)id; db[5] = (uint8_t)(id >> 8); db[6] = (uint8_t)(id >> 16); db[7] = (uint8_t)(id >> 24);
            dds[i] = ZSTD_createDDict(db, g_fdictLen); if (dds[i]) (void)ZSTD_DCtx_refDDict(dm, dds[i]); }
        for (int t = 0; t < 24; t++) { uint8_t f[sizeof g_fframe]; memcpy(f, g_fframe, g_fframeLen); int const present = (int)vr_u(&r, 2); uint32_t const id = present ? ids[vr_u(&r, (uint32_t)K)] : ((uint32_t)vr_next(&r) | 0x10000u);
            f[g_fframeIdOff] = (uint8_t)id; f[g_fframeIdOff + 1] = (uint8_t)(id >> 8); f[g_fframeIdOff + 2] = (uint8_t)(id >> 16); f[g_fframeIdOff + 3] = (uint8_t)(id >> 24);
            gbuf o = gb_alloc(sizeof g_fplain, 0); gbuf fi = gb_alloc(g_fframeLen, 0); memcpy(fi.p, f, g_fframeLen); size_t ret;
            if (t & 1) ret = ZSTD_decompressDCtx(dm, o.p, o.size, fi.p, fi.size);
            else { ZSTD_inBuffer in = { fi.p, 0, 0 }; ZSTD_outBuffer ob = { o.p, o.size, 0 }; size_t const step = 1 + vr_u(&r, 12); int g = 0; ret = 1; while (ret != 0 && !ZSTD_isError(ret) && ++g < 10000) { in.size = V_MIN(fi.size, in.size + step); ret = ZSTD_decompressStream(dm, &ob, &in); if (in.pos == fi.size && in.size == fi.size && ret != 0 && !ZSTD_isError(ret)) break; }
                if (!ZSTD_isError(ret)) ret = ob.pos; ZSTD_DCtx_reset(dm, ZSTD_reset_session_only); }
            if (!ZSTD_isError(ret) && (ret != sizeof g_fplain || memcmp(o.p, g_fplain, sizeof g_fplain))) v_viol("multi-ddict:wrong-bytes-reported-as-success", "K=%d id=%u present=%d", K, id, present);
            if (present && ZSTD_isError(ret)) v_stat("multi_ddict_present_id_refused", 1);   /* not a C03 matter; counted */
            if (present && !ZSTD_isError(ret)) v_stat("multi_ddict_present_id_decoded", 1);
            canary(&o); gb_free(&o); gb_free(&fi); v_stat("multi_ddict_lookups", 1); }
        v_stat("multi_ddict_tables", 1); v_statmax("multi_ddict_table_max_entries", K);
        ZSTD_freeDCtx(dm); for (int i = 0; i < K; i++) ZSTD_freeDDict(dds[i]); free(dds); free(ids); free(db);
    }
    if (vr_chance(&r, 1, 3)) {   /* decoder living in caller-provided memory that ends at a guard page: sized for streaming with window W0, or for one-shot use only */
        size_t const w0 = (size_t)1 << vr_range(&r, 10, 20); int const oneShotOnly = vr_chance(&r, 1, 4);
        size_t wsz = oneShotOnly ? ZSTD_estimateDCtxSize() : ZSTD_estimateDStreamSize(w0 + vr_u(&r, 3) * 128); wsz = (wsz + 7) & ~(size_t)7;
        gbuf ws = gb_alloc(wsz, 0); ZSTD_DCtx* sd = ZSTD_initStaticDCtx(ws.p, wsz);
        if (sd) { g_ep = oneShotOnly ? "static DCtx (one-shot size)" : "static DStream (sized for a window)";
            {   gbuf o = gb_alloc(cap, 0); size_t const ret = ZSTD_decompressDCtx(sd, o.p, cap, src.p, n); chk(ret, cap); canary(&o); gb_free(&o); }
            ZSTD_DCtx_reset(sd, ZSTD_reset_session_only); stream_decode(sd, src.p, n, cap, &r, 0);
            ZSTD_DCtx_reset(sd, ZSTD_reset_session_only); stream_decode(sd, src.p, n, cap, &r, 1);
            v_stat("static_dctx_runs", 1); }
        canary(&ws); gb_free(&ws); }
    {   g_ep = "ZSTD_decompressContinue"; ZSTD_DCtx_reset(d, ZSTD_reset_session_and_parameters); ZSTD_decompressBegin(d); gbuf o = gb_alloc(cap, 0); size_t ip = 0, op = 0; long guard = 0;
        for (;;) { size_t const need = ZSTD_nextSrcSizeToDecompress(d); if (need == 0 || need > n - ip) break; size_t const ret = ZSTD_decompressContinue(d, o.p + op, cap - op, src.p + ip, need); if (ZSTD_isError(ret)) break; if (ret > cap - op) { v_viol("returned-size-exceeds-capacity", "entry=%s", g_ep); break; } ip += need; op += ret; if (++guard > 3000000) { v_viol("bufferless-too-many-steps", "n=%zu", n); break; } }
        canary(&o); gb_free(&o); }
    {   g_ep = "ZSTD_decompressBlock"; ZSTD_DCtx_reset(d, ZSTD_reset_session_and_parameters); ZSTD_decompressBegin(d); size_t const bc = V_MIN(cap, (size_t)(128u << 10)); gbuf o = gb_alloc(bc, 0); size_t const bn = V_MIN(n, (size_t)(128u << 10)); size_t const off = n > bn ? vr_u64(&r, n - bn + 1) : 0; size_t const ret = ZSTD_decompressBlock(d, o.p, bc, src.p + off, bn); chk(ret, bc); canary(&o); gb_free(&o); }
    {   g_ep = "inspectors"; ZSTD_frameHeader fh; (void)ZSTD_getFrameHeader(&fh, src.p, n); (void)ZSTD_getFrameHeader_advanced(&fh, src.p, n, ZSTD_f_zstd1_magicless); (void)ZSTD_getFrameContentSize(src.p, n);
        {   size_t const fc = ZSTD_findFrameCompressedSize(src.p, n); if (!ZSTD_isError(fc) && fc > n) v_viol("findFrameCompressedSize-exceeds-input", "ret=%zu n=%zu mutation=%s", fc, n, g_kind); }
        (void)ZSTD_findDecompressedSize(src.p, n); (void)ZSTD_decompressBound(src.p, n); (void)ZSTD_decompressionMargin(src.p, n); (void)ZSTD_frameHeaderSize(src.p, n); (void)ZSTD_isFrame(src.p, n); (void)ZSTD_getDictID_fromFrame(src.p, n); (void)ZSTD_estimateDStreamSize_fromFrame(src.p, n);
        (void)ZSTD_getDecompressedSize(src.p, n);
        if (ZSTD_isSkippableFrame(src.p, n)) { unsigned mv = 0; gbuf o = gb_alloc(cap, 0); size_t const ret = ZSTD_readSkippableFrame(o.p, cap, &mv, src.p, n); chk(ret, cap); canary(&o); gb_free(&o); } }
    /* in-place decoding: output buffer overlapping the input, as advertised */
    {   g_ep = "in-place"; size_t const margin = ZSTD_decompressionMargin(src.p, n); unsigned long long const b = ZSTD_decompressBound(src.p, n);
        if (!ZSTD_isError(margin) && b != ZSTD_CONTENTSIZE_ERROR && b < (1u << 22) && margin < (1u << 22)) { gbuf buf = gb_alloc((size_t)b + margin, 0); if (buf.size >= n) { uint8_t* ip = buf.p + buf.size - n; memcpy(ip, src.p, n); size_t const ret = ZSTD_decompressDCtx(d, buf.p, buf.size, ip, n); chk(ret, buf.size); canary(&buf); } gb_free(&buf); } }
    if (!gb_ok(&src)) v_viol("write-into-source-buffer-zone", "mutation=%s", g_kind);
    v_sample("origin=%s mutation=%s n=%zu cap=%zu dict=%zu", g_origin, g_kind, n, cap, dl);
    ZSTD_freeDCtx(d); gb_free(&src);
}

#ifdef H_C03_FUZZ
/* coverage-guided stage (libFuzzer, clang ASan+UBSan build): the input is the byte string presented as compressed data; its last byte selects
 * whether a dictionary accompanies it. Every violation (sanitizer report or monitor verdict) aborts, so that libFuzzer keeps the input as artifact. */
static uint8_t g_fzdict[4096]; static size_t g_fzdictLen;
int LLVMFuzzerInitialize(int* argc, char*** argv);
int LLVMFuzzerInitialize(int* argc, char*** argv)
{
    (void)argc; (void)argv; V.seed = 1; V.casefd = -1; V.max_samples = 0; V.progname = "h_c03fuzz"; vp_trace_on = 0; setvbuf(stdout, NULL, _IOFBF, 1 << 16);
    build_fdict(); if (g_fdictLen) { g_fzdictLen = V_MIN(g_fdictLen, sizeof g_fzdict); memcpy(g_fzdict, g_fdict, g_fzdictLen); }
    return 0;
}
int LLVMFuzzerTestOneInput(const uint8_t* data, size_t size);
int LLVMFuzzerTestOneInput(const uint8_t* data, size_t size)
{
    if (size == 0) return 0;
    int const withDict = data[size - 1] & 1; size--;                 /* last byte = flags, the rest is the untrusted input */
    uint64_t h = 1469598103934665603ULL; for (size_t i = 0; i < size; i++) h = (h ^ data[i]) * 1099511628211ULL;
    vrng r = vr_make(0xF022, 7, h);
    item it; memset(&it, 0, sizeof it); it.p = (uint8_t*)data; it.n = size; it.origin = "fuzz"; g_kind = "libfuzzer"; g_origin = "fuzz";
    if (withDict && g_fzdictLen) { it.dict = g_fzdict; it.dl = g_fzdictLen; }
    uint8_t* m = (uint8_t*)malloc(size + 1); memcpy(m, data, size);
    V.cur_case++; exercise(&r, &it, m, size);
    return 0;
}
#else
int main(int argc, char** argv)
{
    v_init(argc, argv); vp_trace_on = 0;
    build_corpus(); build_fdict();
    {   const char* dd = v_opt("dump-corpus", NULL);     /* seed corpus for the coverage-guided stage: the frames, plus one mutation of each */
        if (dd) { for (size_t i = 0; i < g_nCorpus; i++) { if (g_corpus[i].n > (96u << 10)) continue; for (int k = 0; k < 2; k++) { char p[1200]; snprintf(p, sizeof p, "%s/s%04zu_%d", dd, i, k); FILE* f = fopen(p, "wb"); if (!f) return 2;
                    if (k == 0) fwrite(g_corpus[i].p, 1, g_corpus[i].n, f); else { vrng r = vr_make(V.seed, 104, i); uint8_t* m; size_t n; (void)mutate(&r, &g_corpus[i], &m, &n); if (n > (96u << 10)) n = 96u << 10; fwrite(m, 1, n, f); free(m); }
                    if (g_corpus[i].dict) fputc(1, f); else fputc(0, f); fclose(f); } }
            printf("STAT\tcorpus_dumped\t%zu\n", g_nCorpus); return 0; } }
    if (g_nCorpus < 50) { fprintf(stderr, "corpus too small (%zu)\n", g_nCorpus); return 2; }
    {   char b[64]; snprintf(b, sizeof b, "%zu", g_nCorpus); v_cell("corpus_size", "%s", b); }
    for (long i = V.from; i < V.to; i++) { v_case(i); run_case(i); }
    return v_finish();
}
#endif
