/* h_c17.c - C17: sequence-level compression: valid parses round-trip (library decoder + R), invalid ones are refused.
 * stream A (side=0): positive half - parses from a random parser written here, from ZSTD_generateSequences, via a registered producer
 * stream B (side=1): negative half - in-scope structural corruptions must be rejected with validation on; arbitrary arrays memory-safe */
#include "vparams.h"
#include "refdec.h"
#include "vdict.h"

static size_t g_maxSize;

/* ---------------------------------------------------------------- a random LZ parser (independent of lib/) */
typedef struct { ZSTD_Sequence* s; size_t n, cap; } seqvec;
static void sv_push(seqvec* v, uint32_t off, uint32_t ll, uint32_t ml) { if (v->n == v->cap) { v->cap = v->cap ? v->cap * 2 : 256; v->s = (ZSTD_Sequence*)realloc(v->s, v->cap * sizeof(ZSTD_Sequence)); if (!v->s) exit(2); } v->s[v->n].offset = off; v->s[v->n].litLength = ll; v->s[v->n].matchLength = ml; v->s[v->n].rep = 0; v->n++; }

typedef struct { size_t window; size_t blockMax; unsigned minMatch; int explicitDelims; size_t dictLen; const uint8_t* dict; int style; } parsecfg;

/* parse src[0..n) into sequences. Offsets obey: off <= window, and off <= pos (+ dictLen while pos <= window).
 * explicit delimiters: blocks of random size <= blockMax, no match crosses a block end (split or turned into literals). */
static void parse(vrng* r, const uint8_t* src, size_t n, const parsecfg* C, seqvec* out, long* stats)
{
    enum { HB = 16 }; static uint32_t* ht; if (!ht) ht = (uint32_t*)malloc(sizeof(uint32_t) << HB);
    memset(ht, 0xFF, sizeof(uint32_t) << HB);
    /* virtual buffer = dict ++ src so that matches may reach into the dictionary */
    size_t const D = C->dictLen; size_t const total = D + n;
    uint8_t* vb = (uint8_t*)malloc(total + 8); if (D) memcpy(vb, C->dict, D); memcpy(vb + D, src, n);
    unsigned const mm = C->minMatch < 4 ? 3 : C->minMatch;   /* matches never shorter than the context's minMatch (>= 4 unless minMatch == 3) */
    unsigned const hlen = mm < 4 ? 3 : 4;
    #define HASH(p) ((((uint32_t)(p)[0] | ((uint32_t)(p)[1] << 8) | ((uint32_t)(p)[2] << 16) | (hlen == 4 ? ((uint32_t)(p)[3] << 24) : 0)) * 2654435761u) >> (32 - HB))
    for (size_t i = 0; i + hlen <= D; i++) ht[HASH(vb + i)] = (uint32_t)i;
    size_t pos = 0, anchor = 0;          /* positions in src */
    size_t const firstBlk = 1 + vr_u64(r, C->blockMax);
    size_t blockEnd = C->explicitDelims ? V_MIN(n, firstBlk) : n;
    size_t lastOff = 0;
    while (pos < n) {
        size_t const bEnd = C->explicitDelims ? blockEnd : n;
        size_t ml = 0, off = 0;
        if (pos + hlen <= n) {
            uint32_t const h = HASH(vb + D + pos); uint32_t const cand = ht[h]; ht[h] = (uint32_t)(D + pos);
            /* repcode-heavy style: try the previous offset first */
            if (C->style == 1 && lastOff && lastOff <= pos && !memcmp(vb + D + pos, vb + D + pos - lastOff, hlen)) { off = lastOff; }
            else if (cand != 0xFFFFFFFFu) { off = D + pos - cand; }
            if (off) {
                size_t const reach = (pos <= C->window) ? pos + D : pos;     /* history available at match start */
                if (off > C->window || off > reach || off == 0) off = 0;
            }
            if (off) {
                const uint8_t* a = vb + D + pos; const uint8_t* b = a - off; size_t lim = bEnd - pos;
                if (C->style == 2 && vr_chance(r, 1, 3)) { size_t const cap2 = mm + vr_u(r, 6); if (cap2 < lim) lim = cap2; }     /* short matches */
                while (ml < lim && a[ml] == b[ml]) ml++;
                if (ml < mm || (C->style == 3 && vr_chance(r, 1, 3))) { ml = 0; off = 0; }            /* random skipping */
            }
        }
        if (ml) {
            sv_push(out, (uint32_t)off, (uint32_t)(pos - anchor), (uint32_t)ml);
            if (off > pos) stats[0]++;                    /* reaches into dictionary */
            if (ml > 65535) stats[1]++;
            if (pos / (128u << 10) != (pos + ml - 1) / (128u << 10)) stats[2]++;    /* crosses a 128 KiB boundary */
            lastOff = off; pos += ml; anchor = pos;
        } else pos++;
        if (C->explicitDelims && pos >= blockEnd) {
            sv_push(out, 0, (uint32_t)(blockEnd - anchor), 0);     /* delimiter carries the last literals */
            anchor = pos = blockEnd; stats[3]++;
            {   size_t const nb = blockEnd + 1 + (vr_chance(r, 1, 3) ? vr_u64(r, C->blockMax) : C->blockMax - vr_u(r, 3)); blockEnd = V_MIN(n, nb); }
            if (blockEnd - anchor > C->blockMax) blockEnd = anchor + C->blockMax;
        }
    }
    if (C->explicitDelims) { if (anchor < n || n == 0 || out->n == 0 || out->s[out->n - 1].offset != 0 || out->s[out->n - 1].matchLength != 0) sv_push(out, 0, (uint32_t)(n - anchor), 0); }
    /* no-delimiter mode: trailing literals are implicit */
    free(vb);
    #undef HASH
}

/* independent re-statement of the documented structural rules (in-scope invalidity) */
static const char* list_invalid(const ZSTD_Sequence* s, size_t ns, size_t srcSize, size_t window, size_t dictLen, size_t blockMax, int explicitDelims)
{
    size_t pos = 0, blockLen = 0; int sawDelimAtEnd = 0;
    for (size_t i = 0; i < ns; i++) {
        uint64_t const ll = s[i].litLength, ml = s[i].matchLength, off = s[i].offset;
        if (explicitDelims && off == 0) {
            if (ml != 0) return "malformed delimiter (offset 0, matchLength != 0)";
            blockLen += ll; pos += ll;
            if (blockLen > blockMax) return "block longer than the block size limit";
            if (pos > srcSize) return "blocks longer than the source";
            blockLen = 0; sawDelimAtEnd = 1; continue;
        }
        sawDelimAtEnd = 0;
        {   uint64_t const start = pos + ll;            /* position at the start of the match */
            uint64_t const bound = start > window ? window : start + dictLen;
            if (off > bound) return "offset beyond window / history at match start";
            if (ml < 3) return "matchLength below the format minimum";
            /* offset 0 inside a match is not among the documented rules of this property: memory safety only */
            pos = start + ml; blockLen += ll + ml; }
        if (explicitDelims) { if (blockLen > blockMax) { if (getenv("C17_DEBUG")) fprintf(stderr, "i=%zu/%zu blockLen=%zu ll=%llu ml=%llu off=%llu pos=%zu\n", i, ns, blockLen, (unsigned long long)ll, (unsigned long long)ml, (unsigned long long)off, pos); return "block longer than the block size limit"; } if (pos > srcSize) return "blocks longer than the source"; }
    }
    if (explicitDelims) { if (srcSize > 0 && (!sawDelimAtEnd || pos != srcSize)) return (pos != srcSize) ? "block lengths disagree with the source" : "missing final delimiter"; }
    return NULL;
}

static void dbg_seq(void* o, uint32_t ll, uint32_t ml, uint32_t ov, size_t off, size_t pos) { (void)o; if (pos >= 145000 && pos <= 160000) fprintf(stderr, "  R seq: ll=%u ml=%u offset_value=%u offset=%zu pos_at_match=%zu\n", ll, ml, ov, off, pos); }
/* digested dictionary for this context: cParams carrying the context's window and minMatch (a parse is valid for the parameters it is compressed with), or a plain level */
static size_t supply_cdict(ZSTD_CCtx* c, ZSTD_CDict** out, int sm, const void* buf, size_t len, ZSTD_dictContentType_e dct, int level, int wlog, unsigned minMatch, vrng* r)
{
    ZSTD_CDict* cd;
    if (sm == 3 && dct == ZSTD_dct_rawContent) cd = ZSTD_createCDict(buf, len, level);
    else { ZSTD_compressionParameters cp = ZSTD_getCParams(level, 0, len); cp.minMatch = minMatch; cp.windowLog = (unsigned)wlog; if (cp.hashLog > cp.windowLog + 1) cp.hashLog = cp.windowLog + 1; if (cp.chainLog > cp.windowLog + 1) cp.chainLog = cp.windowLog + 1;
        cd = ZSTD_createCDict_advanced(buf, len, vr_chance(r, 1, 2) ? ZSTD_dlm_byRef : ZSTD_dlm_byCopy, dct, cp, ZSTD_defaultCMem); }
    if (!cd) return (size_t)-ZSTD_error_dictionary_corrupted;
    *out = cd; ZSTD_CCtx_setParameter(c, ZSTD_c_forceAttachDict, (int)vr_u(r, 4));
    return ZSTD_CCtx_refCDict(c, cd);
}
static int g_dictFormatted;   /* the dictionary handed to verify_frame is a formatted one (magic, entropy tables, content) */
static void verify_frame(const char* what, const uint8_t* f, size_t fsz, const uint8_t* src, size_t n, const uint8_t* dict, size_t dlen, const char* desc, size_t windowLimit)
{
    uint8_t* out = (uint8_t*)malloc(n + 1);
    ZSTD_DCtx* d = ZSTD_createDCtx(); ZSTD_DCtx_setParameter(d, ZSTD_d_windowLogMax, 30);
    if (dict) ZSTD_DCtx_loadDictionary_advanced(d, dict, dlen, ZSTD_dlm_byRef, g_dictFormatted ? ZSTD_dct_fullDict : ZSTD_dct_rawContent);
    size_t const r = ZSTD_decompressDCtx(d, out, n, f, fsz);
    if (ZSTD_isError(r) || r != n || memcmp(out, src, n)) v_viol("positive:frame-does-not-decode(lib)", "%s %s: %s", what, desc, ZSTD_isError(r) ? ZSTD_getErrorName(r) : "mismatch");
    ZSTD_freeDCtx(d);
    refdec_info_t I; memset(&I, 0, sizeof I); I.keep_blocks = 1; refdec_dict_t* rd = dict ? refdec_dict_create(dict, dlen, g_dictFormatted ? 2 : 1) : NULL;
    if (getenv("VERIF_C17_TRACE")) I.seq_cb = dbg_seq;
    memset(out, 0, n);
    if (!refdec_decode(out, n, f, fsz, rd, &I, 0)) v_viol("positive:frame-rejected-by-R", "%s %s: %s", what, desc, I.err ? I.err : "?");
    else if (I.out_size != n || memcmp(out, src, n)) { size_t fd = 0; while (fd < n && out[fd] == src[fd]) fd++; v_viol("positive:frame-decodes-to-other-bytes(R)", "%s %s (first difference at byte %zu)", what, desc, fd); }
    else {
        refdec_frame_t* F = &I.frames[0]; size_t nseq = 0;
        for (size_t b = 0; b < I.nb_blocks; b++) { nseq += I.blocks[b].nb_seq; if (I.blocks[b].rsize > (128u << 10) || (windowLimit && I.blocks[b].rsize > windowLimit)) v_viol("positive:block-exceeds-limit", "%s block %zu", what, I.blocks[b].rsize); }
        if (F->has_fcs && F->fcs != n) v_viol("positive:content-size-lies", "%s", what);
        v_stat("frames_verified", 1); v_stat("frame_sequences", (long)nseq);
    }
    refdec_info_free(&I); refdec_dict_free(rd); free(out);
}

/* ---------------------------------------------------------------- external producer */
typedef struct { vrng* r; const parsecfg* C; int mode; long calls; long failed; uint32_t failMask; int maxSeqs; int cyclic; } prodstate;   /* mode 0 ok, 1 error, 2 too many, 3 zero seqs for non-empty; failMask: which of the
                                          first 32 calls fail (later ones follow bit 31); maxSeqs >= 0: at most that many sequences per block, the rest of the block is literals of the delimiter */
static size_t producer(void* st, ZSTD_Sequence* outSeqs, size_t outSeqsCapacity, const void* src, size_t srcSize, const void* dict, size_t dictSize, int level, size_t windowSize)
{
    prodstate* P = (prodstate*)st; (void)dict; (void)dictSize; (void)level; P->calls++;
    if (getenv("VERIF_C17_TRACE")) fprintf(stderr, "producer call %ld srcSize=%zu mode=%d maxSeqs=%d mask=%08x\n", P->calls, srcSize, P->mode, P->maxSeqs, P->failMask);
    {   int const failsNow = P->mode != 0 && ((P->failMask >> (P->cyclic ? (P->calls - 1) % 32 : P->calls - 1 > 31 ? 31 : P->calls - 1)) & 1) && srcSize > 0;
        if (failsNow) { P->failed++; if (P->mode == 1) return ZSTD_SEQUENCE_PRODUCER_ERROR; if (P->mode == 2) return outSeqsCapacity + 1; return 0; } }
    parsecfg C = *P->C; C.explicitDelims = 1; C.blockMax = srcSize ? srcSize : 1; C.window = V_MIN(C.window, windowSize); C.dictLen = 0; C.dict = NULL;
    seqvec v = { 0, 0, 0 }; long st2[4] = { 0, 0, 0, 0 };
    /* one block == the whole input of this call; the single delimiter ends it. offsets limited to this block (no history known here) */
    {   parsecfg C2 = C; vrng rr = *P->r; size_t const n = srcSize;
        /* parse with blockEnd == n: implement by using non-explicit parse then appending the delimiter */
        C2.explicitDelims = 0; parse(&rr, (const uint8_t*)src, n, &C2, &v, st2);
        {   int cap = P->maxSeqs; if (cap == -2) cap = (int)((P->failMask * 2654435761u + (uint32_t)P->calls * 40503u) >> 7) % 7;      /* -2: another limit 0..6 at every call */
            if (cap >= 0 && v.n > (size_t)cap) v.n = (size_t)cap; }
        size_t consumed = 0; for (size_t i = 0; i < v.n; i++) consumed += v.s[i].litLength + v.s[i].matchLength;
        sv_push(&v, 0, (uint32_t)(n - consumed), 0); }
    if (v.n > outSeqsCapacity) { free(v.s); return ZSTD_SEQUENCE_PRODUCER_ERROR; }
    if (getenv("VERIF_C17_TRACE") && P->calls >= 40 && P->calls <= 50) for (size_t i = 0; i < v.n; i++) fprintf(stderr, "  call %ld seq %zu: off=%u ll=%u ml=%u\n", P->calls, i, v.s[i].offset, v.s[i].litLength, v.s[i].matchLength);
    memcpy(outSeqs, v.s, v.n * sizeof(ZSTD_Sequence)); size_t const k = v.n; free(v.s); return k;
}

static void run_positive(long idx)
{
    vrng r = vr_make(V.seed, 117, (uint64_t)idx);
    int fam = (int)vr_u(&r, DF_NB); if (fam == DF_RANDOM && vr_chance(&r, 2, 3)) fam = DF_LZ;
    size_t const n = pick_size(&r, g_maxSize);
    uint8_t* src = (uint8_t*)malloc(n + 8); gen_data(&r, src, n, fam);
    int wlog = (int)vr_range(&r, 10, 21); unsigned minMatch = (unsigned)vr_range(&r, 3, 7);
    int maxBlock = vr_chance(&r, 1, 3) ? (int)vr_range(&r, 1024, 131072) : 0;
    int const mode = (int)vr_u(&r, 4);
    if (mode == 3 && vr_chance(&r, 1, 2)) maxBlock = (int)vr_range(&r, 1024, 16384);      /* producers are called once per block: many blocks = many producer decisions per frame */
    if (mode == 3 && vr_chance(&r, 1, 2)) { fam = vr_chance(&r, 2, 3) ? DF_REPBAIT : DF_LZ; gen_data(&r, src, n, fam); }      /* several live offsets: the repeat-offset history matters from block to block */       /* 0 own parser explicit, 1 own parser no delimiters, 2 generateSequences, 3 registered producer */
    int const repSearch = (int)vr_range(&r, 0, 2); int level = (int)vr_range(&r, 1, 12);
    size_t dictLen = 0; uint8_t* dict = NULL;
    int const farDict = mode < 2 && (idx % 8) == 3 && n >= 280000;      /* stratum: offsets whose code lies just above what the dictionary's offset table holds, from the second block on */
    if (farDict && getenv("VERIF_DBG")) fprintf(stderr, "FARDICT case %ld n=%zu mode=%d\n", idx, n, mode);
    if (farDict) { wlog = (int)vr_range(&r, 19, 21); level = (int)vr_range(&r, 1, 5); maxBlock = 0; dictLen = 8000 + vr_u(&r, 50000); dict = (uint8_t*)malloc(dictLen); vr_fill(&r, dict, dictLen);
        /* block 1: noise with a few near matches and matches into the dictionary tail; later blocks: noise with chunks taken from the START of the dictionary */
        vr_fill(&r, src, n); { int const w = (int)vr_u(&r, 3); size_t const lim = w == 1 ? (size_t)(128u << 10) : w == 2 ? n : 0; for (size_t i = 0; i < lim; i++) src[i] &= 0x0F; }     /* 16-symbol literals: Huffman-compressible, and with minMatch 7 almost match-free */
        minMatch = 7;      /* noise everywhere (blocks emitted raw) / first block compressible through its literals / every block compressible through its literals (few sequences, offset table re-used in repeat mode) */
        for (size_t p = 3000; p + 200 < (128u << 10); p += 2000 + vr_u(&r, 9000)) { size_t const l = 8 + vr_u(&r, 60); if (vr_chance(&r, 1, 2)) memmove(src + p, src + p - 50 - vr_u(&r, 2000), l); else memcpy(src + p, dict + dictLen - l - vr_u(&r, 500), l); }
        {   size_t q = 0;      /* every chunk comes from a fresh part of the dictionary start: its only earlier occurrence is in the dictionary, far away */
            for (size_t p = (128u << 10) + 100000 + vr_u(&r, 30000); p + 400 < n && q + 400 < dictLen / 2; p += 600 + vr_u(&r, 3000)) { size_t const l = 32 + vr_u(&r, 200); memcpy(src + p, dict + q, l); q += l + 8; } } }
    else if (mode < 2 && vr_chance(&r, 1, 3)) { dictLen = vr_chance(&r, 1, 3) ? 1 + vr_u(&r, 200000) : 1 + vr_u(&r, 20000); dict = (uint8_t*)malloc(dictLen); if (n > 16) { for (size_t i = 0; i < dictLen; i++) dict[i] = src[(i * 3) % n]; memcpy(dict, src + vr_u64(&r, n / 2), V_MIN(dictLen, n / 2)); } else gen_data(&r, dict, dictLen, fam); }
    parsecfg C; C.window = (size_t)1 << wlog; C.blockMax = V_MIN((size_t)(maxBlock ? maxBlock : (128 << 10)), C.window); C.minMatch = minMatch; C.explicitDelims = (mode == 0); C.dictLen = dictLen; C.dict = dict; C.style = (int)vr_u(&r, 4);
    size_t const cap = ZSTD_compressBound(n) + 64; uint8_t* dst = (uint8_t*)malloc(cap);
    ZSTD_CCtx* c = ZSTD_createCCtx();
    ZSTD_CCtx_setParameter(c, ZSTD_c_compressionLevel, level); ZSTD_CCtx_setParameter(c, ZSTD_c_windowLog, wlog); ZSTD_CCtx_setParameter(c, ZSTD_c_minMatch, (int)minMatch);
    if (maxBlock) ZSTD_CCtx_setParameter(c, ZSTD_c_maxBlockSize, maxBlock);
    ZSTD_CCtx_setParameter(c, ZSTD_c_validateSequences, (int)vr_u(&r, 2)); ZSTD_CCtx_setParameter(c, ZSTD_c_searchForExternalRepcodes, getenv("VERIF_C17_REP") ? atoi(getenv("VERIF_C17_REP")) : repSearch);
    ZSTD_CCtx_setParameter(c, ZSTD_c_checksumFlag, (int)vr_u(&r, 2));
    char desc[256]; snprintf(desc, sizeof desc, "mode=%d n=%zu fam=%s wlog=%d minMatch=%u maxBlock=%d level=%d rep=%d dict=%zu style=%d", mode, n, v_df_name[fam], wlog, minMatch, maxBlock, level, repSearch, dictLen, C.style);
    v_stat("positive_cases", 1);
    if (mode <= 1) {
        seqvec v = { 0, 0, 0 }; long st[4] = { 0, 0, 0, 0 };
        parse(&r, src, n, &C, &v, st);
        const char* inv = list_invalid(v.s, v.n, n, C.window, dictLen, C.blockMax, C.explicitDelims);
        if (inv) { fprintf(stderr, "harness bug: own parser produced an invalid list: %s (%s) case %ld\n", inv, desc, V.cur_case); { size_t bl = 0; for (size_t q = 0; q < v.n && q < 4000; q++) { bl += v.s[q].litLength + v.s[q].matchLength; if (v.s[q].litLength > 1000000 || v.s[q].matchLength > 1000000) fprintf(stderr, " BAD[%zu]=(%u,%u,%u) prev=(%u,%u,%u)", q, v.s[q].offset, v.s[q].litLength, v.s[q].matchLength, v.s[q-1].offset, v.s[q-1].litLength, v.s[q-1].matchLength); if (v.s[q].offset == 0) { bl = 0; } } } exit(2); }
        ZSTD_CCtx_setParameter(c, ZSTD_c_blockDelimiters, C.explicitDelims ? ZSTD_sf_explicitBlockDelimiters : ZSTD_sf_noBlockDelimiters);
        /* half of the dictionaries are wrapped into a FORMATTED dictionary with unusual entropy tables (truncated alphabets, holes, "less than one" counts, odd repeat offsets):
         * the parse only refers to the content; the tables are what the sequence encoder may re-use ("repeat" mode) in the first blocks */
        uint8_t* fdict = NULL; size_t flen = 0; char feat[80] = "";
        if (dict && dictLen >= 8 && (farDict || vr_chance(&r, 1, 2))) { fdict = (uint8_t*)malloc(dictLen + 4096); g_ofExact = farDict && vr_chance(&r, 2, 3); flen = build_dict(&r, fdict, dictLen + 4096, dict, dictLen, feat, sizeof feat); g_ofExact = 0; if (!flen) { free(fdict); fdict = NULL; } }
        /* ways of supplying the dictionary: prefix, loadDictionary, or a digested CDict (built with this context's window / minMatch, or plainly from a level when the parse
         * does not rely on 3-byte matches) under every attach preference (default / attach / copy / re-load at frame start) */
        ZSTD_CDict* cdict = NULL; int const sm = dict ? (int)vr_u(&r, C.minMatch >= 4 ? 4 : 3) : 0; const char* const smName[4] = { "refPrefix", "loadDictionary", "refCDict(advanced)", "refCDict(createCDict)" };
        #define SUPPLY(buf, len, dct) ( sm == 0 ? ZSTD_CCtx_refPrefix_advanced(c, buf, len, dct) : sm == 1 ? ZSTD_CCtx_loadDictionary_advanced(c, buf, len, ZSTD_dlm_byRef, dct) : supply_cdict(c, &cdict, sm, buf, len, dct, level, wlog, C.minMatch, &r) )
        if (fdict) { size_t const e = SUPPLY(fdict, flen, ZSTD_dct_fullDict);
            ZSTD_DDict* dd = ZSTD_createDDict_advanced(fdict, flen, ZSTD_dlm_byRef, ZSTD_dct_fullDict, ZSTD_defaultCMem);
            if (ZSTD_isError(e) || !dd) { v_stat("formatted_dictionaries_refused_by_a_loader", 1); ZSTD_CCtx_refPrefix(c, NULL, 0); ZSTD_CCtx_loadDictionary(c, NULL, 0); ZSTD_CCtx_refCDict(c, NULL); ZSTD_freeCDict(cdict); cdict = NULL; free(fdict); fdict = NULL; } else v_stat("formatted_dictionaries", 1); ZSTD_freeDDict(dd); }
        if (dict && !fdict) { cdict = NULL; (void)SUPPLY(dict, dictLen, ZSTD_dct_rawContent); }
        if (dict) v_cell("dict_supply", "%s%s", smName[sm], fdict ? "|formatted" : "|raw");
        size_t const cs = ZSTD_compressSequences(c, dst, cap, v.s, v.n, src, n);
        if (ZSTD_isError(cs)) v_viol("positive:valid-parse-refused", "%s nbSeq=%zu%s%s supply=%s: %s", desc, v.n, fdict ? " formatted-dict " : "", feat, dict ? smName[sm] : "-", ZSTD_getErrorName(cs));
        else { char d2[400]; snprintf(d2, sizeof d2, "%s%s%s", desc, fdict ? " formatted-dict " : "", feat); g_dictFormatted = fdict != NULL; verify_frame("own-parser", dst, cs, src, n, fdict ? fdict : dict, fdict ? flen : dictLen, d2, C.blockMax); g_dictFormatted = 0; }
        free(fdict); ZSTD_CCtx_refCDict(c, NULL); ZSTD_freeCDict(cdict);
        v_stat("parse_sequences", (long)v.n); v_stat("parse_dict_reaching", st[0]); v_stat("parse_long_matches", st[1]); v_stat("parse_matches_crossing_128K", st[2]); v_stat("parse_explicit_blocks", st[3]);
        v_cell("positive_cell", "%s|mm%u|rep%d|dict%d|style%d|maxblk%d", C.explicitDelims ? "explicit" : "nodelim", minMatch, repSearch, dictLen == 0 ? 0 : feat[0] ? 2 : 1, C.style, maxBlock != 0);
        v_sample("%s nbSeq=%zu first=(%u,%u,%u)", desc, v.n, v.n ? v.s[0].offset : 0, v.n ? v.s[0].litLength : 0, v.n ? v.s[0].matchLength : 0);
        free(v.s);
    } else if (mode == 2) {
        size_t const sb = ZSTD_sequenceBound(n); ZSTD_Sequence* seqs = (ZSTD_Sequence*)malloc(sb * sizeof(ZSTD_Sequence));
        int const sameCtx = vr_chance(&r, 1, 2);       /* extract on the very context that then compresses (history dependence) */
        ZSTD_CCtx* g = sameCtx ? c : ZSTD_createCCtx();
        if (!sameCtx) { ZSTD_CCtx_setParameter(g, ZSTD_c_compressionLevel, level); ZSTD_CCtx_setParameter(g, ZSTD_c_windowLog, wlog); ZSTD_CCtx_setParameter(g, ZSTD_c_minMatch, (int)minMatch); if (maxBlock) ZSTD_CCtx_setParameter(g, ZSTD_c_maxBlockSize, maxBlock); }
        size_t ns = ZSTD_generateSequences(g, seqs, sb, src, n);
        if (!sameCtx) ZSTD_freeCCtx(g);
        if (ZSTD_isError(ns)) { v_stat("generateSequences_gave_up", 1); }
        else {
            int const merge = vr_chance(&r, 1, 2);
            if (merge) ns = ZSTD_mergeBlockDelimiters(seqs, ns);
            ZSTD_CCtx_setParameter(c, ZSTD_c_blockDelimiters, merge ? ZSTD_sf_noBlockDelimiters : ZSTD_sf_explicitBlockDelimiters);
            /* the extracted parse must be valid by the documented rules for the same parameters */
            const char* inv = list_invalid(seqs, ns, n, C.window, 0, C.blockMax, !merge);
            if (inv) v_viol("positive:extracted-parse-breaks-documented-rules", "%s merge=%d: %s", desc, merge, inv);
            else {
                size_t const cs = ZSTD_compressSequences(c, dst, cap, seqs, ns, src, n);
                if (ZSTD_isError(cs)) v_viol("positive:extracted-parse-refused", "%s merge=%d sameCtx=%d nbSeq=%zu: %s", desc, merge, sameCtx, ns, ZSTD_getErrorName(cs));
                else verify_frame("generateSequences", dst, cs, src, n, NULL, 0, desc, C.blockMax);
                /* and plain compression on the same context afterwards still works (F18 class) */
                if (sameCtx) { ZSTD_CCtx_reset(c, ZSTD_reset_session_and_parameters); size_t const c2 = ZSTD_compress2(c, dst, cap, src, n); if (ZSTD_isError(c2)) v_viol("positive:context-unusable-after-generateSequences", "%s: %s", desc, ZSTD_getErrorName(c2)); else verify_frame("compress2-after-generateSequences", dst, c2, src, n, NULL, 0, desc, 0); }
            }
            v_cell("positive_cell", "extracted|merge%d|same%d|mm%u", merge, sameCtx, minMatch);
        }
        free(seqs);
    } else {
        prodstate P; P.r = &r; P.C = &C; P.mode = vr_chance(&r, 1, 2) ? 0 : (int)vr_range(&r, 1, 3); P.calls = 0; P.failed = 0;
        P.failMask = vr_chance(&r, 1, 4) ? 0xFFFFFFFFu : vr_chance(&r, 1, 2) ? (0xFFFFFFFFu << (1 + vr_u(&r, 4))) : (uint32_t)vr_next(&r);     /* always / works for the first 1..4 blocks then fails / per-block pattern */
        P.maxSeqs = vr_chance(&r, 1, 3) ? (int)vr_u(&r, 7) : vr_chance(&r, 1, 2) ? -2 : -1; P.cyclic = 0;
        int fb = -1;
        if ((idx % 8) == 5) {   /* stratum "hand-over": working and failing blocks alternate through the whole frame (cyclic pattern), 0..6 sequences per working block, fallback on:
                                  * every hand-over between the producer's blocks and the internal parser's blocks depends on the repeat-offset history left by the other */
            P.mode = (int)vr_range(&r, 1, 3); P.failMask = (uint32_t)vr_next(&r) | 0x2u; P.cyclic = 1; P.maxSeqs = -2; fb = 1; }
        int const fallback = fb >= 0 ? fb : (int)vr_u(&r, 2);
        ZSTD_registerSequenceProducer(c, &P, producer);
        ZSTD_CCtx_setParameter(c, ZSTD_c_enableSeqProducerFallback, fallback); if (getenv("VERIF_C17_NOFAIL")) P.failMask = 0; if (getenv("VERIF_C17_MAXSEQ")) P.maxSeqs = atoi(getenv("VERIF_C17_MAXSEQ")); if (getenv("VERIF_C17_LEVEL")) ZSTD_CCtx_setParameter(c, ZSTD_c_compressionLevel, atoi(getenv("VERIF_C17_LEVEL")));
        ZSTD_CCtx_setParameter(c, ZSTD_c_validateSequences, 1);
        size_t cs;
        if (vr_chance(&r, 1, 2)) cs = ZSTD_compress2(c, dst, cap, src, n);
        else { ZSTD_inBuffer in = { src, n, 0 }; ZSTD_outBuffer out = { dst, cap, 0 }; size_t rr; int guard = 0; do { rr = ZSTD_compressStream2(c, &out, &in, ZSTD_e_end); } while (!ZSTD_isError(rr) && rr && ++guard < 100000); cs = ZSTD_isError(rr) ? rr : out.pos; }
        int const producerFails = P.failed > 0;
        if (producerFails && P.mode == 3 && !ZSTD_isError(cs)) { /* zero sequences for a non-empty block is "invalid result": treated as error -> fallback or failure */ }
        if (ZSTD_isError(cs)) {
            if (!producerFails) v_viol("producer:good-producer-refused", "%s: %s", desc, ZSTD_getErrorName(cs));
            else if (fallback) v_viol("producer:failure-with-fallback-enabled-fails-the-call", "%s prodmode=%d: %s", desc, P.mode, ZSTD_getErrorName(cs));
            else v_stat("producer_failures_reported", 1);
        } else {
            if (producerFails && !fallback) v_viol("producer:failure-without-fallback-not-reported", "%s prodmode=%d calls=%ld", desc, P.mode, P.calls);
            verify_frame("producer", dst, cs, src, n, NULL, 0, desc, 0);
            if (producerFails) v_stat("producer_fallbacks", 1);
        }
        v_stat("producer_calls", P.calls);
        v_cell("positive_cell", "producer|mode%d|fallback%d|%s|%s", P.mode, fallback, P.failed == 0 ? "never-fails" : P.failed == P.calls ? "always-fails" : "fails-on-some-blocks", P.maxSeqs >= 0 ? "few-sequences" : P.maxSeqs == -2 ? "0..6-sequences-varying-per-block" : "full-parse");
    }
    ZSTD_freeCCtx(c); free(dst); free(dict); free(src);
}

/* ---------------------------------------------------------------- negative half */
static void run_negative(long idx)
{
    vrng r = vr_make(V.seed, 217, (uint64_t)idx);
    int fam = vr_chance(&r, 1, 2) ? DF_LZ : DF_TEXT;
    size_t const n = 64 + vr_u64(&r, V_MIN(g_maxSize, (size_t)400000));
    gbuf src = gb_alloc(n, 0); gen_data(&r, src.p, n, fam);
    int const wlog = (int)vr_range(&r, 10, 20); unsigned const minMatch = (unsigned)vr_range(&r, 3, 6);
    int const explicitDelims = (int)vr_u(&r, 2);
    size_t dictLen = vr_chance(&r, 1, 4) ? 1 + vr_u(&r, 5000) : 0; uint8_t* dict = dictLen ? (uint8_t*)malloc(dictLen) : NULL; if (dict) gen_data(&r, dict, dictLen, fam);
    parsecfg C; C.window = (size_t)1 << wlog; C.blockMax = V_MIN((size_t)(128 << 10), C.window); C.minMatch = minMatch; C.explicitDelims = explicitDelims; C.dictLen = dictLen; C.dict = dict; C.style = (int)vr_u(&r, 4);
    seqvec v = { 0, 0, 0 }; long st[4] = { 0, 0, 0, 0 };
    parse(&r, src.p, n, &C, &v, st);
    if (v.n == 0) goto out;
    /* corrupt */
    const char* kind = "?";
    int const arbitrary = vr_chance(&r, 1, 4);
    if (arbitrary) {
        kind = "arbitrary-array";
        size_t const k = 1 + vr_u(&r, 12);
        for (size_t j = 0; j < k; j++) { ZSTD_Sequence* s = &v.s[vr_u64(&r, v.n)]; uint32_t const val = vr_chance(&r, 1, 2) ? (uint32_t)vr_next(&r) : (uint32_t)vr_u(&r, 70000);
            switch (vr_u(&r, 3)) { case 0: s->offset = val; break; case 1: s->matchLength = val; break; default: s->litLength = val; } }
        if (!explicitDelims) {   /* documented contract of this mode: sum(lengths) <= srcSize; keep the list inside the source (scope) */
            uint64_t sum = 0; size_t keep = v.n; for (size_t i = 0; i < v.n; i++) { sum += (uint64_t)v.s[i].litLength + v.s[i].matchLength; if (sum > n) { keep = i; break; } } v.n = keep; if (v.n == 0) goto out; }
    } else {
        size_t const i = vr_u64(&r, v.n); ZSTD_Sequence* s = &v.s[i];
        size_t pos = 0; for (size_t j = 0; j < i; j++) pos += (size_t)v.s[j].litLength + v.s[j].matchLength;
        size_t const start = pos + s->litLength; size_t const bound = start > C.window ? C.window : start + dictLen;
        switch (vr_u(&r, explicitDelims ? 11 : 4)) {
        case 0: if (s->offset) { s->offset = (uint32_t)(bound + 1 + (vr_chance(&r, 1, 2) ? 0 : vr_u(&r, 1000))); kind = "offset-beyond-history"; } break;
        case 1: if (s->offset) { s->offset = vr_chance(&r, 1, 2) ? 0xFFFFFFFFu : (uint32_t)(C.window + 1 + vr_u(&r, 100000)); kind = "offset-beyond-window"; } break;
        case 2: if (s->offset && !explicitDelims ? (s->matchLength >= 3) : (s->offset != 0)) { uint32_t const oldml = s->matchLength; s->matchLength = vr_u(&r, 3); if (!explicitDelims) s->litLength += 0; (void)oldml; kind = "matchLength-below-3"; } break;
        case 3: if (s->offset && i == 0 && dictLen == 0) { s->offset = (uint32_t)(start + 1); kind = "offset-beyond-history"; } break;
        case 4: { size_t j = v.n - 1; if (v.s[j].offset == 0 && v.s[j].matchLength == 0) { v.n--; kind = "missing-final-delimiter"; } break; }
        case 5: { for (size_t j = 0; j < v.n; j++) if (v.s[j].offset == 0 && v.s[j].matchLength == 0) { v.s[j].matchLength = 1 + vr_u(&r, 50); kind = "malformed-delimiter"; break; } break; }
        case 6: { for (size_t j = 0; j < v.n; j++) if (v.s[j].offset == 0 && v.s[j].matchLength == 0 && vr_chance(&r, 1, 2)) { v.s[j].litLength += 1 + vr_u(&r, 100); kind = "block-lengths-exceed-source"; break; } break; }
        case 7: { for (size_t j = 0; j < v.n; j++) if (v.s[j].offset == 0 && v.s[j].matchLength == 0 && v.s[j].litLength > 0) { v.s[j].litLength -= 1; kind = "block-lengths-short-of-source"; break; } break; }
        case 9: case 10: {   /* a non-final delimiter removed: two caller blocks merged into one, larger than this context's block size limit when the window is below 128 KiB */
            size_t cand[64]; int nc2 = 0; for (size_t j = 0; j + 1 < v.n && nc2 < 64; j++) if (v.s[j].offset == 0 && v.s[j].matchLength == 0) cand[nc2++] = j;
            if (nc2) { size_t const j = cand[vr_u(&r, (uint32_t)nc2)]; uint32_t const carry = v.s[j].litLength; memmove(&v.s[j], &v.s[j + 1], (v.n - j - 1) * sizeof(ZSTD_Sequence)); v.n--; v.s[j].litLength += carry; kind = "merged-blocks(delimiter removed)"; }
            break; }
        case 8: { s->litLength = 0xFFFFFFFFu - vr_u(&r, 64); if (vr_chance(&r, 1, 2)) s->matchLength += vr_u(&r, 200); kind = "huge-length(32-bit wrap)"; break; }
        default: break; }
    }
    {   const char* inv = list_invalid(v.s, v.n, n, C.window, dictLen, C.blockMax, explicitDelims);
        if (!arbitrary && !inv) { v_stat("negative_corruption_was_benign", 1); goto out; }
        if (!explicitDelims && inv) {   /* scope: in delimiter-free mode lists overrunning the source are outside validation scope */
            uint64_t sum = 0; for (size_t i = 0; i < v.n; i++) sum += (uint64_t)v.s[i].litLength + v.s[i].matchLength; if (sum > n) { v_stat("negative_out_of_scope", 1); goto out; } }
        size_t const cap = ZSTD_compressBound(n) + 64; gbuf dst = gb_alloc(cap, 0);
        gbuf sq = gb_alloc(v.n * sizeof(ZSTD_Sequence), 0); memcpy(sq.p, v.s, v.n * sizeof(ZSTD_Sequence));     /* exact-size array: reads past it fault */
        ZSTD_CCtx* c = ZSTD_createCCtx();
        ZSTD_CCtx_setParameter(c, ZSTD_c_windowLog, wlog); ZSTD_CCtx_setParameter(c, ZSTD_c_minMatch, (int)minMatch); ZSTD_CCtx_setParameter(c, ZSTD_c_validateSequences, 1);
        ZSTD_CCtx_setParameter(c, ZSTD_c_blockDelimiters, explicitDelims ? ZSTD_sf_explicitBlockDelimiters : ZSTD_sf_noBlockDelimiters);
        ZSTD_CCtx_setParameter(c, ZSTD_c_searchForExternalRepcodes, (int)vr_range(&r, 0, 2));
        if (dict) ZSTD_CCtx_loadDictionary_advanced(c, dict, dictLen, ZSTD_dlm_byRef, ZSTD_dct_rawContent);
        size_t const cs = ZSTD_compressSequences(c, dst.p, cap, (const ZSTD_Sequence*)sq.p, v.n, src.p, n);
        v_stat("negative_cases", 1);
        if (!gb_ok(&dst)) v_viol("negative:write-outside-dst", "kind=%s", kind);
        if (inv) {
            v_cell("negative_rule", "%s|%s|%s", explicitDelims ? "explicit" : "nodelim", kind, ZSTD_isError(cs) ? "refused" : "ACCEPTED");
            if (!ZSTD_isError(cs)) {
                /* accepted although a documented structural rule is broken: decide the witness by decoding */
                uint8_t* outb = (uint8_t*)malloc(n + 1); size_t const d = dict ? ZSTD_decompress_usingDict(ZSTD_createDCtx(), outb, n, dst.p, cs, dict, dictLen) : ZSTD_decompress(outb, n, dst.p, cs);
                int const decodes = !ZSTD_isError(d) && d == n && !memcmp(outb, src.p, n); free(outb);
                v_viol("negative:invalid-list-accepted-with-validation-on", "kind=%s rule=[%s] explicit=%d wlog=%d minMatch=%u dict=%zu n=%zu nbSeq=%zu -> frame %s", kind, inv, explicitDelims, wlog, minMatch, dictLen, n, v.n, decodes ? "happens to decode" : "does NOT decode to the source");
            } else v_stat("negative_refused", 1);
        } else v_cell("negative_rule", "arbitrary-valid|%s", ZSTD_isError(cs) ? "refused" : "accepted");
        ZSTD_freeCCtx(c); gb_free(&dst); gb_free(&sq);
    }
out:
    free(v.s); free(dict); gb_free(&src);
}

int main(int argc, char** argv)
{
    v_init(argc, argv);
    g_maxSize = (size_t)v_opt_long("maxsize", V.thorough ? (2 << 20) : (500 << 10));
    int const side = (int)v_opt_long("side", 0);
    vp_trace_on = 0;
    for (long i = V.from; i < V.to; i++) { v_case(i); v_budget(600); if (side == 0) run_positive(i); else run_negative(i); }
    return v_finish();
}
