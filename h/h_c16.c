/* h_c16.c - C16: parameter interface contract (bounds, read-back, atomic rejection, stage rules, stickiness, reset, simple API).
 * case 0            : exhaustive grid over all parameters x boundary values x stages (CCtx, CCtxParams, DCtx)
 * cases 1..N        : random valid parameter sets x k frames x reset */
#include "vparams.h"
#include "refdec.h"
#include <limits.h>

typedef struct { ZSTD_cParameter p; const char* name; } cpar;
#define CP(x) { x, #x }
static const cpar CPARAMS[] = {
    CP(ZSTD_c_compressionLevel), CP(ZSTD_c_windowLog), CP(ZSTD_c_hashLog), CP(ZSTD_c_chainLog), CP(ZSTD_c_searchLog), CP(ZSTD_c_minMatch), CP(ZSTD_c_targetLength), CP(ZSTD_c_strategy),
    CP(ZSTD_c_targetCBlockSize), CP(ZSTD_c_enableLongDistanceMatching), CP(ZSTD_c_ldmHashLog), CP(ZSTD_c_ldmMinMatch), CP(ZSTD_c_ldmBucketSizeLog), CP(ZSTD_c_ldmHashRateLog),
    CP(ZSTD_c_contentSizeFlag), CP(ZSTD_c_checksumFlag), CP(ZSTD_c_dictIDFlag), CP(ZSTD_c_nbWorkers), CP(ZSTD_c_jobSize), CP(ZSTD_c_overlapLog),
    CP(ZSTD_c_rsyncable), CP(ZSTD_c_format), CP(ZSTD_c_forceMaxWindow), CP(ZSTD_c_forceAttachDict), CP(ZSTD_c_literalCompressionMode), CP(ZSTD_c_srcSizeHint),
    CP(ZSTD_c_enableDedicatedDictSearch), CP(ZSTD_c_stableInBuffer), CP(ZSTD_c_stableOutBuffer), CP(ZSTD_c_blockDelimiters), CP(ZSTD_c_validateSequences), CP(ZSTD_c_useBlockSplitter),
    CP(ZSTD_c_useRowMatchFinder), CP(ZSTD_c_deterministicRefPrefix), CP(ZSTD_c_prefetchCDictTables), CP(ZSTD_c_enableSeqProducerFallback), CP(ZSTD_c_maxBlockSize), CP(ZSTD_c_searchForExternalRepcodes),
};
#define NCP ((int)(sizeof(CPARAMS) / sizeof(CPARAMS[0])))
typedef struct { ZSTD_dParameter p; const char* name; } dpar;
static const dpar DPARAMS[] = { { ZSTD_d_windowLogMax, "ZSTD_d_windowLogMax" }, { ZSTD_d_format, "ZSTD_d_format" }, { ZSTD_d_stableOutBuffer, "ZSTD_d_stableOutBuffer" },
    { ZSTD_d_forceIgnoreChecksum, "ZSTD_d_forceIgnoreChecksum" }, { ZSTD_d_refMultipleDDicts, "ZSTD_d_refMultipleDDicts" }, { ZSTD_d_disableHuffmanAssembly, "ZSTD_d_disableHuffmanAssembly" }, { ZSTD_d_maxBlockSize, "ZSTD_d_maxBlockSize" } };
#define NDP ((int)(sizeof(DPARAMS) / sizeof(DPARAMS[0])))

static int is_update_authorized(ZSTD_cParameter p)   /* the documented mid-frame updatable set (zstd.h, ZSTD_CCtx_setParameter) */
{ return p == ZSTD_c_compressionLevel || p == ZSTD_c_hashLog || p == ZSTD_c_chainLog || p == ZSTD_c_searchLog || p == ZSTD_c_minMatch || p == ZSTD_c_targetLength || p == ZSTD_c_strategy; }
static int zero_means_default(ZSTD_cParameter p)
{   /* zstd.h: "Special: value 0 means use default ..." */
    switch (p) { case ZSTD_c_windowLog: case ZSTD_c_hashLog: case ZSTD_c_chainLog: case ZSTD_c_searchLog: case ZSTD_c_minMatch: case ZSTD_c_targetLength: case ZSTD_c_strategy:
        case ZSTD_c_targetCBlockSize: case ZSTD_c_ldmHashLog: case ZSTD_c_ldmMinMatch: case ZSTD_c_ldmBucketSizeLog: case ZSTD_c_ldmHashRateLog: case ZSTD_c_jobSize: case ZSTD_c_overlapLog:
        case ZSTD_c_srcSizeHint: case ZSTD_c_maxBlockSize: case ZSTD_c_compressionLevel: return 1; default: return 0; }
}

typedef struct { int ok[NCP]; int v[NCP]; } cvec;
static void getvec(ZSTD_CCtx* c, cvec* V_) { for (int i = 0; i < NCP; i++) { int v = 0; size_t const r = ZSTD_CCtx_getParameter(c, CPARAMS[i].p, &v); V_->ok[i] = !ZSTD_isError(r); V_->v[i] = V_->ok[i] ? v : 0; } }
static int vec_diff(const cvec* a, const cvec* b) { for (int i = 0; i < NCP; i++) if (a->ok[i] != b->ok[i] || a->v[i] != b->v[i]) return i; return -1; }
static void getvec_p(ZSTD_CCtx_params* c, cvec* V_) { for (int i = 0; i < NCP; i++) { int v = 0; size_t const r = ZSTD_CCtxParams_getParameter(c, CPARAMS[i].p, &v); V_->ok[i] = !ZSTD_isError(r); V_->v[i] = V_->ok[i] ? v : 0; } }

static uint8_t g_src[300000]; static uint8_t g_dst[400000]; static uint8_t g_dst2[400000]; static uint8_t g_out[300000];

static int test_values(int lo, int hi, int dflt, int* vals)
{
    int n = 0; long long c[10] = { (long long)lo - 1, lo, (long long)lo + 1, 0, dflt, (long long)hi - 1, hi, (long long)hi + 1, INT_MIN, INT_MAX };
    for (int i = 0; i < 10; i++) { if (c[i] < INT_MIN || c[i] > INT_MAX) continue; int dup = 0; for (int j = 0; j < n; j++) if (vals[j] == (int)c[i]) dup = 1; if (!dup) vals[n++] = (int)c[i]; }
    return n;
}
/* the set/get/bounds relation for one (parameter, value) on one object; `set`/`get` are closures over the object kind */
typedef size_t (*set_fn)(void*, int, int); typedef size_t (*get_fn)(void*, int, int*);
static void check_set(const char* kind, const char* stage, const char* pname, int pid, int zeroDefault, int lo, int hi, int v, void* obj, set_fn set, get_fn get,
                      void (*snap)(void*, cvec*), int nameIsC)
{
    cvec before, after; if (snap) snap(obj, &before);
    int old = 0; int const hadOld = !ZSTD_isError(get(obj, pid, &old));
    size_t const r = set(obj, pid, v);
    int rb = 0; size_t const g = get(obj, pid, &rb);
    v_stat("grid_cells", 1);
    int const inRange = (v >= lo && v <= hi);
    if (ZSTD_isError(r)) {
        v_cell("grid_outcome", "%s|%s", kind, inRange ? "in-range-rejected" : "out-of-range-rejected");
        if (inRange) v_viol(nameIsC ? "bounds:in-range-value-rejected" : "dctx:bounds:in-range-value-rejected", "%s stage=%s %s=%d bounds=[%d,%d] err=%s", kind, stage, pname, v, lo, hi, ZSTD_getErrorName(r));
        if (snap) { snap(obj, &after); int d = vec_diff(&before, &after); if (d >= 0) v_viol("rejected-call-changed-a-parameter", "%s stage=%s set(%s,%d) rejected but %s changed %d -> %d", kind, stage, pname, v, CPARAMS[d].name, before.v[d], after.v[d]); }
        else if (hadOld && !ZSTD_isError(g) && rb != old) v_viol("rejected-call-changed-a-parameter", "%s stage=%s set(%s,%d) rejected but value changed %d -> %d", kind, stage, pname, v, old, rb);
        return;
    }
    if (ZSTD_isError(g)) { v_viol("getParameter-fails-for-settable-parameter", "%s stage=%s %s: set(%d) ok, get fails: %s", kind, stage, pname, v, ZSTD_getErrorName(g)); return; }
    if (inRange) {
        int okv = (rb == v);
        if (nameIsC && pid == ZSTD_c_compressionLevel && v == 0 && rb == ZSTD_defaultCLevel()) okv = 1;        /* documented: 0 = default level */
        if (nameIsC && pid == ZSTD_c_jobSize && v > 0 && v < (512 << 10) && rb == (512 << 10)) okv = 1;           /* documented minimum job size */
        v_cell("grid_outcome", "%s|%s", kind, okv ? (rb == v ? "in-range-accepted" : "in-range-normalised") : "in-range-altered");
        if (!okv) v_viol("read-back-differs-from-accepted-value", "%s stage=%s set(%s,%d) ok but get -> %d (bounds [%d,%d])", kind, stage, pname, v, rb, lo, hi);
    } else {
        int const fine = (rb >= lo && rb <= hi) || (v == 0 && zeroDefault && (rb == 0 || (rb >= lo && rb <= hi)));
        v_cell("grid_outcome", "%s|%s", kind, fine ? (v == 0 ? "zero-default-accepted" : "out-of-range-clamped") : "out-of-range-stored");
        if (!fine) v_viol("out-of-range-value-accepted-and-stored", "%s stage=%s set(%s,%d) accepted, reads back %d, advertised bounds [%d,%d]", kind, stage, pname, v, rb, lo, hi);
    }
}
static size_t c_set(void* o, int p, int v) { return ZSTD_CCtx_setParameter((ZSTD_CCtx*)o, (ZSTD_cParameter)p, v); }
static size_t c_get(void* o, int p, int* v) { return ZSTD_CCtx_getParameter((ZSTD_CCtx*)o, (ZSTD_cParameter)p, v); }
static void c_snap(void* o, cvec* v) { getvec((ZSTD_CCtx*)o, v); }
static size_t p_set(void* o, int p, int v) { return ZSTD_CCtxParams_setParameter((ZSTD_CCtx_params*)o, (ZSTD_cParameter)p, v); }
static size_t p_get(void* o, int p, int* v) { return ZSTD_CCtxParams_getParameter((ZSTD_CCtx_params*)o, (ZSTD_cParameter)p, v); }
static void p_snap(void* o, cvec* v) { getvec_p((ZSTD_CCtx_params*)o, v); }
static size_t d_set(void* o, int p, int v) { return ZSTD_DCtx_setParameter((ZSTD_DCtx*)o, (ZSTD_dParameter)p, v); }
static size_t d_get(void* o, int p, int* v) { return ZSTD_DCtx_getParameter((ZSTD_DCtx*)o, (ZSTD_dParameter)p, v); }

static void start_frame(ZSTD_CCtx* c) { ZSTD_inBuffer in = { g_src, 5000, 0 }; ZSTD_outBuffer out = { g_dst, sizeof g_dst, 0 }; size_t r = ZSTD_compressStream2(c, &out, &in, ZSTD_e_continue); if (ZSTD_isError(r)) v_viol("grid-setup:cannot-start-frame", "%s", ZSTD_getErrorName(r)); }

static void grid(void)
{
    cvec fresh; { ZSTD_CCtx* f = ZSTD_createCCtx(); getvec(f, &fresh); ZSTD_freeCCtx(f); }
    for (int i = 0; i < NCP; i++) if (!fresh.ok[i]) v_viol("getParameter-fails-on-fresh-context", "%s", CPARAMS[i].name);
    /* ---- CCtx: stages fresh / after a frame / after an error / after each reset kind */
    static const char* const stages[] = { "fresh", "after-frame", "after-error+session-reset", "after-reset-session", "after-reset-params", "after-reset-both", "mt-after-frame" };
    for (int st = 0; st < 7; st++) for (int i = 0; i < NCP; i++) {
        ZSTD_bounds const b = ZSTD_cParam_getBounds(CPARAMS[i].p);
        if (ZSTD_isError(b.error)) { v_viol("getBounds-fails", "%s", CPARAMS[i].name); continue; }
        int vals[10]; int const nv = test_values(b.lowerBound, b.upperBound, fresh.v[i], vals);
        for (int k = 0; k < nv; k++) {
            ZSTD_CCtx* c = ZSTD_createCCtx();
            switch (st) {
            case 1: ZSTD_compress2(c, g_dst, sizeof g_dst, g_src, 20000); break;
            case 2: { cvec b0, b1; getvec(c, &b0); size_t e = ZSTD_compress2(c, g_dst, 10, g_src, 20000); if (!ZSTD_isError(e)) v_viol("grid-setup:expected-error", "compress2 into 10 bytes succeeded");
                      getvec(c, &b1); { int d = vec_diff(&b0, &b1); if (d >= 0) v_viol("failed-operation-changed-a-parameter", "%s", CPARAMS[d].name); }
                      ZSTD_CCtx_reset(c, ZSTD_reset_session_only);   /* the documented recovery after an error */ break; }
            case 3: start_frame(c); ZSTD_CCtx_reset(c, ZSTD_reset_session_only); break;
            case 4: ZSTD_CCtx_setParameter(c, ZSTD_c_checksumFlag, 1); ZSTD_CCtx_reset(c, ZSTD_reset_parameters); break;
            case 5: start_frame(c); ZSTD_CCtx_reset(c, ZSTD_reset_session_and_parameters); break;
            case 6: ZSTD_CCtx_setParameter(c, ZSTD_c_nbWorkers, 1); ZSTD_compress2(c, g_dst, sizeof g_dst, g_src, 20000); ZSTD_CCtx_setParameter(c, ZSTD_c_nbWorkers, 0); break;
            default: break; }
            check_set("CCtx", stages[st], CPARAMS[i].name, (int)CPARAMS[i].p, zero_means_default(CPARAMS[i].p), b.lowerBound, b.upperBound, vals[k], c, c_set, c_get, c_snap, 1);
            ZSTD_freeCCtx(c);
        }
    }
    /* ---- mid-frame (ST and MT): non-updatable parameters refused, vector unchanged; reset(parameters) refused */
    for (int mt = 0; mt < 2; mt++) for (int i = 0; i < NCP; i++) {
        ZSTD_bounds const b = ZSTD_cParam_getBounds(CPARAMS[i].p); if (ZSTD_isError(b.error)) continue;
        int cand[3] = { b.lowerBound, b.upperBound, (b.lowerBound + b.upperBound) / 2 };
        for (int k = 0; k < 3; k++) {
            ZSTD_CCtx* c = ZSTD_createCCtx(); cvec before, after;
            if (mt) ZSTD_CCtx_setParameter(c, ZSTD_c_nbWorkers, 2);
            start_frame(c); getvec(c, &before);
            size_t const r = ZSTD_CCtx_setParameter(c, CPARAMS[i].p, cand[k]);
            getvec(c, &after); v_stat("grid_cells", 1);
            if (!is_update_authorized(CPARAMS[i].p)) {
                if (!ZSTD_isError(r)) v_viol("mid-frame:non-updatable-parameter-accepted", "%s set(%s,%d) accepted while a frame is in progress", mt ? "MT" : "ST", CPARAMS[i].name, cand[k]);
                { int d = vec_diff(&before, &after); if (d >= 0 && ZSTD_isError(r)) v_viol("rejected-call-changed-a-parameter", "mid-frame %s set(%s,%d) rejected but %s changed", mt ? "MT" : "ST", CPARAMS[i].name, cand[k], CPARAMS[d].name); }
                v_cell("grid_outcome", "midframe|%s", ZSTD_isError(r) ? "refused" : "accepted-nonupdatable");
            } else v_cell("grid_outcome", "midframe|updatable-%s", ZSTD_isError(r) ? "refused" : "accepted");
            {   size_t const rr = ZSTD_CCtx_reset(c, ZSTD_reset_parameters); if (!ZSTD_isError(rr)) v_viol("mid-frame:reset-parameters-accepted", "%s", mt ? "MT" : "ST"); }
            /* the frame must still be completable and decodable */
            {   ZSTD_inBuffer in = { g_src + 5000, 3000, 0 }; ZSTD_outBuffer out = { g_dst2, sizeof g_dst2, 0 }; size_t rr; int guard = 0; do { rr = ZSTD_compressStream2(c, &out, &in, ZSTD_e_end); } while (!ZSTD_isError(rr) && rr != 0 && ++guard < 1000);
                if (ZSTD_isError(rr)) v_viol("mid-frame:frame-cannot-be-finished-after-refused-set", "%s %s: %s", mt ? "MT" : "ST", CPARAMS[i].name, ZSTD_getErrorName(rr)); }
            ZSTD_freeCCtx(c);
        }
    }
    /* ---- CCtxParams */
    for (int i = 0; i < NCP; i++) {
        ZSTD_bounds const b = ZSTD_cParam_getBounds(CPARAMS[i].p); if (ZSTD_isError(b.error)) continue;
        int vals[10]; int const nv = test_values(b.lowerBound, b.upperBound, fresh.v[i], vals);
        for (int k = 0; k < nv; k++) { ZSTD_CCtx_params* p = ZSTD_createCCtxParams(); check_set("CCtxParams", "fresh", CPARAMS[i].name, (int)CPARAMS[i].p, zero_means_default(CPARAMS[i].p), b.lowerBound, b.upperBound, vals[k], p, p_set, p_get, p_snap, 1); ZSTD_freeCCtxParams(p); }
    }
    {   /* CCtxParams defaults == CCtx defaults; reset restores them */
        ZSTD_CCtx_params* p = ZSTD_createCCtxParams(); cvec a; getvec_p(p, &a); int d = vec_diff(&a, &fresh); if (d >= 0) v_viol("defaults:CCtxParams-differ-from-CCtx", "%s: %d vs %d", CPARAMS[d].name, a.v[d], fresh.v[d]);
        ZSTD_CCtxParams_setParameter(p, ZSTD_c_checksumFlag, 1); ZSTD_CCtxParams_setParameter(p, ZSTD_c_windowLog, 17); ZSTD_CCtxParams_reset(p); getvec_p(p, &a); d = vec_diff(&a, &fresh); if (d >= 0) v_viol("reset:CCtxParams_reset-does-not-restore-default", "%s", CPARAMS[d].name);
        ZSTD_freeCCtxParams(p); }
    /* ---- resets on CCtx: full reset == fresh; session-only keeps parameters */
    {   ZSTD_CCtx* c = ZSTD_createCCtx(); cvec a, b2;
        for (int i = 0; i < NCP; i++) { ZSTD_bounds const b = ZSTD_cParam_getBounds(CPARAMS[i].p); if (!ZSTD_isError(b.error) && CPARAMS[i].p != ZSTD_c_nbWorkers) ZSTD_CCtx_setParameter(c, CPARAMS[i].p, b.upperBound == fresh.v[i] ? b.lowerBound : b.upperBound); }
        ZSTD_CCtx_setParameter(c, ZSTD_c_windowLog, 18); ZSTD_CCtx_setParameter(c, ZSTD_c_hashLog, 12); ZSTD_CCtx_setParameter(c, ZSTD_c_chainLog, 12); ZSTD_CCtx_setParameter(c, ZSTD_c_ldmHashLog, 10);
        getvec(c, &a); ZSTD_CCtx_reset(c, ZSTD_reset_session_only); getvec(c, &b2);
        { int d = vec_diff(&a, &b2); if (d >= 0) v_viol("reset:session-only-changed-a-parameter", "%s %d -> %d", CPARAMS[d].name, a.v[d], b2.v[d]); }
        ZSTD_CCtx_reset(c, ZSTD_reset_parameters); getvec(c, &b2);
        { int d = vec_diff(&fresh, &b2); if (d >= 0) v_viol("reset:parameters-does-not-restore-default", "%s is %d, fresh context has %d", CPARAMS[d].name, b2.v[d], fresh.v[d]); }
        v_stat("grid_cells", 3); ZSTD_freeCCtx(c); }
    /* ---- static context: same defaults as a heap context (its own grid row) */
    {   size_t const sz = ZSTD_estimateCCtxSize(3); void* ws = malloc(sz); ZSTD_CCtx* s = ZSTD_initStaticCCtx(ws, sz); cvec a;
        if (!s) v_viol("static:initStaticCCtx-fails-with-estimate", "size %zu", sz);
        else { getvec(s, &a); for (int i = 0; i < NCP; i++) if (a.ok[i] != fresh.ok[i] || a.v[i] != fresh.v[i]) v_viol("defaults:static-context-differs-from-heap-context", "%s: static %d, heap %d", CPARAMS[i].name, a.v[i], fresh.v[i]);
            v_stat("grid_cells", NCP);
            /* a parameter reset of a never-touched context must change nothing */
            ZSTD_CCtx_reset(s, ZSTD_reset_parameters); { cvec b2; getvec(s, &b2); int d = vec_diff(&fresh, &b2); if (d >= 0) v_viol("reset:parameters-does-not-restore-default", "static context: %s is %d, fresh heap context has %d", CPARAMS[d].name, b2.v[d], fresh.v[d]); } }
        free(ws); }
    /* ---- DCtx */
    {   ZSTD_DCtx* f = ZSTD_createDCtx(); int dfl[NDP];
        for (int i = 0; i < NDP; i++) { dfl[i] = 0; if (ZSTD_isError(ZSTD_DCtx_getParameter(f, DPARAMS[i].p, &dfl[i]))) v_viol("dctx:getParameter-fails-on-fresh-context", "%s", DPARAMS[i].name); }
        static const char* const dst_[] = { "fresh", "after-frame", "after-error", "after-reset-session" };
        size_t const fsz = ZSTD_compress(g_dst, sizeof g_dst, g_src, 50000, 3);
        for (int st = 0; st < 4; st++) for (int i = 0; i < NDP; i++) {
            ZSTD_bounds const b = ZSTD_dParam_getBounds(DPARAMS[i].p); if (ZSTD_isError(b.error)) { v_viol("dctx:getBounds-fails", "%s", DPARAMS[i].name); continue; }
            int vals[10]; int const nv = test_values(b.lowerBound, b.upperBound, dfl[i], vals);
            for (int k = 0; k < nv; k++) {
                ZSTD_DCtx* d = ZSTD_createDCtx();
                if (st == 1) ZSTD_decompressDCtx(d, g_out, sizeof g_out, g_dst, fsz);
                if (st == 2) ZSTD_decompressDCtx(d, g_out, sizeof g_out, g_src, 100);
                if (st == 3) { ZSTD_inBuffer in = { g_dst, 20, 0 }; ZSTD_outBuffer out = { g_out, sizeof g_out, 0 }; ZSTD_decompressStream(d, &out, &in); ZSTD_DCtx_reset(d, ZSTD_reset_session_only); }
                check_set("DCtx", dst_[st], DPARAMS[i].name, (int)DPARAMS[i].p, DPARAMS[i].p == ZSTD_d_windowLogMax || DPARAMS[i].p == ZSTD_d_maxBlockSize, b.lowerBound, b.upperBound, vals[k], d, d_set, d_get, NULL, 0);
                ZSTD_freeDCtx(d);
            }
        }
        /* mid-stream: every dParameter refused, value unchanged; reset(parameters) refused */
        for (int i = 0; i < NDP; i++) {
            ZSTD_bounds const b = ZSTD_dParam_getBounds(DPARAMS[i].p); if (ZSTD_isError(b.error)) continue;
            ZSTD_DCtx* d = ZSTD_createDCtx(); ZSTD_inBuffer in = { g_dst, 20, 0 }; ZSTD_outBuffer out = { g_out, sizeof g_out, 0 }; ZSTD_decompressStream(d, &out, &in);
            int before = 0, after = 0; ZSTD_DCtx_getParameter(d, DPARAMS[i].p, &before);
            size_t const r = ZSTD_DCtx_setParameter(d, DPARAMS[i].p, b.upperBound == before ? b.lowerBound : b.upperBound);
            ZSTD_DCtx_getParameter(d, DPARAMS[i].p, &after); v_stat("grid_cells", 1);
            if (!ZSTD_isError(r)) v_viol("dctx:mid-stream:parameter-accepted", "%s", DPARAMS[i].name); else if (before != after) v_viol("rejected-call-changed-a-parameter", "DCtx mid-stream %s", DPARAMS[i].name);
            if (!ZSTD_isError(ZSTD_DCtx_reset(d, ZSTD_reset_parameters))) v_viol("dctx:mid-stream:reset-parameters-accepted", "%s", DPARAMS[i].name);
            ZSTD_freeDCtx(d);
        }
        /* reset(parameters) restores defaults; setMaxWindowSize / setFormat agree with the parameters */
        {   ZSTD_DCtx* d = ZSTD_createDCtx(); for (int i = 0; i < NDP; i++) { ZSTD_bounds const b = ZSTD_dParam_getBounds(DPARAMS[i].p); if (!ZSTD_isError(b.error)) ZSTD_DCtx_setParameter(d, DPARAMS[i].p, b.upperBound == dfl[i] ? b.lowerBound : b.upperBound); }
            ZSTD_DCtx_reset(d, ZSTD_reset_session_and_parameters);
            for (int i = 0; i < NDP; i++) { int v = 0; ZSTD_DCtx_getParameter(d, DPARAMS[i].p, &v); if (v != dfl[i]) v_viol("dctx:reset-does-not-restore-default", "%s is %d, default %d", DPARAMS[i].name, v, dfl[i]); }
            ZSTD_DCtx_setMaxWindowSize(d, (size_t)1 << 20); { int v = 0; ZSTD_DCtx_getParameter(d, ZSTD_d_windowLogMax, &v); (void)v; }
            ZSTD_DCtx_setFormat(d, ZSTD_f_zstd1_magicless); { int v = 0; ZSTD_DCtx_getParameter(d, ZSTD_d_format, &v); if (v != ZSTD_f_zstd1_magicless) v_viol("dctx:setFormat-not-reflected", "%d", v); }
            ZSTD_freeDCtx(d); }
        /* session-level entry points keep the parameters (zstd.h documents each of them as "reset session [+ reference / load a dictionary]"): every decompression parameter at a
         * non-default value, then each way of starting the next frame, then the whole get-vector again */
        {   static const char* const opn[] = { "ZSTD_decompressDCtx", "ZSTD_decompressStream(whole frame)", "ZSTD_initDStream", "ZSTD_resetDStream", "ZSTD_DCtx_reset(session_only)", "ZSTD_DCtx_refDDict(NULL)", "ZSTD_DCtx_loadDictionary(NULL,0)", "ZSTD_decompressBegin" };
            for (int op = 0; op < 8; op++) { ZSTD_DCtx* d = ZSTD_createDCtx(); int before[NDP], after[NDP];
                for (int i = 0; i < NDP; i++) { ZSTD_bounds const b = ZSTD_dParam_getBounds(DPARAMS[i].p); if (ZSTD_isError(b.error)) continue; int v = (b.upperBound == dfl[i]) ? b.lowerBound : b.upperBound; if (DPARAMS[i].p == ZSTD_d_windowLogMax) v = 23; if (DPARAMS[i].p == ZSTD_d_maxBlockSize) v = 4096; ZSTD_DCtx_setParameter(d, DPARAMS[i].p, v); }
                for (int i = 0; i < NDP; i++) { before[i] = 0; ZSTD_DCtx_getParameter(d, DPARAMS[i].p, &before[i]); }
                switch (op) { case 0: (void)ZSTD_decompressDCtx(d, g_out, sizeof g_out, g_dst, fsz); break;
                    case 1: { ZSTD_inBuffer in = { g_dst, fsz, 0 }; ZSTD_outBuffer out = { g_out, sizeof g_out, 0 }; (void)ZSTD_decompressStream(d, &out, &in); break; }
                    case 2: (void)ZSTD_initDStream(d); break; case 3: (void)ZSTD_resetDStream(d); break; case 4: (void)ZSTD_DCtx_reset(d, ZSTD_reset_session_only); break;
                    case 5: (void)ZSTD_DCtx_refDDict(d, NULL); break; case 6: (void)ZSTD_DCtx_loadDictionary(d, NULL, 0); break; default: (void)ZSTD_decompressBegin(d); break; }
                for (int i = 0; i < NDP; i++) { after[i] = 0; ZSTD_DCtx_getParameter(d, DPARAMS[i].p, &after[i]); if (after[i] != before[i]) v_viol("dctx:session-level-call-changed-a-parameter", "%s changed %s from %d to %d", opn[op], DPARAMS[i].name, before[i], after[i]); v_stat("grid_cells", 1); }
                ZSTD_freeDCtx(d); } }
        ZSTD_freeDCtx(f);
    }
    /* the same for the compression side: ZSTD_initCStream(level) = reset session + drop the dictionary + set the level; ZSTD_resetCStream / initCStream_srcSize likewise + pledged size */
    {   static const char* const opn[] = { "ZSTD_initCStream", "ZSTD_resetCStream", "ZSTD_initCStream_srcSize", "ZSTD_CCtx_reset(session_only)", "ZSTD_CCtx_refCDict(NULL)", "ZSTD_CCtx_refPrefix(NULL,0)", "ZSTD_CCtx_setPledgedSrcSize" };
        for (int op = 0; op < 7; op++) { ZSTD_CCtx* c = ZSTD_createCCtx(); cvec before, after;
            ZSTD_CCtx_setParameter(c, ZSTD_c_compressionLevel, 7); ZSTD_CCtx_setParameter(c, ZSTD_c_windowLog, 20); ZSTD_CCtx_setParameter(c, ZSTD_c_checksumFlag, 1); ZSTD_CCtx_setParameter(c, ZSTD_c_contentSizeFlag, 0); ZSTD_CCtx_setParameter(c, ZSTD_c_dictIDFlag, 0);
            ZSTD_CCtx_setParameter(c, ZSTD_c_enableLongDistanceMatching, 1); ZSTD_CCtx_setParameter(c, ZSTD_c_minMatch, 5); ZSTD_CCtx_setParameter(c, ZSTD_c_targetCBlockSize, 2000); ZSTD_CCtx_setParameter(c, ZSTD_c_maxBlockSize, 4096); ZSTD_CCtx_setParameter(c, ZSTD_c_literalCompressionMode, 2); ZSTD_CCtx_setParameter(c, ZSTD_c_useRowMatchFinder, 2);
            getvec(c, &before);
            switch (op) { case 0: (void)ZSTD_initCStream(c, 7); break; case 1: (void)ZSTD_resetCStream(c, 1000); break; case 2: (void)ZSTD_initCStream_srcSize(c, 7, 1000); break; case 3: (void)ZSTD_CCtx_reset(c, ZSTD_reset_session_only); break;
                case 4: (void)ZSTD_CCtx_refCDict(c, NULL); break; case 5: (void)ZSTD_CCtx_refPrefix(c, NULL, 0); break; default: (void)ZSTD_CCtx_setPledgedSrcSize(c, 1000); break; }
            getvec(c, &after); { int const dd = vec_diff(&before, &after); if (dd >= 0) v_viol("cctx:session-level-call-changed-a-parameter", "%s changed %s from %d to %d", opn[op], CPARAMS[dd].name, before.v[dd], after.v[dd]); } v_stat("grid_cells", NCP);
            ZSTD_freeCCtx(c); } }
    v_sample("grid: %d cParameters x <=10 values x 7 stages + mid-frame ST/MT + CCtxParams + %d dParameters x 4 stages", NCP, NDP);
}

/* ---- random valid sets: in force on frames 1..k, survive session reset, vanish after parameter reset; simple API ignores them */
static void frame_facts(const uint8_t* f, size_t fsz, size_t n, const vparams* P, const char* when, const uint8_t* dict, size_t dlen, int expectDictID)
{
    refdec_info_t I; memset(&I, 0, sizeof I); I.magicless = P->magicless; I.keep_blocks = 1;
    refdec_dict_t* rd = dict ? refdec_dict_create(dict, dlen, 0) : NULL;
    if (!refdec_decode(g_out, n, f, fsz, rd, &I, 0) || I.out_size != n || memcmp(g_out, g_src, n)) { v_viol("sticky:frame-does-not-decode", "%s params=[%s] R=%s", when, P->desc, I.err ? I.err : "mismatch"); goto out; }
    {   refdec_frame_t* F = &I.frames[0];
        if (F->has_checksum != P->checksum) v_viol("sticky:checksumFlag-not-in-force", "%s want %d params=[%s]", when, P->checksum, P->desc);
        if (F->has_fcs != P->contentSize) v_viol("sticky:contentSizeFlag-not-in-force", "%s want %d got %d params=[%s]", when, P->contentSize, F->has_fcs, P->desc);
        if (P->windowLog && !F->single_segment && F->window_size > ((uint64_t)1 << P->windowLog)) v_viol("sticky:windowLog-not-in-force", "%s window %llu > 2^%d", when, (unsigned long long)F->window_size, P->windowLog);
        if (P->maxBlockSize) for (size_t b = 0; b < I.nb_blocks; b++) if (I.blocks[b].rsize > (size_t)P->maxBlockSize) { v_viol("sticky:maxBlockSize-not-in-force", "%s block %zu > %d", when, I.blocks[b].rsize, P->maxBlockSize); break; }
        if (expectDictID >= 0 && (F->dict_id != 0) != (expectDictID != 0)) v_viol(expectDictID ? "sticky:dictionary-not-applied" : "reset:dictionary-still-applied", "%s frame dictID=%u", when, F->dict_id);
        v_stat("frames_inspected", 1); }
out:
    refdec_info_free(&I); refdec_dict_free(rd);
}

/* ---- struct setters of the static API: ZSTD_CCtx_setCParams / setFParams / setParams. In-bounds structs are accepted and read back through
 * getParameter, a struct with one field out of its advertised bounds is rejected, and a rejected call changes nothing (all-or-nothing). */
static void struct_setters(long idx)
{
    static const ZSTD_cParameter F7[7] = { ZSTD_c_windowLog, ZSTD_c_chainLog, ZSTD_c_hashLog, ZSTD_c_searchLog, ZSTD_c_minMatch, ZSTD_c_targetLength, ZSTD_c_strategy };
    static const char* const F7n[7] = { "windowLog", "chainLog", "hashLog", "searchLog", "minMatch", "targetLength", "strategy" };
    vrng r = vr_make(V.seed, 216, (uint64_t)idx);
    for (int round = 0; round < 12; round++) {
        ZSTD_CCtx* c = ZSTD_createCCtx(); cvec before, after;
        /* some accepted prior state that the call must not disturb */
        ZSTD_CCtx_setParameter(c, ZSTD_c_compressionLevel, (int)vr_range(&r, 1, 12)); ZSTD_CCtx_setParameter(c, ZSTD_c_checksumFlag, (int)vr_u(&r, 2)); ZSTD_CCtx_setParameter(c, ZSTD_c_contentSizeFlag, (int)vr_u(&r, 2)); ZSTD_CCtx_setParameter(c, ZSTD_c_dictIDFlag, (int)vr_u(&r, 2));
        if (vr_chance(&r, 1, 2)) ZSTD_CCtx_setParameter(c, ZSTD_c_windowLog, (int)vr_range(&r, 10, 20)); if (vr_chance(&r, 1, 3)) ZSTD_CCtx_setParameter(c, ZSTD_c_enableLongDistanceMatching, 1);
        ZSTD_compressionParameters cp = ZSTD_getCParams((int)vr_range(&r, 1, 19), vr_chance(&r, 1, 2) ? 100000 : 0, 0); int v7[7]; int lo7[7], hi7[7];
        if (cp.windowLog > 21) cp.windowLog = 21; if (cp.hashLog > 21) cp.hashLog = 21; if (cp.chainLog > 21) cp.chainLog = 21;
        for (int i = 0; i < 7; i++) { ZSTD_bounds const b = ZSTD_cParam_getBounds(F7[i]); lo7[i] = b.lowerBound; hi7[i] = b.upperBound; }
        if (vr_chance(&r, 1, 2)) { cp.searchLog = (unsigned)vr_range(&r, 1, 7); cp.minMatch = (unsigned)vr_range(&r, 3, 7); cp.targetLength = (unsigned)vr_u(&r, 1000); cp.strategy = (ZSTD_strategy)vr_range(&r, 1, 9); cp.windowLog = (unsigned)vr_range(&r, 10, 21); }
        int bad = -1;
        if (vr_chance(&r, 1, 2)) { bad = (int)vr_u(&r, 7); int const bv = vr_chance(&r, 1, 2) ? lo7[bad] - 1 : hi7[bad] + 1; unsigned* fld[7] = { &cp.windowLog, &cp.chainLog, &cp.hashLog, &cp.searchLog, &cp.minMatch, &cp.targetLength, NULL };
            if (bad == 6) cp.strategy = (ZSTD_strategy)bv; else *fld[bad] = (unsigned)bv; }
        v7[0] = (int)cp.windowLog; v7[1] = (int)cp.chainLog; v7[2] = (int)cp.hashLog; v7[3] = (int)cp.searchLog; v7[4] = (int)cp.minMatch; v7[5] = (int)cp.targetLength; v7[6] = (int)cp.strategy;
        ZSTD_frameParameters fp; fp.contentSizeFlag = (int)vr_u(&r, 2); fp.checksumFlag = (int)vr_u(&r, 2); fp.noDictIDFlag = (int)vr_u(&r, 2);
        int const which = (int)vr_u(&r, 3); const char* const wn = which == 0 ? "ZSTD_CCtx_setCParams" : which == 1 ? "ZSTD_CCtx_setFParams" : "ZSTD_CCtx_setParams";
        int const midframe = vr_chance(&r, 1, 6); if (midframe) start_frame(c);
        getvec(c, &before);
        size_t e; if (which == 0) e = ZSTD_CCtx_setCParams(c, cp); else if (which == 1) e = ZSTD_CCtx_setFParams(c, fp); else { ZSTD_parameters zp; zp.cParams = cp; zp.fParams = fp; e = ZSTD_CCtx_setParams(c, zp); }
        getvec(c, &after); v_stat("struct_setter_calls", 1); v_cell("struct_setter", "%s|%s|%s|%s", wn, bad >= 0 && which != 1 ? "one-field-out-of-bounds" : "in-bounds", midframe ? "mid-frame" : "idle", ZSTD_isError(e) ? "rejected" : "accepted");
        if (ZSTD_isError(e)) { int const d = vec_diff(&before, &after); if (d >= 0) v_viol("rejected-call-changed-a-parameter", "%s rejected (%s; %s field %s) but %s changed %d -> %d", wn, ZSTD_getErrorName(e), midframe ? "mid-frame" : "idle", bad >= 0 ? F7n[bad] : "-", CPARAMS[d].name, before.v[d], after.v[d]);
            if (!midframe && (bad < 0 || which == 1)) v_viol("struct-setter:in-bounds-struct-rejected", "%s: %s", wn, ZSTD_getErrorName(e)); }
        else {
            if (bad >= 0 && which != 1) v_viol("out-of-range-value-accepted-and-stored", "%s accepted %s=%d, advertised bounds [%d,%d]", wn, F7n[bad], v7[bad], lo7[bad], hi7[bad]);
            else {
                for (int i = 0; i < NCP; i++) {   /* fields named by the struct read back as given, everything else untouched */
                    int expect = before.v[i]; int named = 0;
                    if (which != 1) for (int k = 0; k < 7; k++) if (CPARAMS[i].p == F7[k]) { expect = v7[k]; named = 1; }
                    if (which != 0) { if (CPARAMS[i].p == ZSTD_c_contentSizeFlag) { expect = fp.contentSizeFlag != 0; named = 1; } if (CPARAMS[i].p == ZSTD_c_checksumFlag) { expect = fp.checksumFlag != 0; named = 1; } if (CPARAMS[i].p == ZSTD_c_dictIDFlag) { expect = !fp.noDictIDFlag; named = 1; } }
                    if (after.ok[i] && after.v[i] != expect) v_viol(named ? "read-back-differs-from-accepted-value" : "struct-setter:changed-an-unrelated-parameter", "%s: %s reads back %d, expected %d", wn, CPARAMS[i].name, after.v[i], expect); }
                if (!midframe) {   /* and they are in force on the next frame */
                    size_t const n = 60000; size_t const cs = ZSTD_compress2(c, g_dst, sizeof g_dst, g_src, n); vparams Q; memset(&Q, 0, sizeof Q);
                    int t = 0; ZSTD_CCtx_getParameter(c, ZSTD_c_checksumFlag, &t); Q.checksum = t; ZSTD_CCtx_getParameter(c, ZSTD_c_contentSizeFlag, &t); Q.contentSize = t; ZSTD_CCtx_getParameter(c, ZSTD_c_windowLog, &t); Q.windowLog = t; snprintf(Q.desc, sizeof Q.desc, "%s", wn);
                    if (ZSTD_isError(cs)) v_viol("sticky:compression-fails-with-accepted-parameters", "after %s: %s", wn, ZSTD_getErrorName(cs)); else frame_facts(g_dst, cs, n, &Q, wn, NULL, 0, -1); } } }
        if (midframe) { ZSTD_inBuffer in = { g_src, 0, 0 }; ZSTD_outBuffer out = { g_dst, sizeof g_dst, 0 }; size_t rr; do { rr = ZSTD_compressStream2(c, &out, &in, ZSTD_e_end); } while (!ZSTD_isError(rr) && rr); if (ZSTD_isError(rr)) v_viol("mid-frame:frame-cannot-be-finished-after-refused-set", "%s: %s", wn, ZSTD_getErrorName(rr)); }
        ZSTD_freeCCtx(c);
    }
}
static uint8_t g_dictbuf[8192]; static size_t g_dictlen;
static void run_random(long idx)
{
    vrng r = vr_make(V.seed, 116, (uint64_t)idx);
    vparams P; vp_random(&r, &P, VP_MAGICLESS | VP_NOLEVELONLY);
    if (P.windowLog > 20) { return; }
    int const useDict = g_dictlen && vr_chance(&r, 1, 3);
    size_t const n = 1000 + vr_u(&r, 250000);
    ZSTD_CCtx* c = ZSTD_createCCtx(); cvec want, got, fresh;
    { ZSTD_CCtx* f = ZSTD_createCCtx(); getvec(f, &fresh); ZSTD_freeCCtx(f); }
    if (ZSTD_isError(vp_apply(c, &P))) { ZSTD_freeCCtx(c); v_stat("random_rejected", 1); return; }
    if (useDict && ZSTD_isError(ZSTD_CCtx_loadDictionary(c, g_dictbuf, g_dictlen))) { ZSTD_freeCCtx(c); return; }
    int dictIDflag = 1; ZSTD_CCtx_getParameter(c, ZSTD_c_dictIDFlag, &dictIDflag);
    getvec(c, &want); v_stat("random_sets", 1);
    int const k = 2 + (int)vr_u(&r, 2);
    for (int f = 0; f < k; f++) {
        size_t cs;
        if (vr_chance(&r, 1, 2)) cs = ZSTD_compress2(c, g_dst, sizeof g_dst, g_src, n);
        else { ZSTD_inBuffer in = { g_src, n, 0 }; ZSTD_outBuffer out = { g_dst, sizeof g_dst, 0 }; size_t rr; ZSTD_CCtx_setPledgedSrcSize(c, n); do { rr = ZSTD_compressStream2(c, &out, &in, ZSTD_e_end); } while (!ZSTD_isError(rr) && rr); cs = ZSTD_isError(rr) ? rr : out.pos; }
        if (ZSTD_isError(cs)) { v_viol("sticky:compression-fails-with-accepted-parameters", "frame %d params=[%s]: %s", f, P.desc, ZSTD_getErrorName(cs)); break; }
        char when[32]; snprintf(when, sizeof when, "frame %d", f + 1);
        frame_facts(g_dst, cs, n, &P, when, useDict ? g_dictbuf : NULL, g_dictlen, useDict ? dictIDflag : -1);
        getvec(c, &got); { int d = vec_diff(&want, &got); if (d >= 0) v_viol("sticky:parameter-changed-by-compression", "after frame %d: %s %d -> %d params=[%s]", f + 1, CPARAMS[d].name, want.v[d], got.v[d], P.desc); }
        if (f == 0 && vr_chance(&r, 1, 2)) ZSTD_CCtx_reset(c, ZSTD_reset_session_only);
    }
    /* simple API ignores advanced parameters: same bytes as on a fresh context */
    {   ZSTD_CCtx* f = ZSTD_createCCtx(); int const lvl = (int)vr_range(&r, 1, 9); size_t const m = V_MIN(n, 100000);
        size_t a = ZSTD_compressCCtx(c, g_dst, sizeof g_dst, g_src, m, lvl), b = ZSTD_compressCCtx(f, g_dst2, sizeof g_dst2, g_src, m, lvl);
        if (ZSTD_isError(a) || ZSTD_isError(b) || a != b || memcmp(g_dst, g_dst2, a)) v_viol("simple-api:compressCCtx-affected-by-advanced-parameters", "level %d params=[%s] (%zu vs %zu)", lvl, P.desc, a, b);
        a = ZSTD_compress_usingDict(c, g_dst, sizeof g_dst, g_src, m, g_src + 100, 3000, lvl); b = ZSTD_compress_usingDict(f, g_dst2, sizeof g_dst2, g_src, m, g_src + 100, 3000, lvl);
        if (ZSTD_isError(a) || ZSTD_isError(b) || a != b || memcmp(g_dst, g_dst2, a)) v_viol("simple-api:compress_usingDict-affected-by-advanced-parameters", "level %d params=[%s] (%zu vs %zu)", lvl, P.desc, a, b);
        {   ZSTD_CDict* cd = ZSTD_createCDict(g_src + 100, 3000, lvl);
            a = ZSTD_compress_usingCDict(c, g_dst, sizeof g_dst, g_src, m, cd); b = ZSTD_compress_usingCDict(f, g_dst2, sizeof g_dst2, g_src, m, cd);
            if (ZSTD_isError(a) || ZSTD_isError(b) || a != b || memcmp(g_dst, g_dst2, a)) v_viol("simple-api:compress_usingCDict-affected-by-advanced-parameters", "level %d params=[%s] (%zu vs %zu)", lvl, P.desc, a, b);
            ZSTD_freeCDict(cd); }
        getvec(c, &got); { int d = vec_diff(&want, &got); if (d >= 0) v_viol("simple-api:changed-a-sticky-parameter", "%s %d -> %d", CPARAMS[d].name, want.v[d], got.v[d]); }
        v_stat("simple_api_pairs", 3); ZSTD_freeCCtx(f); }
    /* parameter reset: defaults restored, dictionary dropped */
    ZSTD_CCtx_reset(c, ZSTD_reset_session_and_parameters); getvec(c, &got);
    { int d = vec_diff(&fresh, &got); if (d >= 0) v_viol("reset:parameters-does-not-restore-default", "%s is %d, fresh %d (params were [%s])", CPARAMS[d].name, got.v[d], fresh.v[d], P.desc); }
    {   size_t cs = ZSTD_compress2(c, g_dst, sizeof g_dst, g_src, n); vparams D; memset(&D, 0, sizeof D); D.contentSize = 1;
        if (ZSTD_isError(cs)) v_viol("reset:compression-fails-after-reset", "%s", ZSTD_getErrorName(cs)); else frame_facts(g_dst, cs, n, &D, "after reset(parameters)", NULL, 0, 0); }
    v_cell("random_set", "%s", P.desc);
    v_sample("random set [%s] x %d frames, dict=%d", P.desc, k, useDict);
    ZSTD_freeCCtx(c);
}

int main(int argc, char** argv)
{
    v_init(argc, argv);
    vrng r = vr_make(7, 16, 0); gen_data(&r, g_src, sizeof g_src, DF_TEXT);
    {   /* a small formatted dictionary for the "dictionary dropped by reset" relation */
        size_t sizes[200]; for (int i = 0; i < 200; i++) sizes[i] = 1000;
        extern size_t ZDICT_trainFromBuffer(void*, size_t, const void*, const size_t*, unsigned);
        size_t d = ZDICT_trainFromBuffer(g_dictbuf, sizeof g_dictbuf, g_src, sizes, 200); g_dictlen = ZSTD_isError(d) ? 0 : d; }
    vp_trace_on = 0;
    for (long i = V.from; i < V.to; i++) { v_case(i); v_budget(1200); if (i == 0) grid(); else { run_random(i); if (i % 4 == 1) struct_setters(i); } }
    return v_finish();
}
