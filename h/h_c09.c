/* h_c09.c - C09: truncation, size lies and checksum damage are reported, never accepted; pledged source size is enforced.
 * side=0 : decoder side (cuts, trailing garbage, forged content size, checksum / content damage)   side=1 : pledged size */
#include "vhist.h"
#include "refdec.h"

static size_t g_maxSize;

static int stream_reports_complete(ZSTD_DCtx* d, const uint8_t* f, size_t k, size_t outCap, uint8_t* out, size_t inChunk, size_t* produced)
{   /* feed f[0..k) completely; returns 1 if ZSTD_decompressStream ever returns 0 */
    ZSTD_inBuffer in = { f, 0, 0 }; ZSTD_outBuffer o = { out, outCap, 0 }; int idle = 0; long guard = 0;
    while (1) {
        if (in.pos == in.size && in.size < k) in.size = V_MIN(k, in.size + inChunk);
        size_t const ib = in.pos, ob = o.pos;
        size_t const r = ZSTD_decompressStream(d, &o, &in);
        if (ZSTD_isError(r)) { *produced = o.pos; return 0; }
        if (r == 0) { *produced = o.pos; return 1; }
        if (in.pos == ib && o.pos == ob) { if (in.size == k && ++idle > 2) break; } else idle = 0;
        if (o.pos == o.size) break;
        if (++guard > 10000000) break;
    }
    *produced = o.pos; return 0;
}

static void run_dcase(long idx)
{
    vrng r = vr_make(V.seed, 109, (uint64_t)idx);
    int const fam = (int)vr_u(&r, DF_NB);
    size_t n; switch (vr_u(&r, 5)) { case 0: n = vr_u(&r, 40); break; case 1: n = vr_u(&r, 3000); break; default: n = pick_size(&r, g_maxSize); }
    uint8_t* x = (uint8_t*)malloc(n + 8); gen_data(&r, x, n, fam);
    vparams P; vp_random(&r, &P, VP_MAGICLESS | (n > 600000 ? VP_MT : 0)); if (P.windowLog > 21) vp_level_only(&P);
    size_t const cap = ZSTD_compressBound(n) + 512; uint8_t* f = (uint8_t*)malloc(cap + 64); uint8_t* out = (uint8_t*)malloc(n + 64);
    ZSTD_CCtx* c = ZSTD_createCCtx(); ZSTD_DCtx* d = ZSTD_createDCtx();
    size_t fs; int const streamed = (int)vr_u(&r, 2); char desc[500];
    if (ZSTD_isError(vp_apply(c, &P))) { v_stat("params_rejected", 1); goto out; }
    if (streamed) { hscript S; h_gen_script(&r, n, &S, 0); fs = h_run_script(c, x, n, &S, f, cap, NULL, NULL); } else fs = ZSTD_compress2(c, f, cap, x, n);
    if (ZSTD_isError(fs)) { v_stat("skipped", 1); goto out; }
    snprintf(desc, sizeof desc, "n=%zu fam=%s params=[%s] streamed=%d fsize=%zu", n, v_df_name[fam], P.desc, streamed, fs);
    /* field map from R */
    refdec_info_t I; memset(&I, 0, sizeof I); I.magicless = P.magicless; I.keep_blocks = 1;
    if (!refdec_decode(out, n, f, fs, NULL, &I, 0) || I.nb_frames != 1) { v_viol("setup:R-rejects-compressor-output", "%s", desc); refdec_info_free(&I); goto out; }
    refdec_frame_t const F = I.frames[0];
    v_stat("frames", 1); v_cell("shape", "fcs%d|ss%d|cks%d|ml%d|lastblk%d", F.fcs_bytes, F.single_segment, F.has_checksum, P.magicless, I.nb_blocks ? I.blocks[I.nb_blocks - 1].type : 9);
    int const ignoreCk = vr_chance(&r, 1, 3);      /* decoder told to ignore checksums: the frame still ends after its 4 checksum bytes */
    if (ignoreCk) v_stat("frames_decoded_with_forceIgnoreChecksum", 1);
    #define SETUP_D() do { ZSTD_DCtx_reset(d, ZSTD_reset_session_and_parameters); ZSTD_DCtx_setParameter(d, ZSTD_d_windowLogMax, 30); if (P.magicless) ZSTD_DCtx_setParameter(d, ZSTD_d_format, ZSTD_f_zstd1_magicless); } while (0)
    #define SETUP_DC() do { SETUP_D(); if (ignoreCk) ZSTD_DCtx_setParameter(d, ZSTD_d_forceIgnoreChecksum, ZSTD_d_ignoreChecksum); } while (0)      /* for the truncation oracles only */
    /* ---- cuts */
    {   size_t cuts[400]; int nc = 0;
        if (fs <= 600) { for (size_t k = 1; k < fs && nc < 390; k++) cuts[nc++] = k; }
        else {
            for (size_t k = 1; k <= F.header_size + 4 && k < fs && nc < 60; k++) cuts[nc++] = k;
            for (size_t b = 0; b < I.nb_blocks && nc < 300; b += (I.nb_blocks > 40 ? I.nb_blocks / 40 : 1)) { size_t const bo = I.blocks[b].src_off; size_t const e = bo + 3 + I.blocks[b].csize; size_t cand[6] = { bo + 1, bo + 2, bo + 3, e - 1, e, bo + 3 + I.blocks[b].csize / 2 }; for (int q = 0; q < 6; q++) if (cand[q] > 0 && cand[q] < fs) cuts[nc++] = cand[q]; }
            for (size_t k = fs > 6 ? fs - 6 : 1; k < fs && nc < 390; k++) cuts[nc++] = k;
            for (int q = 0; q < 20 && nc < 399; q++) cuts[nc++] = 1 + vr_u64(&r, fs - 1);
        }
        for (int q = 0; q < nc; q++) {
            size_t const k = cuts[q]; gbuf t = gb_alloc(k, 0); memcpy(t.p, f, k);      /* exact-size: reading past the cut faults */
            const char* where = k < (P.magicless ? 0u : 4u) ? "in-magic" : k < F.header_size ? "in-frame-header" : (F.has_checksum && k >= fs - 4) ? "in-checksum" : "in-blocks";
            SETUP_DC(); size_t const one = ZSTD_decompressDCtx(d, out, n + 32, t.p, k);
            if (!ZSTD_isError(one)) v_viol("truncation:one-shot-decode-accepts-a-proper-prefix", "%s cut=%zu (%s) returned %zu", desc, k, where, one);
            SETUP_DC(); size_t prod = 0; if (stream_reports_complete(d, t.p, k, n + 32, out, 1 + vr_u64(&r, k), &prod)) v_viol("truncation:streaming-decode-reports-completion-on-a-proper-prefix", "%s cut=%zu (%s)", desc, k, where);
            if (!P.magicless) { size_t const fc = ZSTD_findFrameCompressedSize(t.p, k); if (!ZSTD_isError(fc)) v_viol("truncation:findFrameCompressedSize-accepts-a-proper-prefix", "%s cut=%zu -> %zu", desc, k, fc); }
            if (!P.magicless && (q % 4) == 0) {  /* buffer-less: must not reach "frame complete" on a prefix */
                SETUP_DC(); ZSTD_decompressBegin(d); size_t ip = 0, op = 0; int complete = 0; long guard = 0;
                while (1) { size_t const need = ZSTD_nextSrcSizeToDecompress(d); if (need == 0) { complete = 1; break; } if (need > k - ip) break; size_t const rr = ZSTD_decompressContinue(d, out + op, n + 32 - op, t.p + ip, need); if (ZSTD_isError(rr)) break; ip += need; op += rr; if (++guard > 1000000) break; }
                if (complete) v_viol("truncation:bufferless-decode-reports-completion-on-a-proper-prefix", "%s cut=%zu", desc, k);
            }
            v_stat("cuts", 1); v_cell("cutclass", "%s", where);
            gb_free(&t);
        }
    }
    /* ---- trailing bytes that are not a frame */
    if (!P.magicless) for (int q = 0; q < 3; q++) {
        size_t const g = 1 + vr_u(&r, 40); memcpy(f + fs, "\x01\x02\x03\x04 not a frame, just some trailing bytes......", g < 40 ? g : 40); f[fs] = (uint8_t)(1 + vr_u(&r, 0x20));   /* first byte avoids every magic (0x28 zstd, 0x5x skippable, legacy 0x2x high bytes differ) */
        SETUP_D(); size_t const one = ZSTD_decompressDCtx(d, out, n + 32, f, fs + g);
        if (!ZSTD_isError(one)) v_viol("trailing:one-shot-decode-accepts-trailing-garbage", "%s garbage=%zu bytes", desc, g);
        v_stat("trailing_cases", 1);
    }
    /* ---- forged content size */
    if (F.has_fcs) {
        size_t const off = (P.magicless ? 0 : 4) + 1 + (F.single_segment ? 0 : 1) + (size_t)F.dictid_bytes;
        long long const deltas[6] = { 1, -1, 10, 1000, -7, 70000 };
        for (int q = 0; q < 6; q++) {
            long long const nv = (long long)n + deltas[q]; if (nv < 0) continue;
            uint8_t* g = (uint8_t*)malloc(fs); memcpy(g, f, fs);
            unsigned long long enc = (unsigned long long)nv; if (F.fcs_bytes == 2) { if (nv < 256 || nv > 65535 + 256) { free(g); continue; } enc -= 256; } else if (F.fcs_bytes == 1 && nv > 255) { free(g); continue; } else if (F.fcs_bytes == 4 && nv > 0xFFFFFFFFLL) { free(g); continue; }
            for (int b = 0; b < F.fcs_bytes; b++) g[off + (size_t)b] = (uint8_t)(enc >> (8 * b));
            if (F.single_segment && nv == 0) { free(g); continue; }
            uint8_t* o2 = (uint8_t*)malloc((size_t)nv + n + 64);
            SETUP_D(); size_t const one = ZSTD_decompressDCtx(d, o2, (size_t)nv + n + 64, g, fs);
            if (!ZSTD_isError(one)) v_viol("fcs:one-shot-decode-accepts-wrong-content-size", "%s field=%lld actual=%zu", desc, nv, n);
            for (int hist = 0; hist < 2; hist++) { SETUP_D(); size_t prod = 0; if (stream_reports_complete(d, g, fs, (size_t)nv + n + 64, o2, hist ? 1 + vr_u64(&r, fs) : fs, &prod)) v_viol("fcs:streaming-decode-accepts-wrong-content-size", "%s field=%lld actual=%zu chunked=%d", desc, nv, n, hist); }
            if (!P.magicless) { SETUP_D(); ZSTD_decompressBegin(d); size_t ip = 0, op = 0; int complete = 0; long guard = 0;
                while (1) { size_t const need = ZSTD_nextSrcSizeToDecompress(d); if (need == 0) { complete = 1; break; } if (need > fs - ip) break; size_t const rr = ZSTD_decompressContinue(d, o2 + op, (size_t)nv + n + 64 - op, g + ip, need); if (ZSTD_isError(rr)) break; ip += need; op += rr; if (++guard > 1000000) break; }
                if (complete) v_viol("fcs:bufferless-decode-accepts-wrong-content-size", "%s field=%lld actual=%zu", desc, nv, n); }
            v_stat("fcs_forgeries", 1); free(o2); free(g);
        }
    }
    /* ---- the same frame with its header re-encoded to carry the content size in the 8-byte field (the format allows it at any size; the compressor only uses it
     * from 4 GiB): the honest value must decode, lies in the low AND in the high half of the field must be refused by every decoder */
    if (F.has_fcs) {
        size_t const off = (P.magicless ? 0 : 4) + 1 + (F.single_segment ? 0 : 1) + (size_t)F.dictid_bytes; size_t const hOld = off + (size_t)F.fcs_bytes;
        size_t const fs8 = fs - (size_t)F.fcs_bytes + 8; uint8_t* g = (uint8_t*)malloc(fs8); memcpy(g, f, off); g[P.magicless ? 0 : 4] = (uint8_t)((g[P.magicless ? 0 : 4] & 0x3F) | 0xC0); memcpy(g + off + 8, f + hOld, fs - hOld);
        unsigned long long const vals[8] = { n, (unsigned long long)n + (1ULL << 32), (unsigned long long)n + (2ULL << 32), (unsigned long long)n + (0x7FFFFFFFULL << 32), (unsigned long long)n + 0x8000000000000000ULL, (unsigned long long)n + 1, n ? (unsigned long long)n - 1 : 5, (unsigned long long)n + (1ULL << 31) };
        uint8_t* o2 = (uint8_t*)malloc(n + 64);
        for (int q = 0; q < 8; q++) {
            unsigned long long const nv = vals[q]; for (int b2 = 0; b2 < 8; b2++) g[off + (size_t)b2] = (uint8_t)(nv >> (8 * b2));
            SETUP_D(); size_t const one = ZSTD_decompressDCtx(d, o2, n + 64, g, fs8);
            if (q == 0) { if (ZSTD_isError(one) || one != n || memcmp(o2, x, n)) v_viol("fcs8:frame-with-honest-8-byte-content-size-rejected", "%s: %s", desc, ZSTD_isError(one) ? ZSTD_getErrorName(one) : "wrong bytes"); v_stat("fcs8_honest", 1); continue; }
            if (!ZSTD_isError(one)) v_viol("fcs:one-shot-decode-accepts-wrong-content-size", "%s 8-byte field=%llu actual=%zu", desc, nv, n);
            for (int hist = 0; hist < 2; hist++) { SETUP_D(); size_t prod = 0; if (stream_reports_complete(d, g, fs8, n + 64, o2, hist ? 1 + vr_u64(&r, fs8) : fs8, &prod)) v_viol("fcs:streaming-decode-accepts-wrong-content-size", "%s 8-byte field=%llu actual=%zu chunked=%d", desc, nv, n, hist); }
            if (!P.magicless) { SETUP_D(); ZSTD_decompressBegin(d); size_t ip = 0, op = 0; int complete = 0; long guard = 0;
                while (1) { size_t const need = ZSTD_nextSrcSizeToDecompress(d); if (need == 0) { complete = 1; break; } if (need > fs8 - ip) break; size_t const rr = ZSTD_decompressContinue(d, o2 + op, n + 64 - op, g + ip, need); if (ZSTD_isError(rr)) break; ip += need; op += rr; if (++guard > 1000000) break; }
                if (complete) v_viol("fcs:bufferless-decode-accepts-wrong-content-size", "%s 8-byte field=%llu actual=%zu", desc, nv, n); }
            {   unsigned long long const got = ZSTD_getFrameContentSize(g, fs8); if (!P.magicless && got != nv) v_viol("fcs8:getFrameContentSize-misreads-the-8-byte-field", "%s field=%llu read=%llu", desc, nv, got); }
            v_stat("fcs_forgeries", 1); v_stat("fcs8_forgeries", 1);
        }
        free(o2); free(g);
    }
    /* ---- stored checksum damaged / content damaged */
    if (F.has_checksum) {
        for (int q = 0; q < 6; q++) {
            uint8_t* g = (uint8_t*)malloc(fs); memcpy(g, f, fs);
            g[fs - 4 + vr_u(&r, 4)] ^= (uint8_t)(1u << vr_u(&r, 8)); if (q >= 3) g[fs - 4 + vr_u(&r, 4)] ^= (uint8_t)(1 + vr_u(&r, 255));
            if (!memcmp(g + fs - 4, f + fs - 4, 4)) { free(g); continue; }
            SETUP_D(); size_t const one = ZSTD_decompressDCtx(d, out, n + 32, g, fs);
            if (!ZSTD_isError(one)) v_viol("checksum:one-shot-decode-accepts-damaged-stored-checksum", "%s", desc);
            SETUP_D(); size_t prod = 0; if (stream_reports_complete(d, g, fs, n + 32, out, 1 + vr_u64(&r, fs), &prod)) v_viol("checksum:streaming-decode-accepts-damaged-stored-checksum", "%s", desc);
            v_stat("checksum_damage_cases", 1); free(g);
        }
        for (int q = 0; q < 12; q++) {   /* content damage: success is only acceptable if the produced bytes really have the stored checksum */
            uint8_t* g = (uint8_t*)malloc(fs); memcpy(g, f, fs); size_t const lo = F.header_size, hi = fs - 4; if (hi <= lo) { free(g); break; }
            size_t const o = lo + vr_u64(&r, hi - lo); g[o] ^= (uint8_t)(1u << vr_u(&r, 8)); if (vr_chance(&r, 1, 3)) g[lo + vr_u64(&r, hi - lo)] = (uint8_t)vr_u(&r, 256);
            uint8_t* o2 = (uint8_t*)malloc(n + (256u << 10));
            SETUP_D(); size_t const one = ZSTD_decompressDCtx(d, o2, n + (256u << 10), g, fs);
            if (!ZSTD_isError(one)) { uint32_t const stored = (uint32_t)g[fs - 4] | ((uint32_t)g[fs - 3] << 8) | ((uint32_t)g[fs - 2] << 16) | ((uint32_t)g[fs - 1] << 24);
                if ((uint32_t)v_xxh64(o2, one, 0) != stored) v_viol("checksum:decode-succeeds-with-bytes-that-do-not-match-the-stored-checksum", "%s damage at %zu", desc, o);
                else if (one != n || memcmp(o2, x, n)) v_stat("benign_damage_same_checksum", 1); else v_stat("benign_damage_same_output", 1); }
            v_stat("content_damage_cases", 1); free(o2); free(g);
        }
    }
    v_sample("%s header=%zu blocks=%zu", desc, F.header_size, I.nb_blocks);
    refdec_info_free(&I);
out:
    ZSTD_freeCCtx(c); ZSTD_freeDCtx(d); free(x); free(f); free(out);
}

/* ---------------- pledged source size */
static void run_pcase(long idx)
{
    vrng r = vr_make(V.seed, 209, (uint64_t)idx);
    size_t const n = 1 + pick_size(&r, g_maxSize); int const fam = (int)vr_u(&r, DF_NB);
    uint8_t* x = (uint8_t*)malloc(n + 8); gen_data(&r, x, n, fam);
    unsigned long long pledged; const char* pk;
    switch (vr_u(&r, 6)) { case 0: pledged = n + 1; pk = "n+1"; break; case 1: pledged = n - 1; pk = "n-1"; break; case 2: pledged = 0; pk = "0"; break; case 3: pledged = 2ULL * n; pk = "2n"; break; case 4: pledged = n + 1 + vr_u64(&r, 1u << 20); pk = "n+k"; break; default: pledged = vr_u64(&r, n); pk = "<n"; }
    if (pledged == n) pledged = n + 1;
    size_t const cap = ZSTD_compressBound(n) + 1024; uint8_t* dst = (uint8_t*)malloc(cap);
    int const api = (int)vr_u(&r, 4);       /* 0 compressStream2 + setPledgedSrcSize, 1 initCStream_srcSize, 2 compressBegin_advanced+Continue/End, 3 MT compressStream2 */
    vparams P; vp_random(&r, &P, 0); if (P.windowLog > 21) vp_level_only(&P);
    ZSTD_CCtx* c = ZSTD_createCCtx(); char desc[400]; int completed = 0; size_t err = 0;
    if (api != 2 && ZSTD_isError(vp_apply(c, &P))) { v_stat("params_rejected", 1); goto out; }
    if (api == 3) { ZSTD_CCtx_setParameter(c, ZSTD_c_nbWorkers, 1 + (int)vr_u(&r, 3)); ZSTD_CCtx_setParameter(c, ZSTD_c_jobSize, vr_chance(&r, 1, 2) ? 1 : 0); }
    snprintf(desc, sizeof desc, "api=%d n=%zu pledged=%llu(%s) params=[%s]", api, n, pledged, pk, P.desc);
    if (api == 2) {
        ZSTD_parameters zp = ZSTD_getParams((int)vr_range(&r, 1, 12), pledged, 0); zp.fParams.contentSizeFlag = (int)vr_u(&r, 2); zp.fParams.checksumFlag = (int)vr_u(&r, 2);
        size_t e = ZSTD_compressBegin_advanced(c, NULL, 0, zp, pledged); size_t op = 0, ip = 0;
        while (!ZSTD_isError(e) && n - ip > 200000) { e = ZSTD_compressContinue(c, dst + op, cap - op, x + ip, 100000); if (!ZSTD_isError(e)) { op += e; ip += 100000; } }
        if (!ZSTD_isError(e)) { e = ZSTD_compressEnd(c, dst + op, cap - op, x + ip, n - ip); }
        if (ZSTD_isError(e)) err = e; else completed = 1;
    } else {
        if (api == 1) { size_t e = ZSTD_initCStream_srcSize(c, (int)vr_range(&r, 1, 9), pledged ? pledged : ZSTD_CONTENTSIZE_UNKNOWN); if (ZSTD_isError(e)) err = e; if (pledged == 0) { v_stat("skipped", 1); goto out; } }
        else { size_t e = ZSTD_CCtx_setPledgedSrcSize(c, pledged); if (ZSTD_isError(e)) err = e; }
        if (!err) { hscript S; h_gen_script(&r, n, &S, 0); if (api == 3) for (int i = 0; i < S.nOut; i++) if (S.outPat[i] < 512) S.outPat[i] += 512;
            /* zstd.h, ZSTD_CCtx_setPledgedSrcSize note 3: when all input is provided in a single ZSTD_e_end round the pledge is overwritten by srcSize: out of scope */
            if (S.nseg == 1) { S.seg[0].len = n / 2; S.seg[0].dir = ZSTD_e_continue; S.seg[1].len = n - n / 2; S.seg[1].dir = ZSTD_e_end; S.nseg = 2; }
            size_t const cs = h_run_script(c, x, n, &S, dst, cap, NULL, NULL); if (ZSTD_isError(cs)) err = cs; else completed = 1; }
    }
    v_stat("pledged_cases", 1); v_cell("pledge", "api%d|%s|%s", api, pk, completed ? "COMPLETED" : "error");
    if (completed) v_viol(api == 3 ? "pledged:multithreaded-compression-completes-with-wrong-pledged-size" : "pledged:compression-completes-with-wrong-pledged-size", "%s", desc);
    (void)err;
    v_sample("%s -> %s", desc, completed ? "completed" : ZSTD_getErrorName(err));
out:
    ZSTD_freeCCtx(c); free(x); free(dst);
}

int main(int argc, char** argv)
{
    v_init(argc, argv);
    g_maxSize = (size_t)v_opt_long("maxsize", V.thorough ? (3 << 20) : (700 << 10));
    int const side = (int)v_opt_long("side", 0); vp_trace_on = 0;
    for (long i = V.from; i < V.to; i++) { v_case(i); v_budget(900); if (side == 0) run_dcase(i); else run_pcase(i); }
    return v_finish();
}
