/* sched.h - scheduler shim behind -Wl,--wrap=pthread_* (see sched.c)
 * deterministic mode : serialising user-level scheduler, schedule chosen by a seeded PRNG (uniform or PCT)
 * stress mode (-DSCHED_STRESS, for TSan builds): pass-through with seeded yields/sleeps, adds no synchronisation */
#ifndef SCHED_H
#define SCHED_H
#include <stdint.h>
#include <stddef.h>

#define SCHED_UNIFORM 0
#define SCHED_PCT     1

typedef struct {
    uint64_t steps;            /* scheduling points executed */
    uint64_t hash;             /* hash of the (thread, op, object) sequence = identity of the interleaving */
    unsigned threads;          /* managed threads seen */
    unsigned cond_waits, mutex_blocks, spurious, preemptions;
    unsigned signals_with_several_waiters, broadcasts_with_several_waiters;   /* wake-ups issued while >= 2 threads waited on the condition: where signal and broadcast differ */
    int deadlock;              /* 1 if the run ended with no runnable thread */
    int livelock;              /* 1 if the step bound was exceeded */
    char blocked[256];         /* on deadlock/livelock: sorted labels of the unfinished threads with what they wait for */
} sched_result;

/* begin a controlled run on the calling thread (becomes managed thread 0). mode: SCHED_UNIFORM / SCHED_PCT
 * pct_depth: number of priority change points; expected_len: estimate of the number of steps (PCT); step_limit: livelock bound */
void sched_begin(uint64_t seed, int mode, int pct_depth, uint64_t expected_len, uint64_t step_limit, int spurious_permille);
/* end the run (all other managed threads must have finished). */
void sched_end(sched_result* out);
/* label what the calling thread is doing (API call name) - used in deadlock reports and violation keys */
void sched_set_op(const char* label);
/* name an object (mutex / cond address) for reports */
void sched_label(const void* obj, const char* name);
/* on deadlock / livelock the shim calls this (never returns normally: the process cannot continue) */
extern void (*sched_on_stuck)(const sched_result* r);
int sched_active(void);
/* fault injection: the k-th pthread_create from now on (1-based) returns EAGAIN (thread limit reached); 0 switches it off */
void sched_fail_create_at(int k);
/* logical clock: increases at every scheduling point (total order of events under the serialising scheduler) */
uint64_t sched_clock(void);
#endif
