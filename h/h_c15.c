/* h_c15.c - C15: correctness does not wear out: long histories through one context, index overflow correction, streams > 4 GiB.
 * mode=hist  : (ovf build: ZSTD_WINDOW_OVERFLOW_CORRECT_FREQUENTLY) histories of many frames through ONE CCtx/DCtx with random parameters per
 *              frame; each frame must round-trip (library + R) and equal the fresh-context output of the same build
 * mode=real  : (plain build) genuine 32-bit index overflow: one context fed > 3.6 GiB of frames without parameter change, then every strategy
 * mode=long  : (plain build) one streaming frame > 4 GiB generated, compressed, decoded and compared on the fly (constant memory) */
#include "vhist.h"
#include "refdec.h"

static size_t g_maxSize;

static size_t compress_with(ZSTD_CCtx* c, const vparams* P, const hscript* S, int oneShot, const uint8_t* dict, size_t dl, int dictMode, const uint8_t* x, size_t n, uint8_t* dst, size_t cap)
{
    size_t e = ZSTD_CCtx_reset(c, ZSTD_reset_session_and_parameters); if (ZSTD_isError(e)) return e;
    e = vp_apply(c, P); if (ZSTD_isError(e)) return e;
    if (dictMode == 1) e = ZSTD_CCtx_loadDictionary_advanced(c, dict, dl, ZSTD_dlm_byRef, ZSTD_dct_rawContent); else if (dictMode == 2) e = ZSTD_CCtx_refPrefix_advanced(c, dict, dl, ZSTD_dct_rawContent);
    if (ZSTD_isError(e)) return e;
    return oneShot ? ZSTD_compress2(c, dst, cap, x, n) : h_run_script(c, x, n, S, dst, cap, NULL, NULL);
}

static void run_history(long idx)
{
    vrng r = vr_make(V.seed, 115, (uint64_t)idx);
    int const nframes = 8 + (int)vr_u(&r, V.thorough ? 60 : 24);
    ZSTD_CCtx* c = ZSTD_createCCtx(); ZSTD_DCtx* d = ZSTD_createDCtx();
    uint8_t* x = (uint8_t*)malloc(g_maxSize + 64); size_t const cap = ZSTD_compressBound(g_maxSize) + 1024; uint8_t* a = (uint8_t*)malloc(cap); uint8_t* b = (uint8_t*)malloc(cap); uint8_t* out = (uint8_t*)malloc(g_maxSize + 64); uint8_t* dict = (uint8_t*)malloc(70000);
    size_t cumulative = 0; long windowWraps = 0;
    int const sticky = (int)vr_u(&r, 3) == 0 || (idx % 6) == 2;          /* same parameters for the whole history: indices continue across frames */
    vparams P0; vp_random(&r, &P0, VP_SMALLWIN | VP_MT); if (P0.windowLog > 20) vp_level_only(&P0);
    /* stratum "short index cycle" (1 history in 6): binary-tree strategies with the smallest chain tables (the overflow correction keeps the index modulo 2^(chainLog-1)), sticky
     * parameters so that indices continue across frames of arbitrary sizes, low-entropy data: corrections fire at every residue of the cycle, 0 and 1 included */
    int const shortCycle = (idx % 6) == 2; size_t scyc = 32;
    if (shortCycle) { vp_level_only(&P0); P0.n = 0; P0.nbWorkers = 0; P0.level = 3; vp_add(&P0, ZSTD_c_compressionLevel, 3); vp_add(&P0, ZSTD_c_strategy, (int)vr_range(&r, 6, 9)); { int const cl = (int)vr_range(&r, 6, 8); scyc = (size_t)1 << (cl - 1); vp_add(&P0, ZSTD_c_chainLog, cl); } vp_add(&P0, ZSTD_c_hashLog, (int)vr_range(&r, 6, 12));
        P0.windowLog = (int)vr_range(&r, 10, 16); vp_add(&P0, ZSTD_c_windowLog, P0.windowLog); vp_add(&P0, ZSTD_c_searchLog, (int)vr_range(&r, 1, 4)); vp_add(&P0, ZSTD_c_minMatch, (int)vr_range(&r, 3, 5)); vp_add(&P0, ZSTD_c_checksumFlag, 1); vp_redesc(&P0); v_stat("short_index_cycle_histories", 1); }
    for (int f = 0; f < nframes; f++) {
        vparams P; if (sticky) P = P0; else { vp_random(&r, &P, (vr_chance(&r, 1, 2) ? VP_SMALLWIN : 0) | VP_MT | VP_MAGICLESS); if (P.windowLog > 20) vp_level_only(&P); }
        if (P.nbWorkers && !vr_chance(&r, 1, 4)) { for (int i = 0; i < P.n; i++) if (P.p[i] == ZSTD_c_nbWorkers) P.v[i] = 0; P.nbWorkers = 0; }
        int fam = (int)vr_u(&r, DF_NB); size_t n = pick_size(&r, g_maxSize); if (shortCycle) { static const int lowEnt[] = { DF_SMALLALPHA, DF_SMALLALPHA, DF_SMALLALPHA, DF_SMALLALPHA, DF_RUNS, DF_LZ }; fam = lowEnt[vr_u(&r, 6)]; n = 1 + vr_u64(&r, vr_chance(&r, 1, 2) ? 70000 : g_maxSize);
            /* half of the frames end where the NEXT frame starts at index 0 or 1 modulo the cycle (indices start at 2 and continue across frames) */
            if (vr_chance(&r, 1, 2) && n + scyc < g_maxSize) { size_t const want = (2 * scyc - 2 + vr_u(&r, 2) - (cumulative + n) % scyc) % scyc; n += want; } } if (!shortCycle && P.windowLog && vr_chance(&r, 1, 2)) { size_t const w = (size_t)1 << P.windowLog; size_t const want = w * (2 + vr_u(&r, 6)); n = want < g_maxSize ? want : g_maxSize; }
        if (P.nbWorkers && n < 600000) n = V_MIN(g_maxSize, (size_t)700000);
        int const litRing = !sticky && vr_chance(&r, 1, 8);      /* "literal-heavy ring" frame: window 128-256 KiB, several windows of match-free skewed bytes (blocks with > 64 KiB of Huffman literals), cut by
                                                                 * flushes at odd places: the decoder's ring buffer wraps with large literal sections in flight */
        if (litRing) { vp_level_only(&P); P.windowLog = (int)vr_range(&r, 17, 18); vp_add(&P, ZSTD_c_windowLog, P.windowLog); vp_redesc(&P); n = V_MIN(g_maxSize, ((size_t)1 << P.windowLog) * (3 + vr_u(&r, 4)) + vr_u(&r, 70000)); }
        gen_data(&r, x, n, litRing ? (vr_chance(&r, 1, 2) ? DF_SKEWED : DF_SMALLALPHA) : vr_chance(&r, 1, 3) ? DF_LONGREP : fam);
        int const dictMode = (!shortCycle && vr_chance(&r, 1, 4)) ? 1 + (int)vr_u(&r, 2) : 0; size_t const dl = dictMode ? 1 + vr_u(&r, 60000) : 0; if (dl) { gen_data(&r, dict, dl, fam); if (n > 64) memcpy(dict + dl - V_MIN(dl, n / 4), x, V_MIN(dl, n / 4)); if (dl >= 4 && dict[0] == 0x37 && dict[1] == 0xA4 && dict[2] == 0x30 && dict[3] == 0xEC) dict[0] ^= 1; }
        hscript S; h_gen_script(&r, n, &S, 0); int const oneShot = litRing ? 0 : (int)vr_u(&r, 3) == 0;
        if (litRing) { size_t pos = 0; S.nseg = 0; while (pos < n && S.nseg < 200) { size_t l = 30000 + vr_u(&r, 200000); if (l > n - pos) l = n - pos; pos += l; S.seg[S.nseg].len = l; S.seg[S.nseg].dir = pos == n ? ZSTD_e_end : ZSTD_e_flush; S.nseg++; } S.nOut = 1; S.outPat[0] = (size_t)1 << 22; S.api = 0; snprintf(S.desc, sizeof S.desc, "literal-ring nseg=%d flush-every-30..230K", S.nseg); v_stat("literal_heavy_ring_frames", 1); }
        char desc[600]; snprintf(desc, sizeof desc, "history %ld frame %d/%d (cumulative %zu MiB) n=%zu fam=%s params=[%s] %s dict=%d/%zu sticky=%d", idx, f, nframes, cumulative >> 20, n, v_df_name[fam], P.desc, oneShot ? "compress2" : S.desc, dictMode, dl, sticky);
        size_t const ca = compress_with(c, &P, &S, oneShot, dict, dl, dictMode, x, n, a, cap);
        if (ZSTD_isError(ca)) { ZSTD_ErrorCode const ec = ZSTD_getErrorCode(ca); if (ec == ZSTD_error_memory_allocation || ec == ZSTD_error_parameter_outOfBound || ec == ZSTD_error_parameter_unsupported || ec == ZSTD_error_parameter_combination_unsupported) { v_stat("frames_skipped", 1); continue; } v_viol("wear:compression-fails-on-a-used-context", "%s: %s", desc, ZSTD_getErrorName(ca)); continue; }
        /* round trip through the long-lived decoder context (windows wrap in its ring as well) */
        {   ZSTD_DCtx_reset(d, ZSTD_reset_session_and_parameters); ZSTD_DCtx_setParameter(d, ZSTD_d_windowLogMax, 30); if (P.magicless) ZSTD_DCtx_setParameter(d, ZSTD_d_format, ZSTD_f_zstd1_magicless); if (dictMode) ZSTD_DCtx_loadDictionary_advanced(d, dict, dl, ZSTD_dlm_byRef, ZSTD_dct_rawContent);
            size_t ds; if (vr_chance(&r, 1, 2)) ds = ZSTD_decompressDCtx(d, out, n, a, ca); else { ZSTD_inBuffer in = { a, 0, 0 }; ZSTD_outBuffer ob = { out, 0, 0 }; size_t rr = 1; size_t const ic = 1 + vr_u64(&r, ca), oc = 1 + vr_u64(&r, n + 1); long guard = 0; while (1) { if (in.pos == in.size) in.size = V_MIN(ca, in.size + ic + 64); ob.size = V_MIN(n, ob.pos + oc + 64); rr = ZSTD_decompressStream(d, &ob, &in); if (ZSTD_isError(rr) || (rr == 0 && in.pos == ca) || ++guard > 10000000) break; } ds = ZSTD_isError(rr) ? rr : ob.pos; }
            if (ZSTD_isError(ds) || ds != n || memcmp(out, x, n)) v_viol("wear:frame-from-a-used-context-does-not-round-trip", "%s: %s", desc, ZSTD_isError(ds) ? ZSTD_getErrorName(ds) : "mismatch"); }
        if ((f & 3) == 0) { refdec_info_t I; memset(&I, 0, sizeof I); I.magicless = P.magicless; refdec_dict_t* rd = dictMode ? refdec_dict_create(dict, dl, 1) : NULL; if (!refdec_decode(out, n, a, ca, rd, &I, 0) || I.out_size != n || memcmp(out, x, n)) v_viol("wear:frame-from-a-used-context-rejected-or-wrong-per-R", "%s: %s", desc, I.err ? I.err : "mismatch"); else if (I.frames[0].window_size && n > I.frames[0].window_size) windowWraps += (long)(n / I.frames[0].window_size); refdec_info_free(&I); refdec_dict_free(rd); v_stat("frames_checked_by_R", 1); }
        /* a reused context behaves as a fresh one (MT jobs are cut the same way: same script) */
        {   ZSTD_CCtx* fc = ZSTD_createCCtx(); size_t const cb = compress_with(fc, &P, &S, oneShot, dict, dl, dictMode, x, n, b, cap); ZSTD_freeCCtx(fc);
            if (ZSTD_isError(cb)) v_viol("wear:fresh-context-fails-where-used-context-succeeds", "%s: %s", desc, ZSTD_getErrorName(cb));
            else if (ca != cb || memcmp(a, b, ca)) v_viol("wear:used-context-output-differs-from-fresh-context", "%s: used %zu bytes, fresh %zu bytes", desc, ca, cb); }
        cumulative += n; v_stat("frames", 1); v_stat("bytes", (long)n);
    }
    v_stat("histories", 1); v_stat("window_wraps", windowWraps); v_cell("history", "%ld", idx); v_cell("history_shape", "sticky%d|frames%s", sticky, nframes > 30 ? ">30" : nframes > 15 ? "16..30" : "<=15");
    v_statmax("max_cumulative_MiB_through_one_context", (long)(cumulative >> 20));
    v_sample("history %ld: %d frames, %zu MiB through one context, sticky=%d", idx, nframes, cumulative >> 20, sticky);
    ZSTD_freeCCtx(c); ZSTD_freeDCtx(d); free(x); free(a); free(b); free(out); free(dict);
}

/* ---- "table-size seesaw": big match tables with a long history -> a small frame with a dictionary whose tables are COPIED into the context (known source size between the
 * attach cut-off and 128 KiB) and whose index space restarts at the dictionary's -> big tables again, indices continuing from the small frame: whatever the first frame left in
 * the upper part of the table area must not be visible to the third. The third frame re-uses the first frame's data at the offset where its indices coincide. */
static void run_seesaw(long idx)
{
    vrng r = vr_make(V.seed, 415, (uint64_t)idx);
    size_t const n0 = (size_t)(1u << 20) + vr_u64(&r, 3u << 20); uint8_t* X = (uint8_t*)malloc(n0 + 64); int const fam = vr_chance(&r, 1, 2) ? DF_TEXT : (int)vr_u(&r, DF_NB); gen_data(&r, X, n0, fam);
    size_t const dl = 1000 + vr_u(&r, 30000); size_t const n1 = (33u << 10) + vr_u(&r, 90000); uint8_t* dict = (uint8_t*)malloc(dl); uint8_t* x1 = (uint8_t*)malloc(n1); gen_data(&r, dict, dl, DF_TEXT); gen_data(&r, x1, n1, DF_TEXT); if (dict[0] == 0x37 && dict[1] == 0xA4) dict[0] ^= 1;
    int const bigLevel = (int)vr_range(&r, 1, 9), bigHash = (int)vr_range(&r, 17, 20), smallHash = (int)vr_range(&r, 8, 13), wl = (int)vr_range(&r, 20, 23);
    size_t const off2 = V_MIN(n0 - 200000, dl + n1 + (vr_chance(&r, 1, 4) ? vr_u(&r, 64) : 0)); size_t const n2 = V_MIN(n0 - off2, (size_t)(200000 + vr_u(&r, 900000)));
    size_t const cap = ZSTD_compressBound(n0) + 64; uint8_t* a = (uint8_t*)malloc(cap); uint8_t* b = (uint8_t*)malloc(cap); uint8_t* out = (uint8_t*)malloc(n0 + 64);
    ZSTD_CCtx* c = ZSTD_createCCtx(); ZSTD_DCtx* d = ZSTD_createDCtx();
    char desc[300]; snprintf(desc, sizeof desc, "seesaw %ld: F0 n=%zu level=%d hashLog=%d wlog=%d | F1 n=%zu dict=%zu hashLog=%d | F2 = F0 data at %zu, n=%zu fam=%s", idx, n0, bigLevel, bigHash, wl, n1, dl, smallHash, off2, n2, v_df_name[fam]);
    for (int f = 0; f < 3; f++) {
        const uint8_t* src = f == 0 ? X : f == 1 ? x1 : X + off2; size_t const n = f == 0 ? n0 : f == 1 ? n1 : n2;
        size_t cs[2];
        for (int who = 0; who < 2; who++) { ZSTD_CCtx* cc = who == 0 ? c : ZSTD_createCCtx(); ZSTD_CCtx_reset(cc, ZSTD_reset_session_and_parameters);
            ZSTD_CCtx_setParameter(cc, ZSTD_c_compressionLevel, f == 1 ? 1 : bigLevel); ZSTD_CCtx_setParameter(cc, ZSTD_c_hashLog, f == 1 ? smallHash : bigHash); ZSTD_CCtx_setParameter(cc, ZSTD_c_chainLog, f == 1 ? smallHash : bigHash); ZSTD_CCtx_setParameter(cc, ZSTD_c_windowLog, f == 1 ? 17 : wl); ZSTD_CCtx_setParameter(cc, ZSTD_c_checksumFlag, 1);
            if (f == 1) ZSTD_CCtx_loadDictionary(cc, dict, dl);
            cs[who] = ZSTD_compress2(cc, who == 0 ? a : b, cap, src, n); if (who) ZSTD_freeCCtx(cc); }
        if (ZSTD_isError(cs[0])) { v_viol("wear:compression-fails-on-a-used-context", "%s frame %d: %s", desc, f, ZSTD_getErrorName(cs[0])); break; }
        {   size_t const ds = f == 1 ? ZSTD_decompress_usingDict(d, out, n, a, cs[0], dict, dl) : ZSTD_decompressDCtx(d, out, n, a, cs[0]);
            if (ZSTD_isError(ds) || ds != n || memcmp(out, src, n)) v_viol("wear:frame-from-a-used-context-does-not-round-trip", "%s frame %d: %s", desc, f, ZSTD_isError(ds) ? ZSTD_getErrorName(ds) : "mismatch"); }
        if (!ZSTD_isError(cs[1]) && (cs[0] != cs[1] || memcmp(a, b, cs[0]))) v_viol("wear:used-context-output-differs-from-fresh-context", "%s frame %d: used %zu bytes, fresh %zu bytes", desc, f, cs[0], cs[1]);
        v_stat("frames", 1); v_stat("bytes", (long)n);
    }
    v_stat("seesaw_histories", 1); v_sample("%s", desc);
    ZSTD_freeCCtx(c); ZSTD_freeDCtx(d); free(X); free(dict); free(x1); free(a); free(b); free(out);
}

/* ---- genuine index overflow: many frames through one context, no parameter change => indices continue */
static void run_real(long idx)
{
    vrng r = vr_make(V.seed, 215, (uint64_t)idx);
    size_t const fsz = (size_t)(2u << 20) << vr_u(&r, 3);      /* 2, 4 or 8 MiB frames (< 16 MiB: the context restarts its indices instead of correcting in-frame) */
    int const level = (int)vr_range(&r, 1, 3); int const strat = idx % 3 == 0 ? 0 : (int)vr_range(&r, 1, 4);
    uint64_t const target = (uint64_t)v_opt_long("gib10", 37) * (1ULL << 30) / 10;       /* 3.7 GiB by default */
    uint8_t* x = (uint8_t*)malloc(fsz); gen_data(&r, x, fsz, DF_TEXT); for (size_t i = 0; i < fsz; i += 4099) x[i] = (uint8_t)vr_u(&r, 256);
    size_t const cap = ZSTD_compressBound(fsz); uint8_t* refc = (uint8_t*)malloc(cap); uint8_t* a = (uint8_t*)malloc(cap); uint8_t* out = (uint8_t*)malloc(fsz);
    ZSTD_CCtx* c = ZSTD_createCCtx(); ZSTD_CCtx* fresh = ZSTD_createCCtx(); ZSTD_DCtx* d = ZSTD_createDCtx();
    #define SETP(ctx) do { ZSTD_CCtx_setParameter(ctx, ZSTD_c_compressionLevel, level); if (strat) ZSTD_CCtx_setParameter(ctx, ZSTD_c_strategy, strat); ZSTD_CCtx_setParameter(ctx, ZSTD_c_checksumFlag, 1); } while (0)
    SETP(c); SETP(fresh);
    size_t const nref = ZSTD_compress2(fresh, refc, cap, x, fsz); char desc[200]; snprintf(desc, sizeof desc, "frame=%zu MiB level=%d strategy=%d", fsz >> 20, level, strat);
    if (ZSTD_isError(nref)) { v_viol("real:reference-compression-fails", "%s", desc); return; }
    uint64_t cum = 0; long frames = 0;
    while (cum < target) {
        v_budget(600);
        size_t const ca = ZSTD_compress2(c, a, cap, x, fsz);      /* parameters untouched: the context keeps its tables and continues its indices */
        if (ZSTD_isError(ca)) { v_viol("real:compression-fails-after-many-bytes", "%s after %llu MiB: %s", desc, (unsigned long long)(cum >> 20), ZSTD_getErrorName(ca)); break; }
        if (ca != nref || memcmp(a, refc, ca)) { v_viol("real:used-context-output-differs-from-fresh-context", "%s after %llu MiB (frame #%ld): %zu vs %zu bytes", desc, (unsigned long long)(cum >> 20), frames, ca, nref);
            size_t const ds = ZSTD_decompressDCtx(d, out, fsz, a, ca); if (ZSTD_isError(ds) || ds != fsz || memcmp(out, x, fsz)) v_viol("real:frame-does-not-round-trip-after-many-bytes", "%s after %llu MiB", desc, (unsigned long long)(cum >> 20)); break; }
        if ((frames & 63) == 0) { size_t const ds = ZSTD_decompressDCtx(d, out, fsz, a, ca); if (ZSTD_isError(ds) || ds != fsz || memcmp(out, x, fsz)) { v_viol("real:frame-does-not-round-trip-after-many-bytes", "%s after %llu MiB", desc, (unsigned long long)(cum >> 20)); break; } }
        cum += fsz; frames++;
    }
    v_stat("real_frames", frames); v_statmax("real_max_MiB_through_one_context", (long)(cum >> 20)); if (cum >= (3500ULL << 20)) v_stat("contexts_fed_beyond_3500MiB_without_parameter_change", 1);
    /* then a frame at each strategy on the worn context */
    for (int s = 1; s <= 9; s++) { size_t const m = V_MIN(fsz, (size_t)(1u << 20)); ZSTD_CCtx_setParameter(c, ZSTD_c_strategy, s); ZSTD_CCtx_setParameter(fresh, ZSTD_c_strategy, s); size_t const ca = ZSTD_compress2(c, a, cap, x, m), cb = ZSTD_compress2(fresh, refc, cap, x, m);
        if (ZSTD_isError(ca) || ZSTD_isError(cb) || ca != cb || memcmp(a, refc, ca)) v_viol("real:worn-context-differs-from-fresh-at-another-strategy", "%s strategy %d after %llu MiB", desc, s, (unsigned long long)(cum >> 20)); v_stat("real_strategy_frames", 1); }
    v_cell("real", "fsz%zu|l%d|s%d", fsz >> 20, level, strat);
    v_sample("real overflow run: %s, %ld frames, %llu MiB through one context", desc, frames, (unsigned long long)(cum >> 20));
    ZSTD_freeCCtx(c); ZSTD_freeCCtx(fresh); ZSTD_freeDCtx(d); free(x); free(refc); free(a); free(out);
}

/* ---- one streaming frame > 4 GiB, produced / compressed / decoded / compared on the fly */
static void gen_block(uint8_t* p, size_t n, uint64_t blockNo, const uint8_t* tmpl) { memcpy(p, tmpl, n); for (size_t i = 0; i + 8 <= n; i += 65536) { uint64_t v = vr_mix(blockNo * 131 + i); memcpy(p + i, &v, 8); } }
static void run_long(long idx)
{
    vrng r = vr_make(V.seed, 315, (uint64_t)idx);
    uint64_t const total = (uint64_t)v_opt_long("gib10", 43) * (1ULL << 30) / 10;         /* 4.3 GiB by default */
    int const level = (int)vr_range(&r, 1, 3); int const wlog = (int)vr_range(&r, 17, 23); size_t const B = 1u << 20;
    uint8_t* tmpl = (uint8_t*)malloc(B); gen_data(&r, tmpl, B, vr_chance(&r, 1, 2) ? DF_TEXT : DF_RUNS);
    uint8_t* in = (uint8_t*)malloc(B); uint8_t* exp = (uint8_t*)malloc(B); size_t const ccap = ZSTD_compressBound(B) + 1024; uint8_t* cbuf = (uint8_t*)malloc(ccap); uint8_t* dbuf = (uint8_t*)malloc(4 * B);
    ZSTD_CCtx* c = ZSTD_createCCtx(); ZSTD_DCtx* d = ZSTD_createDCtx(); ZSTD_DCtx_setParameter(d, ZSTD_d_windowLogMax, 30);
    ZSTD_CCtx_setParameter(c, ZSTD_c_compressionLevel, level); ZSTD_CCtx_setParameter(c, ZSTD_c_windowLog, wlog); ZSTD_CCtx_setParameter(c, ZSTD_c_checksumFlag, 1); if (vr_chance(&r, 1, 3)) ZSTD_CCtx_setParameter(c, ZSTD_c_enableLongDistanceMatching, 1);
    uint64_t produced = 0, decoded = 0, compressed = 0; uint64_t decBlock = 0; size_t decOff = 0; int bad = 0; size_t dret = 1;
    char desc[160]; snprintf(desc, sizeof desc, "single frame of %llu MiB level=%d windowLog=%d", (unsigned long long)(total >> 20), level, wlog);
    gen_block(exp, B, 0, tmpl);
    for (uint64_t blk = 0; produced < total && !bad; blk++) {
        v_budget(600);
        size_t const n = (size_t)V_MIN((uint64_t)B, total - produced); gen_block(in, B, blk, tmpl);
        ZSTD_inBuffer ib = { in, n, 0 }; int const last = produced + n >= total;
        for (;;) {
            ZSTD_outBuffer ob = { cbuf, ccap, 0 };
            size_t const rr = ZSTD_compressStream2(c, &ob, &ib, last ? ZSTD_e_end : ZSTD_e_continue);
            if (ZSTD_isError(rr)) { v_viol("long:compression-fails-in-a-long-stream", "%s at %llu MiB: %s", desc, (unsigned long long)(produced >> 20), ZSTD_getErrorName(rr)); bad = 1; break; }
            compressed += ob.pos;
            /* decode what was produced, compare with the regenerated expectation */
            ZSTD_inBuffer di = { cbuf, ob.pos, 0 };
            while (di.pos < di.size && !bad) {
                ZSTD_outBuffer dob = { dbuf, 4 * B, 0 }; dret = ZSTD_decompressStream(d, &dob, &di);
                if (ZSTD_isError(dret)) { v_viol("long:decoder-fails-in-a-long-stream", "%s at decoded %llu MiB: %s", desc, (unsigned long long)(decoded >> 20), ZSTD_getErrorName(dret)); bad = 1; break; }
                size_t p = 0; while (p < dob.pos) { size_t const take = V_MIN(dob.pos - p, B - decOff); if (memcmp(dbuf + p, exp + decOff, take)) { v_viol("long:decoded-bytes-differ-in-a-long-stream", "%s near %llu MiB", desc, (unsigned long long)(decoded >> 20)); bad = 1; break; } p += take; decOff += take; decoded += take; if (decOff == B) { decOff = 0; decBlock++; gen_block(exp, B, decBlock, tmpl); } }
            }
            if (bad) break;
            if (last ? rr == 0 : ib.pos == ib.size) break;
        }
        produced += n;
    }
    if (!bad) { if (decoded != total) v_viol("long:decoded-size-differs", "%s decoded=%llu", desc, (unsigned long long)decoded); else if (dret != 0) v_viol("long:decoder-does-not-report-frame-end", "%s", desc); }
    v_stat("long_streams", 1); v_statmax("long_stream_MiB", (long)(decoded >> 20)); if (decoded > (4096ULL << 20)) v_stat("single_frames_beyond_4GiB", 1);
    v_cell("long", "l%d|w%d", level, wlog);
    v_sample("%s: %llu MiB in, %llu MiB compressed, decoded and compared on the fly", desc, (unsigned long long)(produced >> 20), (unsigned long long)(compressed >> 20));
    ZSTD_freeCCtx(c); ZSTD_freeDCtx(d); free(tmpl); free(in); free(exp); free(cbuf); free(dbuf);
}

int main(int argc, char** argv)
{
    v_init(argc, argv); vp_trace_on = 0;
    g_maxSize = (size_t)v_opt_long("maxsize", V.thorough ? (2 << 20) : (1 << 20));
    const char* mode = v_opt("mode", "hist");
    for (long i = V.from; i < V.to; i++) { v_case(i); v_budget(1800); if (!strcmp(mode, "real")) run_real(i); else if (!strcmp(mode, "long")) run_long(i); else if (!strcmp(mode, "seesaw")) run_seesaw(i); else run_history(i); }
    return v_finish();
}
