/* h_c12.c - C12: thread pool: each accepted job runs exactly once; join, resize, free are safe.
 * Client programs from a small grammar, each run under many seeded schedules of the serialising scheduler (sched.c),
 * or (stress build, TSan/ASan) under real threads with seeded delays.
 * case index i: program = i / nsched, schedule seed = i. */
#include "vcommon.h"
#include "vsched.h"
#include "pool.h"
#include <pthread.h>

enum { OP_ADD, OP_TRYADD, OP_JOIN, OP_RESIZE, OP_ADD_NESTED, OP_NB };
typedef struct { int op; int arg; } pop;
#define MAXOPS 6
#define MAXPOSTERS 3
#define MAXJOBS 64
typedef struct { int nthreads, queue, nposters; int nops[MAXPOSTERS]; pop ops[MAXPOSTERS][MAXOPS]; int finalJoin; char desc[256]; } program;

static void gen_program(vrng* r, program* P)
{
    memset(P, 0, sizeof *P);
    P->nthreads = 1 + (int)vr_u(r, 3); P->queue = (int)vr_u(r, 3); P->nposters = 1 + (int)vr_u(r, MAXPOSTERS); P->finalJoin = (int)vr_u(r, 2);
    int o = snprintf(P->desc, sizeof P->desc, "threads=%d queue=%d posters=%d:", P->nthreads, P->queue, P->nposters);
    for (int p = 0; p < P->nposters; p++) {
        P->nops[p] = 1 + (int)vr_u(r, MAXOPS);
        o += snprintf(P->desc + o, sizeof P->desc - (size_t)o, " [");
        for (int k = 0; k < P->nops[p]; k++) {
            int op; switch (vr_u(r, 10)) { case 0: case 1: case 2: case 3: op = OP_ADD; break; case 4: case 5: op = OP_TRYADD; break; case 6: case 7: op = OP_JOIN; break; case 8: op = OP_RESIZE; break; default: op = OP_ADD_NESTED; }
            P->ops[p][k].op = op; P->ops[p][k].arg = 1 + (int)vr_u(r, 3);
            static const char* const nm[] = { "add", "tryAdd", "join", "resize", "addNested" };
            if (op == OP_ADD_NESTED) P->finalJoin = 1;   /* jobs that post must be complete before POOL_free (posting into a pool being destroyed is a client error) */
            o += snprintf(P->desc + o, sizeof P->desc - (size_t)o, "%s%s%s", k ? "," : "", nm[op], op == OP_RESIZE ? (P->ops[p][k].arg == 1 ? "1" : P->ops[p][k].arg == 2 ? "2" : "3") : "");
        }
        o += snprintf(P->desc + o, sizeof P->desc - (size_t)o, "]");
    }
}

/* ---- history: unique job ids make it unambiguous */
static POOL_ctx* g_pool;
static long g_clock;                                  /* logical stamp counter (atomic) */
static long stamp(void) { return __atomic_add_fetch(&g_clock, 1, __ATOMIC_SEQ_CST); }
typedef struct { int accepted; int refused; long acceptStamp; int exec; long finishStamp; int child; int parentOf; int nested; } jobrec;
static jobrec J[MAXJOBS]; static int g_njobs;
static int new_job(void) { int const j = __atomic_fetch_add(&g_njobs, 1, __ATOMIC_SEQ_CST); if (j >= MAXJOBS) { fprintf(stderr, "too many jobs\n"); exit(2); } return j; }

static void job_fn(void* arg)
{
    int const j = (int)(intptr_t)arg;
    __atomic_add_fetch(&J[j].exec, 1, __ATOMIC_SEQ_CST);
    if (J[j].nested) {   /* a job that posts work itself (non-blocking: a blocking post from inside a job is a client error) */
        int const c = new_job(); J[c].child = 1;
        if (POOL_tryAdd(g_pool, job_fn, (void*)(intptr_t)c)) { J[c].acceptStamp = stamp(); __atomic_store_n(&J[c].accepted, 1, __ATOMIC_SEQ_CST); }
        else __atomic_store_n(&J[c].refused, 1, __ATOMIC_SEQ_CST);
    }
    __atomic_store_n(&J[j].finishStamp, stamp(), __ATOMIC_SEQ_CST);
}

static const program* g_prog; static long g_joinViol;
static void run_ops(int p)
{
    const program* P = g_prog;
    for (int k = 0; k < P->nops[p]; k++) {
        pop const o = P->ops[p][k];
        switch (o.op) {
        case OP_ADD: case OP_ADD_NESTED: { int const j = new_job(); J[j].nested = (o.op == OP_ADD_NESTED); sched_set_op("POOL_add"); POOL_add(g_pool, job_fn, (void*)(intptr_t)j); J[j].acceptStamp = stamp(); __atomic_store_n(&J[j].accepted, 1, __ATOMIC_SEQ_CST); break; }
        case OP_TRYADD: { int const j = new_job(); sched_set_op("POOL_tryAdd"); if (POOL_tryAdd(g_pool, job_fn, (void*)(intptr_t)j)) { J[j].acceptStamp = stamp(); __atomic_store_n(&J[j].accepted, 1, __ATOMIC_SEQ_CST); } else __atomic_store_n(&J[j].refused, 1, __ATOMIC_SEQ_CST); break; }
        case OP_JOIN: {
            long const c0 = stamp(); sched_set_op("POOL_joinJobs");
            POOL_joinJobs(g_pool);
            /* postcondition: every job whose acceptance was complete before the call has finished */
            int const n = __atomic_load_n(&g_njobs, __ATOMIC_SEQ_CST);
            for (int j = 0; j < n && j < MAXJOBS; j++) if (__atomic_load_n(&J[j].accepted, __ATOMIC_SEQ_CST) && J[j].acceptStamp < c0 && !__atomic_load_n(&J[j].finishStamp, __ATOMIC_SEQ_CST)) __atomic_add_fetch(&g_joinViol, 1, __ATOMIC_SEQ_CST);
            break; }
        case OP_RESIZE: sched_set_op("POOL_resize"); POOL_resize(g_pool, (size_t)o.arg); break;
        default: break; }
        sched_set_op("client");
    }
}
static void* poster_thread(void* a) { sched_set_op("client"); run_ops((int)(intptr_t)a); return NULL; }

static const char* g_curdesc = "";
static void on_stuck(const sched_result* r)
{
    char key[400];
    if (!r->deadlock && !r->livelock) { snprintf(key, sizeof key, "POOL_free-returned-with-%s", r->blocked); v_viol(key, "worker threads still alive after the pool was destroyed (POOL_free, or the failure path of POOL_create); program: %s", g_curdesc); v_dump(); return; }
    snprintf(key, sizeof key, "%s:%s", r->deadlock ? "deadlock" : "livelock", r->blocked);
    v_viol(key, "no runnable thread while some are unfinished (legal POSIX schedule, replayable from the seed); steps=%llu program: %s", (unsigned long long)r->steps, g_curdesc);
    v_dump();
}

static uint64_t g_seen[1 << 14]; static long g_distinct;
static void note_schedule(uint64_t h) { size_t i = (size_t)(h % (1 << 14)); for (int k = 0; k < 32; k++) { size_t s = (i + (size_t)k) % (1 << 14); if (g_seen[s] == h) return; if (!g_seen[s]) { g_seen[s] = h; g_distinct++; return; } } g_distinct++; }

static void run_case(long idx, long nsched)
{
    long const progId = idx / nsched;
    vrng pr = vr_make(V.seed, 112, (uint64_t)progId);
    program P; gen_program(&pr, &P); g_prog = &P; g_curdesc = P.desc;
    memset(J, 0, sizeof J); g_njobs = 0; g_clock = 0; g_joinViol = 0;
    vrng sr = vr_make(V.seed, 212, (uint64_t)idx);
    int const mode = vr_chance(&sr, 1, 3) ? SCHED_PCT : SCHED_UNIFORM; int const depth = (int)vr_u(&sr, 4);
    sched_begin(vr_next(&sr), mode, depth, 150, 200000, (int)vr_u(&sr, 2) * 20);
    sched_set_op("POOL_create");
    /* one program in five: the system refuses the k-th worker thread (EAGAIN, as under a thread limit). POOL_create must then fail, and every worker it had
     * already started must have been terminated and joined by the time it returns (sched_end sees threads that are still alive). k = nthreads + 1: no fault. */
    int const failAt = (progId % 5 == 4) ? 1 + (int)vr_u(&pr, (uint32_t)P.nthreads + 1) : 0;
    if (failAt) sched_fail_create_at(failAt);
    g_pool = POOL_create((size_t)P.nthreads, (size_t)P.queue);
    sched_fail_create_at(0);
    if (failAt && failAt <= P.nthreads) {
        v_stat("create_faults", 1);
        if (g_pool) { v_viol("POOL_create-succeeded-although-a-worker-thread-could-not-be-started", "threads=%d failed creation #%d", P.nthreads, failAt); POOL_free(g_pool); g_pool = NULL; }
        g_curdesc = "POOL_create with a refused worker thread";
        sched_set_op("POOL_create(failed)"); sched_result R0; sched_end(&R0);      /* exits through on_stuck when a started worker survives */
        v_stat("schedules", 1); note_schedule(R0.hash ^ vr_mix((uint64_t)progId) ^ 0x5151); v_cell("create_fault", "threads=%d fail=%d", P.nthreads, failAt);
        return;
    }
    if (!g_pool) { fprintf(stderr, "POOL_create failed\n"); exit(2); }
    pthread_t th[MAXPOSTERS];
    for (int p = 1; p < P.nposters; p++) pthread_create(&th[p], NULL, poster_thread, (void*)(intptr_t)p);
    sched_set_op("client"); run_ops(0);
    sched_set_op("join-posters");
    for (int p = 1; p < P.nposters; p++) pthread_join(th[p], NULL);
    if (P.finalJoin) {
        sched_set_op("POOL_joinJobs"); POOL_joinJobs(g_pool);
        for (int j = 0; j < g_njobs; j++) if (J[j].accepted && !J[j].finishStamp) g_joinViol++;
    }
    sched_set_op("POOL_free");
    POOL_free(g_pool); g_pool = NULL;
    sched_result R; sched_end(&R);
    /* oracle over the history */
    int acc = 0, ref = 0;
    for (int j = 0; j < g_njobs; j++) {
        if (J[j].accepted) { acc++; if (J[j].exec == 0) v_viol("accepted-job-never-ran", "job %d (%s) program: %s", j, J[j].child ? "posted by a job" : "posted by a client", P.desc); else if (J[j].exec > 1) v_viol("accepted-job-ran-more-than-once", "job %d ran %d times; program: %s", j, J[j].exec, P.desc); }
        else if (J[j].refused) { ref++; if (J[j].exec) v_viol("refused-job-ran", "POOL_tryAdd returned 0 yet job %d ran; program: %s", j, P.desc); }
    }
    if (g_joinViol) v_viol("joinJobs-returned-before-accepted-jobs-finished", "%ld unfinished job(s) accepted before the call; program: %s", g_joinViol, P.desc);
    v_stat("schedules", 1); v_stat("jobs_accepted", acc); v_stat("jobs_refused", ref); v_stat("sched_steps", (long)R.steps); v_stat("cond_waits", (long)R.cond_waits); v_stat("mutex_blocks", (long)R.mutex_blocks); v_stat("spurious_wakeups", (long)R.spurious);
    v_stat("preemptions", (long)R.preemptions);
    note_schedule(R.hash ^ vr_mix((uint64_t)progId));
    v_cell("program", "%ld", progId); v_cell("config", "t%d q%d p%d", P.nthreads, P.queue, P.nposters);
    if (R.cond_waits) v_stat("schedules_with_cond_wait", 1);
    v_sample("program %ld {%s} schedule seed %ld mode=%s depth=%d steps=%llu hash=%016llx", progId, P.desc, idx, mode == SCHED_PCT ? "PCT" : "uniform", depth, (unsigned long long)R.steps, (unsigned long long)R.hash);
}

static int sched_active_build(void)
{
#ifdef SCHED_STRESS
    return 0;
#else
    return 1;
#endif
}
static void on_alarm(int s) { (void)s; char b[64]; int n = snprintf(b, sizeof b, "HANG\t%ld\n", V.cur_case); if (write(1, b, (size_t)n)) {} _exit(77); }

int main(int argc, char** argv)
{
    v_init(argc, argv);
    sched_on_stuck = on_stuck;
    long const nsched = v_opt_long("nsched", 200);
    signal(SIGALRM, on_alarm);
    for (long i = V.from; i < V.to; i++) { v_case(i); alarm(sched_active_build() ? 120 : 20); run_case(i, nsched); alarm(0); }
    v_stat("distinct_schedules", g_distinct);
    return v_finish();
}
