/* h_c14.c - C14: memory budgets: estimates suffice for static contexts, no hidden allocation, sizeof never under-reports,
 * streaming decoder honours its window limit and its documented buffer bound.
 * side=0 : compression-side estimates (levels, cParams, CCtxParams, CDict/DDict)   side=1 : decoder window limit + sizeof */
#include "vparams.h"
#include <pthread.h>

/* ---- default-allocator monitor: --wrap=malloc/calloc/free ; static objects must never allocate */
void* __real_malloc(size_t); void* __real_calloc(size_t, size_t); void __real_free(void*);
static int w_watch; static long w_allocs;
void* __wrap_malloc(size_t n) { if (w_watch) __atomic_add_fetch(&w_allocs, 1, __ATOMIC_RELAXED); return __real_malloc(n); }
void* __wrap_calloc(size_t a, size_t b) { if (w_watch) __atomic_add_fetch(&w_allocs, 1, __ATOMIC_RELAXED); return __real_calloc(a, b); }
void __wrap_free(void* p) { __real_free(p); }

/* ---- counting allocator for heap objects */
static pthread_mutex_t ca_mu = PTHREAD_MUTEX_INITIALIZER; static size_t ca_live, ca_peak; static long ca_n;
static void* ca_alloc(void* o, size_t n) { (void)o; size_t* p = (size_t*)__real_malloc(n + 16); if (!p) return NULL; p[0] = n; pthread_mutex_lock(&ca_mu); ca_live += n; ca_n++; if (ca_live > ca_peak) ca_peak = ca_live; pthread_mutex_unlock(&ca_mu); return p + 2; }
static void ca_free(void* o, void* q) { (void)o; if (!q) return; size_t* p = (size_t*)q - 2; pthread_mutex_lock(&ca_mu); ca_live -= p[0]; pthread_mutex_unlock(&ca_mu); __real_free(p); }
static ZSTD_customMem const CMEM = { ca_alloc, ca_free, NULL };

static uint8_t* g_src; static size_t g_srcCap; static uint8_t* g_dst; static size_t g_dstCap; static uint8_t* g_out;

static int rt_ok(const void* c, size_t cs, size_t n, const void* dict, size_t dl)
{
    int const w = w_watch; w_watch = 0;
    ZSTD_DCtx* d = ZSTD_createDCtx(); ZSTD_DCtx_setParameter(d, ZSTD_d_windowLogMax, 30);
    size_t const r = dict ? ZSTD_decompress_usingDict(d, g_out, n, c, cs, dict, dl) : ZSTD_decompressDCtx(d, g_out, n, c, cs);
    ZSTD_freeDCtx(d); w_watch = w;
    return !ZSTD_isError(r) && r == n && !memcmp(g_out, g_src, n);
}
static int g_outStable;   /* ZSTD_c_stableOutBuffer contract: same buffer, (size - pos) never changed by the caller. (The input struct below already obeys the stable-in contract.) */
static size_t stream_all(ZSTD_CCtx* c, size_t n, size_t chunk, size_t outChunk)
{
    ZSTD_inBuffer in = { g_src, 0, 0 }; ZSTD_outBuffer out = { g_dst, 0, 0 }; int guard = 0;
    for (;;) {
        in.size = V_MIN(n, in.size + chunk); out.size = g_outStable ? g_dstCap : V_MIN(g_dstCap, out.pos + outChunk);
        ZSTD_EndDirective const dir = in.size == n ? ZSTD_e_end : ZSTD_e_continue;
        size_t const r = ZSTD_compressStream2(c, &out, &in, dir);
        if (ZSTD_isError(r)) return r;
        if (dir == ZSTD_e_end && r == 0) return out.pos;
        if (++guard > 4000000) return (size_t)-ZSTD_error_GENERIC;
    }
}
static const size_t TIERS[] = { 0, 1, 1000, 16 << 10, (16 << 10) + 1, 128 << 10, (128 << 10) + 1, (256 << 10) - 1, 256 << 10, (256 << 10) + 1, 700000, 1500000 };
#define NTIERS (sizeof(TIERS) / sizeof(TIERS[0]))

typedef struct { gbuf g; void* p; size_t size; } wksp;
static wksp wk_alloc(size_t size) { wksp w; w.g = gb_alloc(size + 8, 1); w.p = w.g.p; w.size = size; /* start-aligned after a PROT_NONE page; canary after the end */ memset(w.g.p + size, 0xC5, 8); return w; }
static int wk_ok(wksp* w) { for (int i = 0; i < 8; i++) if (w->g.p[w->size + (size_t)i] != 0xC5) return 0; return gb_ok(&w->g); }
static void wk_free(wksp* w) { gb_free(&w->g); }

static void use_static_cctx(const char* what, size_t est, int streaming, int level, const vparams* P, const ZSTD_compressionParameters* cp, ZSTD_CCtx_params* cpar, size_t n, vrng* r, const char* desc)
{
    if (ZSTD_isError(est)) { v_viol("estimate-returns-error", "%s %s: %s", what, desc, ZSTD_getErrorName(est)); return; }
    wksp W = wk_alloc(est);
    w_allocs = 0; w_watch = 1;
    ZSTD_CCtx* c = streaming ? ZSTD_initStaticCStream(W.p, est) : ZSTD_initStaticCCtx(W.p, est);
    if (!c) { w_watch = 0; v_viol("initStatic-fails-with-own-estimate", "%s %s est=%zu", what, desc, est); wk_free(&W); return; }
    size_t cs; int perr = 0;
    if (cpar) { if (ZSTD_isError(ZSTD_CCtx_setParametersUsingCCtxParams(c, cpar))) perr = 1; }
    else if (cp) { perr |= ZSTD_isError(ZSTD_CCtx_setParameter(c, ZSTD_c_windowLog, (int)cp->windowLog)); perr |= ZSTD_isError(ZSTD_CCtx_setParameter(c, ZSTD_c_hashLog, (int)cp->hashLog)); perr |= ZSTD_isError(ZSTD_CCtx_setParameter(c, ZSTD_c_chainLog, (int)cp->chainLog));
        perr |= ZSTD_isError(ZSTD_CCtx_setParameter(c, ZSTD_c_searchLog, (int)cp->searchLog)); perr |= ZSTD_isError(ZSTD_CCtx_setParameter(c, ZSTD_c_minMatch, (int)cp->minMatch)); perr |= ZSTD_isError(ZSTD_CCtx_setParameter(c, ZSTD_c_targetLength, (int)cp->targetLength)); perr |= ZSTD_isError(ZSTD_CCtx_setParameter(c, ZSTD_c_strategy, (int)cp->strategy)); }
    else if (P) perr = ZSTD_isError(vp_apply(c, P));
    if (perr) { w_watch = 0; v_stat("params_rejected", 1); wk_free(&W); return; }
    if (streaming) { if (!cp && !cpar && !P) ZSTD_CCtx_setParameter(c, ZSTD_c_compressionLevel, level); cs = stream_all(c, n, 1 + vr_u64(r, 200000), 1 + vr_u64(r, 200000)); }
    else if (!cp && !cpar && !P) cs = vr_chance(r, 1, 2) ? ZSTD_compressCCtx(c, g_dst, g_dstCap, g_src, n, level) : (ZSTD_CCtx_setParameter(c, ZSTD_c_compressionLevel, level), ZSTD_compress2(c, g_dst, g_dstCap, g_src, n));
    else cs = ZSTD_compress2(c, g_dst, g_dstCap, g_src, n);
    w_watch = 0;
    v_stat("static_uses", 1);
    if (ZSTD_isError(cs)) {
        if (ZSTD_getErrorCode(cs) == ZSTD_error_memory_allocation) v_viol("estimate-too-small", "%s %s est=%zu n=%zu: %s", what, desc, est, n, ZSTD_getErrorName(cs));
        else v_viol("static-context-operation-fails", "%s %s n=%zu: %s", what, desc, n, ZSTD_getErrorName(cs));
    } else {
        if (!rt_ok(g_dst, cs, n, NULL, 0)) v_viol("static-context-wrong-output", "%s %s n=%zu", what, desc, n);
        /* slack: how close the search came to an underestimate (evidence) */
        size_t const used = ZSTD_sizeof_CCtx(c); if (used <= est) v_statmax("min_slack_negated", -(long)(est - used));
    }
    if (w_allocs) v_viol("static-context-called-the-allocator", "%s %s: %ld malloc/calloc call(s) while operating on caller-provided memory", what, desc, w_allocs);
    if (!wk_ok(&W)) v_viol("static-context-wrote-outside-its-block", "%s %s est=%zu", what, desc, est);
    wk_free(&W);
}

static void run_cside(long idx)
{
    vrng r = vr_make(V.seed, 114, (uint64_t)idx);
    int kind = (int)vr_u(&r, 6);
    size_t n = TIERS[vr_u(&r, NTIERS)]; if (vr_chance(&r, 1, 4)) n = vr_u64(&r, g_srcCap + 1);
    char desc[400];
    /* the first cases enumerate the level grid exhaustively: every (L, l <= L) pair, one-shot and streaming, on an input larger than every size tier */
    int gridL = 0, gridl = 0, isGrid = 0;
    {   int const lo = -3, hi = 19; long const npairs = (long)(hi - lo + 1) * (hi - lo + 2) / 2;
        if (idx < 2 * npairs) { long q = idx % npairs; int L = lo; while (q >= (L - lo + 1)) { q -= (L - lo + 1); L++; } gridL = L; gridl = lo + (int)q; kind = (int)(idx / npairs); isGrid = 1; n = 1500000 + (size_t)(idx % 7); } }
    switch (kind) {
    case 0: case 1: {   /* levels L >= l, one-shot (0) / streaming (1) */
        int const maxL = V.thorough ? 22 : 19;
        int L = (int)vr_range(&r, -7, maxL); int l = (int)vr_range(&r, -7, L); if (vr_chance(&r, 1, 3)) l = L;
        if (isGrid) { L = gridL; l = gridl; }
        int const useL = (L == 0) ? ZSTD_defaultCLevel() : L; int const usel = (l == 0) ? ZSTD_defaultCLevel() : l;
        if (usel > useL) break;                       /* level 0 is the default level (3): normalised */
        snprintf(desc, sizeof desc, "L=%d l=%d", L, l);
        if (kind == 0) use_static_cctx("estimateCCtxSize(L)+one-shot(l)", ZSTD_estimateCCtxSize(L), 0, l, NULL, NULL, NULL, n, &r, desc);
        else use_static_cctx("estimateCStreamSize(L)+streaming(l)", ZSTD_estimateCStreamSize(L), 1, l, NULL, NULL, NULL, n, &r, desc);
        v_cell("est_cell", "level|%s|L%d|l%d", kind ? "stream" : "oneshot", L, l);
        break; }
    case 2: case 3: {   /* exact cParams */
        ZSTD_compressionParameters cp; int const wmax = V.thorough ? 25 : 22;
        cp.windowLog = (unsigned)vr_range(&r, 10, wmax); cp.strategy = (ZSTD_strategy)vr_range(&r, 1, 9); cp.minMatch = (unsigned)vr_range(&r, 3, 7);
        {   static const int pick[3] = { 0, 1, 2 }; (void)pick;
            unsigned const lo = 6, hi = V_MIN(cp.windowLog + 1, 24u); unsigned const opts[3] = { lo, (lo + hi) / 2, hi };
            cp.hashLog = opts[vr_u(&r, 3)]; cp.chainLog = opts[vr_u(&r, 3)]; if (vr_chance(&r, 1, 3)) { cp.hashLog = (unsigned)vr_range(&r, lo, hi); cp.chainLog = (unsigned)vr_range(&r, lo, hi); } }
        cp.searchLog = (unsigned)vr_range(&r, 1, V_MIN(cp.windowLog - 1, 8u)); cp.targetLength = vr_chance(&r, 1, 4) ? 131072u : vr_u(&r, 1000);
        if (ZSTD_isError(ZSTD_checkCParams(cp))) break;
        snprintf(desc, sizeof desc, "cParams{w%u c%u h%u s%u mm%u tl%u strat%d}", cp.windowLog, cp.chainLog, cp.hashLog, cp.searchLog, cp.minMatch, cp.targetLength, (int)cp.strategy);
        if (kind == 2) use_static_cctx("estimateCCtxSize_usingCParams(c)+compress2(c)", ZSTD_estimateCCtxSize_usingCParams(cp), 0, 0, NULL, &cp, NULL, n, &r, desc);
        else use_static_cctx("estimateCStreamSize_usingCParams(c)+streaming(c)", ZSTD_estimateCStreamSize_usingCParams(cp), 1, 0, NULL, &cp, NULL, n, &r, desc);
        v_cell("est_cell", "cparams|%s|s%d|mm%u|w%u", kind == 3 ? "stream" : "oneshot", (int)cp.strategy, cp.minMatch, cp.windowLog);
        break; }
    case 4: {   /* CCtxParams: LDM, row finder, minMatch 3, maxBlockSize, targetCBlockSize, stable buffers ... */
        vparams P; vp_random(&r, &P, VP_NOLEVELONLY); if (P.windowLog > 22) break;
        {   /* "exactly p": p must determine the 7 cParams itself, otherwise they are resolved from the level table per source-size tier,
             * which the estimate (source size unknown) is not documented to bound */
            static const ZSTD_cParameter need[7] = { ZSTD_c_windowLog, ZSTD_c_hashLog, ZSTD_c_chainLog, ZSTD_c_searchLog, ZSTD_c_minMatch, ZSTD_c_targetLength, ZSTD_c_strategy };
            int const wl = P.windowLog ? P.windowLog : (int)vr_range(&r, 10, 21);
            for (int q = 0; q < 7; q++) { int has = 0; for (int i = 0; i < P.n; i++) if (P.p[i] == need[q]) has = 1; if (has) continue;
                switch (need[q]) { case ZSTD_c_windowLog: vp_add(&P, need[q], wl); break; case ZSTD_c_hashLog: case ZSTD_c_chainLog: vp_add(&P, need[q], (int)vr_range(&r, 6, V_MIN(wl + 1, 24))); break; case ZSTD_c_searchLog: vp_add(&P, need[q], (int)vr_range(&r, 1, 6)); break;
                    case ZSTD_c_minMatch: vp_add(&P, need[q], (int)vr_range(&r, 3, 7)); break; case ZSTD_c_targetLength: vp_add(&P, need[q], (int)vr_u(&r, 500)); break; default: vp_add(&P, need[q], (int)vr_range(&r, 1, 9)); } }
            {   int o = 0; for (int i = 0; i < P.n && o < (int)sizeof(P.desc) - 16; i++) o += snprintf(P.desc + o, sizeof(P.desc) - (size_t)o, "%s%d=%d", i ? "," : "", (int)P.p[i], P.v[i]); } }
        /* a source-size hint makes the estimate shrink to that size: the operation it covers is then a source no larger than the hint */
        { for (int i = 0; i < P.n; i++) if (P.p[i] == ZSTD_c_srcSizeHint && P.v[i] > 0 && n > (size_t)P.v[i]) { n = (size_t)P.v[i]; v_stat("sources_capped_to_srcSizeHint", 1); } }
        ZSTD_CCtx_params* cp = ZSTD_createCCtxParams(); int const streaming = (int)vr_u(&r, 2);
        if (ZSTD_isError(vp_apply_params(cp, &P))) { ZSTD_freeCCtxParams(cp); v_stat("params_rejected", 1); break; }
        int const bufMode = streaming ? (int)vr_u(&r, 4) : (vr_chance(&r, 1, 3) ? 3 : 0);      /* bit 0: stable input, bit 1: stable output (each removes one internal buffer from the estimate) */
        if (bufMode & 1) ZSTD_CCtxParams_setParameter(cp, ZSTD_c_stableInBuffer, 1); if (bufMode & 2) ZSTD_CCtxParams_setParameter(cp, ZSTD_c_stableOutBuffer, 1);
        g_outStable = streaming && (bufMode & 2);
        snprintf(desc, sizeof desc, "CCtxParams[%s] stableIn=%d stableOut=%d", P.desc, bufMode & 1, (bufMode >> 1) & 1);
        size_t const est = streaming ? ZSTD_estimateCStreamSize_usingCCtxParams(cp) : ZSTD_estimateCCtxSize_usingCCtxParams(cp);
        use_static_cctx(streaming ? "estimateCStreamSize_usingCCtxParams(p)+streaming(p)" : "estimateCCtxSize_usingCCtxParams(p)+compress2(p)", est, streaming, 0, NULL, NULL, cp, n, &r, desc);
        g_outStable = 0;
        v_cell("est_cell", "cctxparams|%s|ldm%d|tcb%d|mbs%d|buf%d", streaming ? "stream" : "oneshot", P.ldm, P.targetCBlockSize != 0, P.maxBlockSize != 0, bufMode);
        ZSTD_freeCCtxParams(cp);
        break; }
    default: {  /* static CDict / DDict built in exactly their estimates, then used */
        size_t const dl = 8 + vr_u64(&r, 100000); int const lvl = (int)vr_range(&r, 1, 19); ZSTD_dictLoadMethod_e const lm = vr_chance(&r, 1, 2) ? ZSTD_dlm_byCopy : ZSTD_dlm_byRef;
        uint8_t* dict = (uint8_t*)__real_malloc(dl); memcpy(dict, g_src + vr_u64(&r, g_srcCap - dl), dl);
        ZSTD_compressionParameters const cp = ZSTD_getCParams(lvl, 0, dl);
        size_t const ec = ZSTD_estimateCDictSize_advanced(dl, cp, lm), ed = ZSTD_estimateDDictSize(dl, lm);
        wksp Wc = wk_alloc(ec), Wd = wk_alloc(ed);
        w_allocs = 0; w_watch = 1;
        const ZSTD_CDict* cd = ZSTD_initStaticCDict(Wc.p, ec, dict, dl, lm, ZSTD_dct_rawContent, cp);
        const ZSTD_DDict* dd = ZSTD_initStaticDDict(Wd.p, ed, dict, dl, lm, ZSTD_dct_rawContent);
        w_watch = 0;
        snprintf(desc, sizeof desc, "dictLen=%zu level=%d %s", dl, lvl, lm == ZSTD_dlm_byCopy ? "byCopy" : "byRef");
        if (!cd) v_viol("initStaticCDict-fails-with-own-estimate", "%s est=%zu", desc, ec);
        if (!dd) v_viol("initStaticDDict-fails-with-own-estimate", "%s est=%zu", desc, ed);
        if (cd && dd) { size_t const m = V_MIN(n, (size_t)300000); ZSTD_CCtx* c = ZSTD_createCCtx(); ZSTD_DCtx* d = ZSTD_createDCtx();
            size_t const cs = ZSTD_compress_usingCDict(c, g_dst, g_dstCap, g_src, m, cd); size_t const ds = ZSTD_isError(cs) ? cs : ZSTD_decompress_usingDDict(d, g_out, m, g_dst, cs, dd);
            if (ZSTD_isError(ds) || ds != m || memcmp(g_out, g_src, m)) v_viol("static-dict-round-trip-fails", "%s: %s", desc, ZSTD_isError(ds) ? ZSTD_getErrorName(ds) : "mismatch");
            ZSTD_freeCCtx(c); ZSTD_freeDCtx(d); v_stat("static_uses", 1); }
        if (w_allocs) v_viol("static-context-called-the-allocator", "static CDict/DDict %s: %ld call(s)", desc, w_allocs);
        if (!wk_ok(&Wc) || !wk_ok(&Wd)) v_viol("static-context-wrote-outside-its-block", "static CDict/DDict %s", desc);
        v_cell("est_cell", "dict|%s|l%d", lm == ZSTD_dlm_byCopy ? "copy" : "ref", lvl);
        wk_free(&Wc); wk_free(&Wd); __real_free(dict);
        break; }
    }
    v_stat("cside_cases", 1);
}

/* ---------------------------------------------------------------- decoder side */
static size_t make_frame(vrng* r, int wlog, size_t n, int checksum, uint8_t* dst, size_t cap)
{   /* streaming => window descriptor present (no single segment) */
    ZSTD_CCtx* c = ZSTD_createCCtx(); ZSTD_CCtx_setParameter(c, ZSTD_c_windowLog, wlog); ZSTD_CCtx_setParameter(c, ZSTD_c_compressionLevel, (int)vr_range(r, 1, 6)); ZSTD_CCtx_setParameter(c, ZSTD_c_checksumFlag, checksum);
    ZSTD_inBuffer in = { g_src, n, 0 }; ZSTD_outBuffer out = { dst, cap, 0 }; size_t rr = ZSTD_compressStream2(c, &out, &in, ZSTD_e_continue);
    while (!ZSTD_isError(rr) && (rr = ZSTD_compressStream2(c, &out, &in, ZSTD_e_end)) != 0 && !ZSTD_isError(rr)) {}
    ZSTD_freeCCtx(c); return ZSTD_isError(rr) ? rr : out.pos;
}
/* buffering history: input in small slices, output in small slices => the decoder has to hold the window itself */
static size_t dstream_buffered(ZSTD_DStream* d, const uint8_t* f, size_t fs, size_t n, size_t inChunk, size_t outChunk, size_t* produced)
{
    ZSTD_inBuffer in = { f, 0, 0 }; size_t total = 0; uint8_t* ob = (uint8_t*)__real_malloc(outChunk + 1); int guard = 0; size_t ret = 1;
    while (1) {
        in.size = V_MIN(fs, in.pos + inChunk);
        ZSTD_outBuffer out = { ob, outChunk, 0 };
        ret = ZSTD_decompressStream(d, &out, &in);
        if (ZSTD_isError(ret)) break;
        if (out.pos && total + out.pos <= n && memcmp(ob, g_src + total, out.pos)) { ret = (size_t)-ZSTD_error_corruption_detected; total += out.pos; break; }
        total += out.pos;
        if (ret == 0 && in.pos == fs) break;
        if (in.pos == fs && out.pos == 0 && ++guard > 64) { ret = (size_t)-ZSTD_error_srcSize_wrong; break; }
    }
    __real_free(ob); *produced = total; return ret;
}
static void run_dside(long idx)
{
    vrng r = vr_make(V.seed, 214, (uint64_t)idx);
    int const wlog = (int)vr_range(&r, 10, V.thorough ? 24 : 22); size_t const window = (size_t)1 << wlog;
    size_t n = window + 1 + vr_u64(&r, V_MIN(2 * window, g_srcCap - window - 1)); if (n > g_srcCap) n = g_srcCap;
    if (n <= window) { v_stat("dside_skipped", 1); return; }           /* content must exceed the window so that the header carries it */
    size_t const fs = make_frame(&r, wlog, n, (int)vr_u(&r, 2), g_dst, g_dstCap);
    if (ZSTD_isError(fs)) { v_stat("dside_skipped", 1); return; }
    ZSTD_frameHeader fh; if (ZSTD_getFrameHeader(&fh, g_dst, fs) != 0) { v_viol("dside:getFrameHeader-fails", "wlog=%d", wlog); return; }
    size_t const fwin = (size_t)fh.windowSize;
    /* window limit W relative to the frame's window */
    int Wlog; switch (vr_u(&r, 4)) { case 0: Wlog = wlog; break; case 1: Wlog = wlog - 1; break; case 2: Wlog = wlog + 1; break; default: Wlog = (int)vr_range(&r, 10, 25); }
    if (Wlog < 10) Wlog = 10; size_t const Wsz = (size_t)1 << Wlog;
    size_t const inChunk = 1 + vr_u64(&r, 3000), outChunk = 1 + vr_u64(&r, 5000);
    char desc[200]; snprintf(desc, sizeof desc, "frameWindow=%zu(2^%d) limit=2^%d n=%zu in=%zu out=%zu", fwin, wlog, Wlog, n, inChunk, outChunk);
    v_stat("dside_cases", 1);
    {   /* heap DStream with limit: accept iff window <= W on a buffering history; memory bound on any history */
        ca_live = ca_peak = 0; ca_n = 0;
        ZSTD_DStream* d = ZSTD_createDStream_advanced(CMEM);
        if (vr_chance(&r, 1, 2)) ZSTD_DCtx_setParameter(d, ZSTD_d_windowLogMax, Wlog); else ZSTD_DCtx_setMaxWindowSize(d, Wsz);
        size_t prod = 0; size_t const ret = dstream_buffered(d, g_dst, fs, n, inChunk, outChunk, &prod);
        size_t const bound = ZSTD_estimateDStreamSize(V_MIN(Wsz, fwin));
        if (fwin <= Wsz) { if (ZSTD_isError(ret)) v_viol("dlimit:frame-within-limit-refused", "%s: %s", desc, ZSTD_getErrorName(ret)); else if (prod != n) v_viol("dlimit:wrong-output-size", "%s prod=%zu", desc, prod); v_cell("dlimit", "within|%s", ZSTD_isError(ret) ? "refused" : "accepted"); }
        else { if (!ZSTD_isError(ret)) v_viol("dlimit:frame-beyond-limit-accepted-on-buffering-history", "%s", desc); v_cell("dlimit", "beyond|%s", ZSTD_isError(ret) ? "refused" : "ACCEPTED"); }
        if (ca_peak > bound) v_viol("dlimit:heap-decoder-holds-more-than-documented-bound", "%s peakLive=%zu > estimateDStreamSize(min(W,window))=%zu", desc, ca_peak, bound);
        {   size_t const so = ZSTD_sizeof_DStream(d); if (so < ca_live) v_viol("sizeof:DStream-under-reports", "%s sizeof=%zu held=%zu", desc, so, ca_live); v_stat("sizeof_checks", 1); }
        v_statmax("decoder_slack_negated", -(long)(bound - V_MIN(bound, ca_peak)));
        ZSTD_freeDStream(d);
        if (ca_live) v_viol("dlimit:leak", "%s %zu bytes", desc, ca_live);
    }
    {   /* static DStream in estimateDStreamSize(W): succeeds iff window <= W (buffering history); never outside its block; no malloc */
        size_t const est = ZSTD_estimateDStreamSize(Wsz); wksp W = wk_alloc(est);
        w_allocs = 0; w_watch = 1;
        ZSTD_DStream* d = ZSTD_initStaticDStream(W.p, est);
        if (!d) { w_watch = 0; v_viol("initStaticDStream-fails-with-own-estimate", "%s est=%zu", desc, est); }
        else {
            size_t prod = 0; size_t const ret = dstream_buffered(d, g_dst, fs, n, inChunk, outChunk, &prod);
            w_watch = 0;
            if (fwin <= Wsz) { if (ZSTD_isError(ret) || prod != n) v_viol("static-dstream:frame-within-estimate-fails", "%s est=%zu: %s", desc, est, ZSTD_isError(ret) ? ZSTD_getErrorName(ret) : "short output"); }
            else if (!ZSTD_isError(ret)) v_viol("static-dstream:frame-beyond-estimate-accepted", "%s est=%zu", desc, est);
            v_cell("dstatic", "%s|%s", fwin <= Wsz ? "within" : "beyond", ZSTD_isError(ret) ? "refused" : "accepted");
            if (w_allocs) v_viol("static-context-called-the-allocator", "static DStream %s: %ld call(s)", desc, w_allocs);
        }
        if (!wk_ok(&W)) v_viol("static-context-wrote-outside-its-block", "static DStream %s est=%zu", desc, est);
        wk_free(&W);
    }
    {   /* hostile header: window descriptor / content size forged to huge values; limit must refuse on a buffering history and the bound must hold */
        uint8_t* f2 = (uint8_t*)__real_malloc(fs); memcpy(f2, g_dst, fs);
        f2[5] = (uint8_t)(vr_chance(&r, 1, 2) ? 0xFF : (uint8_t)((vr_range(&r, 18, 31) - 10) << 3 | vr_u(&r, 8)));       /* window descriptor */
        ZSTD_frameHeader h2; if (ZSTD_getFrameHeader(&h2, f2, fs) == 0) {
            ca_live = ca_peak = 0; ZSTD_DStream* d = ZSTD_createDStream_advanced(CMEM); ZSTD_DCtx_setParameter(d, ZSTD_d_windowLogMax, Wlog);
            size_t prod = 0; size_t const ret = dstream_buffered(d, f2, fs, n, inChunk, outChunk, &prod);
            size_t const bound = ZSTD_estimateDStreamSize(V_MIN(Wsz, (size_t)V_MIN(h2.windowSize, (unsigned long long)1 << 31)));
            if (h2.windowSize > Wsz && !ZSTD_isError(ret)) v_viol("dlimit:frame-beyond-limit-accepted-on-buffering-history", "%s forged window=%llu", desc, h2.windowSize);
            if (ca_peak > bound) v_viol("dlimit:heap-decoder-holds-more-than-documented-bound", "%s forged window=%llu peak=%zu bound=%zu", desc, h2.windowSize, ca_peak, bound);
            ZSTD_freeDStream(d); v_stat("forged_header_cases", 1);
            /* the same forged frame as the SECOND frame of a stream: the context first decodes the genuine frame (its buffers then already fit the forged one, whose content is no larger) */
            {   ca_live = ca_peak = 0; ZSTD_DStream* d2 = ZSTD_createDStream_advanced(CMEM); ZSTD_DCtx_setParameter(d2, ZSTD_d_windowLogMax, Wlog);
                size_t p1 = 0; size_t const r1 = dstream_buffered(d2, g_dst, fs, n, inChunk, outChunk, &p1);
                if (!ZSTD_isError(r1)) { size_t p2 = 0; size_t const r2 = dstream_buffered(d2, f2, fs, n, inChunk, outChunk, &p2);
                    if (h2.windowSize > Wsz && !ZSTD_isError(r2)) v_viol("dlimit:frame-beyond-limit-accepted-on-buffering-history", "%s forged window=%llu as the second frame of a stream", desc, h2.windowSize);
                    v_stat("forged_header_cases_as_second_frame", 1); }
                ZSTD_freeDStream(d2); }
            /* ... and crafted so that nothing has to be re-sized for the forged frame: genuine frame with a 128 KiB window, content size in the header, content larger than the window
             * (hence a window descriptor); limit = that window; forged copy announces a window far above it while its content still fits the buffers the first frame left */
            if (g_srcCap >= 300000) { size_t const m = 150000 + vr_u(&r, 100000); size_t const cb = ZSTD_compressBound(m); uint8_t* fA = (uint8_t*)__real_malloc(cb); ZSTD_CCtx* cc = ZSTD_createCCtx();
                ZSTD_CCtx_setParameter(cc, ZSTD_c_windowLog, 17); ZSTD_CCtx_setParameter(cc, ZSTD_c_contentSizeFlag, 1); ZSTD_CCtx_setParameter(cc, ZSTD_c_compressionLevel, (int)vr_range(&r, 1, 5));
                size_t const fsA = ZSTD_compress2(cc, fA, cb, g_src, m); ZSTD_freeCCtx(cc);
                if (!ZSTD_isError(fsA) && !(fA[4] & 0x20)) { uint8_t* fB = (uint8_t*)__real_malloc(fsA); memcpy(fB, fA, fsA); fB[5] = (uint8_t)(((int)vr_range(&r, 19, 30) - 10) << 3);
                    ZSTD_DStream* d3 = ZSTD_createDStream_advanced(CMEM); ZSTD_DCtx_setParameter(d3, ZSTD_d_windowLogMax, 17); size_t const ic = 500 + vr_u(&r, 3000), oc = 1000 + vr_u(&r, 9000);
                    size_t p1 = 0; size_t const r1 = dstream_buffered(d3, fA, fsA, m, ic, oc, &p1);
                    if (ZSTD_isError(r1) || p1 != m) v_viol("dlimit:frame-within-the-limit-refused", "window 2^17 under windowLogMax 17: %s", ZSTD_isError(r1) ? ZSTD_getErrorName(r1) : "short output");
                    else { size_t p2 = 0; size_t const r2 = dstream_buffered(d3, fB, fsA, m, ic, oc, &p2); if (!ZSTD_isError(r2)) v_viol("dlimit:frame-beyond-limit-accepted-on-buffering-history", "second frame of a stream announces window descriptor 0x%02x under windowLogMax 17 (content %zu fits the buffers left by the first frame)", fB[5], m); v_stat("forged_header_cases_as_second_frame_fitting_the_buffers", 1); }
                    ZSTD_freeDStream(d3); __real_free(fB); }
                __real_free(fA); } }
        __real_free(f2);
    }
    {   /* sizeof for compression objects vs bytes held */
        ca_live = ca_peak = 0; ZSTD_CCtx* c = ZSTD_createCCtx_advanced(CMEM); ZSTD_CCtx_setParameter(c, ZSTD_c_compressionLevel, (int)vr_range(&r, 1, 12)); if (vr_chance(&r, 1, 3)) ZSTD_CCtx_setParameter(c, ZSTD_c_enableLongDistanceMatching, 1);
        int const mt = vr_chance(&r, 1, 4); if (mt) ZSTD_CCtx_setParameter(c, ZSTD_c_nbWorkers, 2);
        size_t const m = V_MIN(n, (size_t)500000); size_t const cs = ZSTD_compress2(c, g_out, ZSTD_compressBound(m) < g_srcCap ? ZSTD_compressBound(m) : g_srcCap, g_src, m); (void)cs;
        { size_t const so = ZSTD_sizeof_CCtx(c); if (so < ca_live) v_viol("sizeof:CCtx-under-reports", "mt=%d sizeof=%zu held=%zu", mt, so, ca_live); v_stat("sizeof_checks", 1); }
        /* the same relation along a history of frames on that context: worker count raised and lowered (pools grow, retired workers keep their slots), level and LDM changed */
        {   char hist[160]; int ho = snprintf(hist, sizeof hist, "w%d", mt ? 2 : 0); int const steps = 1 + (int)vr_u(&r, 4);
            for (int q = 0; q < steps; q++) { int const w = (int)vr_u(&r, 6); ZSTD_CCtx_setParameter(c, ZSTD_c_nbWorkers, w); ZSTD_CCtx_setParameter(c, ZSTD_c_compressionLevel, (int)vr_range(&r, 1, 9)); ZSTD_CCtx_setParameter(c, ZSTD_c_enableLongDistanceMatching, (int)vr_u(&r, 2));
                ho += snprintf(hist + ho, sizeof hist - (size_t)ho, ",w%d", w);
                size_t const m2 = V_MIN(n, (size_t)(100000 + vr_u(&r, 900000))); size_t const cs2 = ZSTD_compress2(c, g_out, ZSTD_compressBound(m2) < g_srcCap ? ZSTD_compressBound(m2) : g_srcCap, g_src, m2); (void)cs2;
                size_t const so = ZSTD_sizeof_CCtx(c); if (so < ca_live) v_viol("sizeof:CCtx-under-reports", "after the nbWorkers history %s: sizeof=%zu held=%zu (short by %zu)", hist, so, ca_live, ca_live - so); v_stat("sizeof_checks", 1); v_stat("sizeof_history_steps", 1); } }
        ZSTD_freeCCtx(c);
        ca_live = 0; size_t const dl = 100 + vr_u(&r, 50000); ZSTD_CDict* cd = ZSTD_createCDict_advanced(g_src, dl, vr_chance(&r, 1, 2) ? ZSTD_dlm_byCopy : ZSTD_dlm_byRef, ZSTD_dct_auto, ZSTD_getCParams((int)vr_range(&r, 1, 19), 0, dl), CMEM);
        if (cd) { size_t const so = ZSTD_sizeof_CDict(cd); if (so < ca_live) v_viol("sizeof:CDict-under-reports", "sizeof=%zu held=%zu", so, ca_live); v_stat("sizeof_checks", 1); ZSTD_freeCDict(cd); }
        ca_live = 0; ZSTD_DDict* dd = ZSTD_createDDict_advanced(g_src, dl, vr_chance(&r, 1, 2) ? ZSTD_dlm_byCopy : ZSTD_dlm_byRef, ZSTD_dct_auto, CMEM);
        if (dd) { size_t const so = ZSTD_sizeof_DDict(dd); if (so < ca_live) v_viol("sizeof:DDict-under-reports", "sizeof=%zu held=%zu", so, ca_live); v_stat("sizeof_checks", 1); ZSTD_freeDDict(dd); }
    }
    {   /* ZSTD_estimateDStreamSize_fromFrame(): a static DStream of exactly that size decodes that frame, whatever the segmentation (frames of 0..5 bytes and larger,
         * with and without content size) */
        static const size_t small[] = { 0, 1, 2, 3, 4, 5, 7, 100, 1000 }; size_t const m = vr_chance(&r, 2, 3) ? small[vr_u(&r, 9)] : 1 + vr_u64(&r, V_MIN(g_srcCap - 1, (size_t)400000));
        ZSTD_CCtx* c = ZSTD_createCCtx(); ZSTD_CCtx_setParameter(c, ZSTD_c_compressionLevel, (int)vr_range(&r, 1, 9)); ZSTD_CCtx_setParameter(c, ZSTD_c_checksumFlag, (int)vr_u(&r, 2)); if (vr_chance(&r, 1, 3)) ZSTD_CCtx_setParameter(c, ZSTD_c_contentSizeFlag, 0); if (vr_chance(&r, 1, 3)) ZSTD_CCtx_setParameter(c, ZSTD_c_windowLog, (int)vr_range(&r, 10, 20));
        size_t const fs2 = vr_chance(&r, 1, 2) ? ZSTD_compress2(c, g_dst, g_dstCap, g_src, m) : make_frame(&r, (int)vr_range(&r, 10, 20), m, (int)vr_u(&r, 2), g_dst, g_dstCap); ZSTD_freeCCtx(c);
        if (!ZSTD_isError(fs2)) { size_t const est = ZSTD_estimateDStreamSize_fromFrame(g_dst, fs2);
            if (ZSTD_isError(est)) v_viol("fromFrame:estimate-fails-on-a-valid-frame", "m=%zu: %s", m, ZSTD_getErrorName(est));
            else { wksp W = wk_alloc(est); w_allocs = 0; w_watch = 1; ZSTD_DStream* d = ZSTD_initStaticDStream(W.p, est);
                if (!d) { w_watch = 0; v_viol("initStaticDStream-fails-with-own-estimate", "fromFrame m=%zu est=%zu", m, est); }
                else { size_t prod = 0; size_t const ic = 1 + vr_u(&r, vr_chance(&r, 1, 2) ? 3 : 3000), oc = 1 + vr_u(&r, vr_chance(&r, 1, 2) ? 3 : 5000); size_t const ret = dstream_buffered(d, g_dst, fs2, m, ic, oc, &prod); w_watch = 0;
                    if (ZSTD_isError(ret) || prod != m) v_viol("fromFrame:static-dstream-of-the-estimated-size-fails", "content=%zu frame=%zu est=%zu in=%zu out=%zu: %s", m, fs2, est, ic, oc, ZSTD_isError(ret) ? ZSTD_getErrorName(ret) : "short output");
                    if (w_allocs) v_viol("static-context-called-the-allocator", "static DStream (fromFrame) m=%zu: %ld call(s)", m, w_allocs); v_stat("fromFrame_static_decodes", 1); }
                if (!wk_ok(&W)) v_viol("static-context-wrote-outside-its-block", "static DStream (fromFrame) m=%zu est=%zu", m, est); wk_free(&W); } }
    }
    v_sample("%s", desc);
}

int main(int argc, char** argv)
{
    v_init(argc, argv);
    g_srcCap = V.thorough ? (48u << 20) : (12u << 20); g_src = (uint8_t*)__real_malloc(g_srcCap); g_dstCap = ZSTD_compressBound(g_srcCap); g_dst = (uint8_t*)__real_malloc(g_dstCap); g_out = (uint8_t*)__real_malloc(g_srcCap);
    {   vrng r = vr_make(99, 14, 0); gen_data(&r, g_src, g_srcCap, DF_TEXT); for (size_t i = 0; i < g_srcCap; i += 4099) g_src[i] = (uint8_t)vr_u(&r, 256); }
    vp_trace_on = 0;
    int const side = (int)v_opt_long("side", 0);
    for (long i = V.from; i < V.to; i++) { v_case(i); v_budget(900); if (side == 0) run_cside(i); else run_dside(i); }
    return v_finish();
}
