/* h_stream.c - streaming workloads shared by C02 (round trip under any history), C05 (conformance / truthfulness of every emitted
 * frame), C10 (progress, flush decodability, hint protocol). prop=C02|C05|C10 selects which oracles report. */
#include "vhist.h"
#include "refdec.h"

static size_t g_maxSize; static int g_prop;   /* 2, 5, 10 */
#define P02 (g_prop == 2)
#define P05 (g_prop == 5)
#define P10 (g_prop == 10)

typedef struct { size_t cEnd, dEnd; int skippable; } fbound;

/* ---------------- C05 rule monitor over R events of one frame */
static void conformance(const refdec_info_t* I, const uint8_t* f, size_t fsz, const uint8_t* x, size_t n, const vparams* P, const uint8_t* dict, size_t dictLen, uint32_t expectDictID, const char* desc)
{
    (void)f; (void)fsz; (void)x; (void)dict;
    for (size_t fi = 0; fi < I->nb_frames; fi++) {
        const refdec_frame_t* F = &I->frames[fi]; if (F->skippable) continue;
        if (F->descriptor & 0x08) v_viol("conformance:reserved-bit-set", "%s", desc);
        if (F->has_fcs && F->fcs != F->out_size) v_viol("header:content-size-lies", "%s fcs=%llu actual=%zu", desc, (unsigned long long)F->fcs, F->out_size);
        if (F->has_checksum) v_stat("rule_checksum_applicable", 1);       /* R already verified it with the independent XXH64 (mismatch = R rejects) */
        if (expectDictID != 0xFFFFFFFFu && F->dict_id != expectDictID) v_viol("header:dictID-wrong", "%s frame says %u, expected %u", desc, F->dict_id, expectDictID);
        /* window rule is enforced by R itself (offset <= window once more than a window was produced; dictionary reach before that) */
        size_t const blockLimit = (size_t)V_MIN((uint64_t)(128u << 10), F->window_size ? F->window_size : 1);
        size_t const maxB = P->maxBlockSize ? (size_t)P->maxBlockSize : (128u << 10);
        for (size_t b = F->first_block; b < F->first_block + F->nb_blocks && b < I->nb_blocks; b++) {
            const refdec_block_t* B = &I->blocks[b];
            if (B->rsize > blockLimit || B->rsize > maxB) v_viol("conformance:block-exceeds-declared-limit", "%s block %zu regen=%zu window=%llu maxBlockSize=%zu", desc, b, B->rsize, (unsigned long long)F->window_size, maxB);
            if (B->type == 2) {
                v_stat("rule_compressed_blocks", 1);
                if (B->csize >= B->rsize) v_viol("interop:compressed-block-not-smaller-than-content", "%s block %zu csize=%zu rsize=%zu", desc, b, B->csize, B->rsize);
                if (B->csize >= (128u << 10)) v_viol("interop:compressed-block-payload-128KiB", "%s block %zu", desc, b);
                if (B->nb_seq && B->seq_modes >= 0) {
                    /* a last FSE table description + bitstream shorter than 4 bytes (old decoders) */
                    int const anyFse = (((B->seq_modes >> 6) & 3) == 2) || (((B->seq_modes >> 4) & 3) == 2) || (((B->seq_modes >> 2) & 3) == 2);
                    if (anyFse) v_stat("rule_fse_tables_applicable", 1);
                    if (B->seq_tables_size + B->seq_bitstream_size + 1 /*modes byte*/ < 4 && B->nb_seq) v_viol("interop:sequence-section-body-below-4-bytes", "%s block %zu tables=%zu bitstream=%zu", desc, b, B->seq_tables_size, B->seq_bitstream_size);
                }
            }
            if (B->type == 1) v_stat("rule_rle_blocks", 1);
            if (b == F->first_block && B->type == 1 && !B->last) v_viol("interop:first-block-RLE-followed-by-more-blocks", "%s", desc);
        }
        if (F->window_size && F->max_offset * 100 >= F->window_size * 99 && F->out_size > F->window_size) v_stat("frames_with_offset_near_window_bound", 1);
        if (dictLen && F->dict_refs) v_stat("frames_reaching_into_dict", 1);
        v_stat("frames_conformance_checked", 1);
    }
}

static void run_case(long idx)
{
    vrng r = vr_make(V.seed, 1000 + (uint64_t)g_prop, (uint64_t)idx);
    int const nframes = (P02 || P05) ? 1 + (int)vr_u(&r, 3) : 1;
    vparams P; vp_random(&r, &P, VP_MT | VP_MAGICLESS | (P05 ? VP_SMALLWIN * (int)vr_u(&r, 2) : 0));
    if (P.windowLog > 22) vp_level_only(&P);
    /* stratum "sub-blocks" (every 12th case): targetCBlockSize on, data that yields sub-blocks with very few sequences */
    int const sbStratum = (idx % 12) == 5;
    if (sbStratum && !P.targetCBlockSize) { P.targetCBlockSize = (int)vr_range(&r, 1340, vr_chance(&r, 1, 2) ? 2500 : 8000); vp_add(&P, ZSTD_c_targetCBlockSize, P.targetCBlockSize); vp_redesc(&P); }
    /* entry point family for this case: mostly compressStream2 / legacy (chosen per frame by the script), 1 case in 4 (C02, C05) one of the
     * stable-buffer modes, the buffer-less API or ZBUFF */
    int alt = 0; if ((P02 || P05) && vr_chance(&r, 1, 4)) alt = HA_STABLE_IN + (int)vr_u(&r, HA_NB - HA_STABLE_IN);
    if (P10 && vr_chance(&r, 1, 5)) alt = HA_STABLE_IN + (int)vr_u(&r, 3);      /* C10: stable-buffer modes with the call log (progress, completion, flush decodability) */
    if (HA_IS_LEVELONLY(alt)) { vp_level_only(&P); if (P.level > 19) P.level = 19; }    /* these take a level (or a ZSTD_parameters), not the context's parameter set */
    if (HA_IS_STABLE(alt)) { if (alt != HA_STABLE_OUT) vp_add(&P, ZSTD_c_stableInBuffer, 1); if (alt != HA_STABLE_IN) vp_add(&P, ZSTD_c_stableOutBuffer, 1); vp_redesc(&P); }
    if (P.magicless && nframes > 1) { P.magicless = 0; for (int i = 0; i < P.n; i++) if (P.p[i] == ZSTD_c_format) P.v[i] = 0; }
    /* dictionary (C05): raw content, must drop out of reach with small windows */
    size_t dictLen = 0; uint8_t* dict = NULL; int dictMode = 0;
    size_t total = 0, ctotal = 0; size_t const cap = (nframes + 3) * (ZSTD_compressBound(g_maxSize) + 1024) + 4096;
    uint8_t* x = (uint8_t*)malloc((nframes + 3) * g_maxSize + 16); uint8_t* dst = (uint8_t*)malloc(cap);
    fbound fb[16]; int nfb = 0; char desc[700]; int dlen0;
    ZSTD_CCtx* c = ZSTD_createCCtx();
    if (ZSTD_isError(vp_apply(c, &P))) { v_stat("params_rejected", 1); goto out; }
    if (P05 && !P.magicless && vr_chance(&r, 1, 3)) { dictLen = 1 + vr_u(&r, 60000); dict = (uint8_t*)malloc(dictLen); dictMode = 1 + (int)vr_u(&r, 2); }
    dlen0 = snprintf(desc, sizeof desc, "entry=%s params=[%s] frames=%d", alt ? ha_name[alt] : "script", P.desc, nframes);
    v_stat("cases", 1);
    for (int f = 0; f < nframes; f++) {
        int fam = (int)vr_u(&r, DF_NB); size_t n = pick_size(&r, g_maxSize); if (sbStratum) { fam = vr_chance(&r, 2, 3) ? DF_SPARSE : DF_REPBAIT; if (n < 20000) n = 20000 + vr_u(&r, 200000); }
        if (P05 && P.windowLog && vr_chance(&r, 1, 2)) { size_t const w = (size_t)1 << P.windowLog; size_t const want = w + 1 + vr_u64(&r, 3 * w); n = want < g_maxSize ? want : g_maxSize; }     /* longer than the window */
        gen_data(&r, x + total, n, (!sbStratum && vr_chance(&r, 1, 3)) ? DF_LONGREP : fam);
        if (dict && f == 0) { gen_data(&r, dict, dictLen, fam); if (n > 64) memcpy(dict + dictLen - V_MIN(dictLen, n / 2), x + total, V_MIN(dictLen, n / 2)); if (dictLen >= 4 && dict[0] == 0x37 && dict[1] == 0xA4 && dict[2] == 0x30 && dict[3] == 0xEC) dict[0] ^= 1; }
        /* MT only (C05): the compression level is raised or lowered in mid-frame (documented as allowed with nbWorkers >= 1, effective from the next job): the frame
         * header was written by the first job; data = a long base repeated at a distance D that only some levels' windows reach */
        int const midChange = P05 && P.nbWorkers > 0 && !alt && f == 0 && vr_chance(&r, 1, 2);
        if (midChange) { size_t const D = (size_t)vr_range(&r, 200000, 1500000); n = V_MIN(g_maxSize * 3, D * 2 + (size_t)vr_u(&r, 400000)); vr_fill(&r, x + total, V_MIN(n, D)); for (size_t i = D; i < n; i++) x[total + i] = x[total + i - D]; for (size_t i = D; i < n; i += 1 + vr_u(&r, 20000)) x[total + i] ^= 0x55; }
        hscript S; h_gen_script(&r, n, &S, P.nbWorkers == 0);
        if (midChange && S.nseg > 1) { S.chgAtSeg = 1 + (int)vr_u(&r, (uint32_t)V_MIN(S.nseg - 1, 6)); S.chgLevel = vr_chance(&r, 1, 2) ? (int)vr_range(&r, 1, 19) : (int)vr_range(&r, -5, 3); v_stat("frames_with_mid_frame_level_change", 1); }
        else if (midChange) { /* single-segment script: cut it so that there is a point to change at */ size_t const l0 = S.seg[0].len; if (l0 > 1000) { S.seg[1] = S.seg[0]; S.seg[0].len = l0 / 3; S.seg[0].dir = ZSTD_e_flush; S.seg[1].len = l0 - l0 / 3; S.nseg = 2; S.chgAtSeg = 1; S.chgLevel = (int)vr_range(&r, 1, 19); v_stat("frames_with_mid_frame_level_change", 1); } }
        if (P.nbWorkers && n > 300000) for (int i = 0; i < S.nOut; i++) if (S.outPat[i] < 256) S.outPat[i] += 256;
        hlog L; memset(&L, 0, sizeof L); long tooMany = 0;
        if (P10 && !alt && vr_chance(&r, 1, 5)) {   /* the context first starts another frame that is abandoned (session reset) while compressed bytes are still parked in its
                                                     * internal output buffer (the call returned > 0 because the output was tiny); the frame under test follows on the same context */
            size_t const m = V_MIN(n, (size_t)(1 + vr_u(&r, 300000))); uint8_t tiny[64]; ZSTD_inBuffer ain = { x + total, m, 0 }; ZSTD_outBuffer ao = { tiny, 1 + vr_u(&r, 64), 0 };
            size_t const rr = ZSTD_compressStream2(c, &ao, &ain, vr_chance(&r, 1, 2) ? ZSTD_e_flush : ZSTD_e_end);
            if (!ZSTD_isError(rr) && rr > 0) v_stat("frames_after_abandoned_frame_with_parked_output", 1);
            ZSTD_CCtx_reset(c, ZSTD_reset_session_only); }
        if (dict && !HA_IS_LEVELONLY(alt)) { if (dictMode == 1) ZSTD_CCtx_refPrefix_advanced(c, dict, dictLen, ZSTD_dct_rawContent); else if (f == 0) ZSTD_CCtx_loadDictionary_advanced(c, dict, dictLen, ZSTD_dlm_byRef, ZSTD_dct_rawContent); }
        int const pledge = (!S.api && vr_chance(&r, 1, 3)); if (pledge && !HA_IS_LEVELONLY(alt)) ZSTD_CCtx_setPledgedSrcSize(c, n);
        size_t cs; ZSTD_parameters zp; memset(&zp, 0, sizeof zp); int adv = 0;
        if (alt) S.api = 0;
        if (!alt) cs = h_run_script(c, x + total, n, &S, dst + ctotal, cap - ctotal, &L, &tooMany);
        else if (HA_IS_STABLE(alt)) cs = h_run_stable(c, alt, x + total, n, &S, dst + ctotal, cap - ctotal, &tooMany, &L);
        else if (alt == HA_ZBUFF) cs = h_run_zbuff(P.level, dictMode ? dict : NULL, dictLen, x + total, n, &S, dst + ctotal, cap - ctotal, &tooMany);
        else { hbl B; memset(&B, 0, sizeof B); B.level = P.level; B.dict = dictMode ? dict : NULL; B.dictLen = dictMode ? dictLen : 0; B.pledge = pledge; adv = B.useAdvanced = (int)vr_u(&r, 2);
            if (adv) { zp = ZSTD_getParams(P.level, vr_chance(&r, 1, 2) ? n : 0, B.dictLen);
                if (vr_chance(&r, 1, 2)) { zp.cParams.windowLog = (unsigned)vr_range(&r, 10, 21); zp.cParams.strategy = (ZSTD_strategy)vr_range(&r, 1, 9); zp.cParams.minMatch = (unsigned)vr_range(&r, 3, 7); zp.cParams.searchLog = (unsigned)vr_range(&r, 1, 6);
                    zp.cParams.hashLog = (unsigned)vr_range(&r, 6, 21); zp.cParams.chainLog = (unsigned)vr_range(&r, 6, 21); zp.cParams.targetLength = (unsigned)vr_u(&r, 200); if (ZSTD_isError(ZSTD_checkCParams(zp.cParams))) zp = ZSTD_getParams(P.level, 0, B.dictLen); }
                zp.fParams.contentSizeFlag = (int)vr_u(&r, 2); zp.fParams.checksumFlag = (int)vr_u(&r, 2); zp.fParams.noDictIDFlag = (int)vr_u(&r, 2); B.zp = zp; }
            cs = h_run_bufferless(c, alt, x + total, n, &S, dst + ctotal, cap - ctotal, &B); }
        if (alt) v_cell("alt_entry", "%s%s|dict%d|mt%d", ha_name[alt], adv ? "+advanced" : "", dictMode, P.nbWorkers > 0);
        snprintf(desc + dlen0, sizeof desc - (size_t)dlen0, " | frame %d: n=%zu fam=%s script{%s} pledged=%d dict=%zu/%d", f, n, v_df_name[fam], S.desc, pledge, dictLen, dictMode);
        if (ZSTD_isError(cs)) {
            if (tooMany) { if (P10) v_viol("progress:too-many-calls-to-finish-a-finite-stream", "%s calls=%ld", desc, tooMany); }
            else if (ZSTD_getErrorCode(cs) == ZSTD_error_memory_allocation) v_stat("memory_refusals", 1);
            else if (P02) v_viol("compress-stream-fails", "%s: %s", desc, ZSTD_getErrorName(cs));
            else if (P10 && L.n) { hcall* h = &L.c[L.n - 1];    /* a call that was given writable output (and possibly input) answered with an error: no progress, and the stream can never be finished */
                if (h->outSize > 0) v_viol("progress:call-with-output-room-fails", "%s call %zu dir=%d in=%zu/%zu room=%zu: %s", desc, L.n - 1, h->dir, h->inBefore, h->inSize, h->outSize, ZSTD_getErrorName(cs)); }
            hl_free(&L); goto out;
        }
        v_stat("stream_calls", (long)L.n);
        if (P10) {
            /* (a) every call with consumable input and writable output progresses (or completes) */
            for (size_t k = 0; k < L.n; k++) { hcall* h = &L.c[k];
                int const hadIn = h->inBefore < h->inSize, hadOut = h->outSize > 0;
                int const progressed = (h->inAfter > h->inBefore) || (h->outAfter > h->outBefore);
                if (hadIn && hadOut && !progressed && h->ret != 0) v_viol("progress:call-with-input-and-output-room-did-nothing", "%s call %zu dir=%d ret=%zu", desc, k, h->dir, h->ret);
                /* stable-input mode: the library reports input it merely took note of as consumed and takes it back at the start of the next call ("pos can only be updated by zstd"): only there may in.pos be lower after a call */
                int const stableIn = (alt == HA_STABLE_IN || alt == HA_STABLE_BOTH);
                if ((h->inAfter < h->inBefore && !stableIn) || h->outAfter < h->outBefore || h->inAfter > h->inSize || h->outAfter - h->outBefore > h->outSize) v_viol("progress:position-moved-backwards-or-past-the-buffer", "%s call %zu: in %zu -> %zu of %zu, out %zu -> %zu room %zu ret=%zu dir=%d", desc, k, h->inBefore, h->inAfter, h->inSize, h->outBefore, h->outAfter, h->outSize, h->ret, h->dir);
                if (hadIn && hadOut) v_stat("calls_with_input_and_room", 1);
                if (h->dir != ZSTD_e_continue && h->ret == 0 && h->inAfter < h->inSize) v_viol("completion:directive-reported-complete-with-input-unconsumed", "%s call %zu dir=%s consumed %zu of %zu", desc, k, h->dir == ZSTD_e_end ? "end" : "flush", h->inAfter, h->inSize); }
            /* (b) once flush reported completion, the bytes so far decode to exactly the input consumed so far */
            for (int q = 0; q < L.nFlush; q++) {
                ZSTD_DStream* d = ZSTD_createDStream(); if (P.magicless) ZSTD_DCtx_setParameter(d, ZSTD_d_format, ZSTD_f_zstd1_magicless); ZSTD_DCtx_setParameter(d, ZSTD_d_windowLogMax, 30);
                size_t const want = L.flushIn[q]; uint8_t* ob = (uint8_t*)malloc(want + 64);
                ZSTD_inBuffer in = { dst + ctotal, L.flushPoints[q], 0 }; ZSTD_outBuffer out = { ob, want + 64, 0 }; size_t rr = 1; int guard = 0;
                while (in.pos < in.size && !ZSTD_isError(rr = ZSTD_decompressStream(d, &out, &in)) && ++guard < 1000000) {}
                if (!ZSTD_isError(rr)) { int g2 = 0; size_t before; do { before = out.pos; rr = ZSTD_decompressStream(d, &out, &in); } while (!ZSTD_isError(rr) && out.pos != before && ++g2 < 1000); }   /* drain */
                if (ZSTD_isError(rr)) v_viol("flush:flushed-prefix-not-decodable", "%s flush %d at out=%zu in=%zu: %s", desc, q, L.flushPoints[q], want, ZSTD_getErrorName(rr));
                else if (out.pos != want || memcmp(ob, x + total, want)) v_viol("flush:flushed-prefix-regenerates-other-than-consumed-input", "%s flush %d: decoded %zu, consumed %zu", desc, q, out.pos, want);
                v_stat("flush_points_checked", 1); v_cell("flush_fill", "%zu", (want % (128u << 10)) >> 12);
                free(ob); ZSTD_freeDStream(d);
            }
        }
        hl_free(&L);
        total += n; ctotal += cs; fb[nfb].cEnd = ctotal; fb[nfb].dEnd = total; fb[nfb].skippable = 0; nfb++;
        v_cell("script", "%d|%s|mt%d|%s", S.nseg > 50 ? 2 : S.nseg > 3 ? 1 : 0, alt ? ha_name[alt] : S.api ? "legacy" : "s2", P.nbWorkers > 0, S.outPat[0] < 16 ? "tinyout" : S.outPat[0] < 5000 ? "smallout" : "bigout");
        if ((P02 || P05) && !P.magicless && vr_chance(&r, 1, 4) && nfb < 15) { uint8_t sk[200]; size_t sl = vr_u(&r, 200); vr_fill(&r, sk, sl); size_t w = ZSTD_writeSkippableFrame(dst + ctotal, cap - ctotal, sk, sl, vr_u(&r, 16)); if (!ZSTD_isError(w)) { ctotal += w; fb[nfb].cEnd = ctotal; fb[nfb].dEnd = total; fb[nfb].skippable = 1; nfb++; } }
    }
    /* ---------------- decode-side oracles */
    if (P02 || P05) {
        refdec_info_t I; memset(&I, 0, sizeof I); I.magicless = P.magicless; I.keep_blocks = 1; uint8_t* out = (uint8_t*)malloc(total + 16);
        refdec_dict_t* rd = dict ? refdec_dict_create(dict, dictLen, 1) : NULL;
        if (!refdec_decode(out, total, dst, ctotal, rd, &I, 0)) v_viol(P05 ? "conformance:R-rejects-emitted-frame" : "roundtrip:R-rejects", "%s: %s at %zu", desc, I.err ? I.err : "?", I.err_src_off);
        else if (I.out_size != total || memcmp(out, x, total)) v_viol(P05 ? "conformance:R-regenerates-other-bytes" : "roundtrip:R-mismatch", "%s", desc);
        else { if (P05) conformance(&I, dst, ctotal, x, total, &P, dict, dictLen, 0u /* raw-content dictionaries and no dictionary: ID 0 */, desc); v_stat("frames_R_ok", (long)I.nb_frames); if (I.nb_blocks) v_cell("nontrivial", "%s", vp_last_cell); }
        refdec_info_free(&I); refdec_dict_free(rd); free(out);
    }
    if (P02) {
        uint8_t* out = (uint8_t*)malloc(total + 16);
        ZSTD_DCtx* d = ZSTD_createDCtx(); ZSTD_DCtx_setParameter(d, ZSTD_d_windowLogMax, 30); if (P.magicless) ZSTD_DCtx_setParameter(d, ZSTD_d_format, ZSTD_f_zstd1_magicless);
        size_t const one = ZSTD_decompressDCtx(d, out, total, dst, ctotal);
        if (ZSTD_isError(one) || one != total || memcmp(out, x, total)) v_viol("roundtrip:one-shot-decoder", "%s: %s", desc, ZSTD_isError(one) ? ZSTD_getErrorName(one) : "mismatch");
        /* streaming decode under an independent random history */
        ZBUFF_DCtx* zd = NULL;
        for (int rep = 0; rep < (P.magicless ? 2 : 3); rep++) {
            dscript D; d_gen_script(&r, &D, ctotal); int const stable = (rep == 1) && vr_chance(&r, 1, 2);
            int const zb = (rep == 2); if (zb) { zd = ZBUFF_createDCtx(); if (!zd) exit(2); ZBUFF_decompressInit(zd); ZSTD_DCtx_setParameter(zd, ZSTD_d_windowLogMax, 30); }
            ZSTD_DCtx_reset(d, ZSTD_reset_session_only); if (stable) ZSTD_DCtx_setParameter(d, ZSTD_d_stableOutBuffer, 1); else ZSTD_DCtx_setParameter(d, ZSTD_d_stableOutBuffer, 0);
            ZSTD_inBuffer in = { dst, 0, 0 }; ZSTD_outBuffer ob = { out, 0, 0 }; size_t ret = 1; int k = 0; long guard = 0; int zeros = 0; int bad = 0; int emptyInCalls = 0;
            size_t offered = 0;   /* absolute end of the input made available so far */
            int lastFilledOut = 0, consecutiveDrains = 0;
            int const drainRate = (int)vr_u(&r, 4);       /* 0: never; else 1/drainRate+1 of the calls offer an empty input slice */
            memset(out, 0, total);
            while (1) {
                size_t const inc = D.inChunk[k % D.n], outc = D.outChunk[k % D.n]; k++;
                /* sometimes a drain-only call: an EMPTY input slice although input remains (legal history; the leftover is offered again afterwards) */
                /* only while output is known to be pending (the previous call filled its output window) - repeated empty calls with nothing
                 * to drain are legitimately answered with noForwardProgress_inputEmpty after ZSTD_NO_FORWARD_PROGRESS_MAX calls */
                int const drainOnly = drainRate && ret != 0 && (ob.pos < total) && lastFilledOut && consecutiveDrains < 3 && vr_chance(&r, 1, (uint32_t)drainRate + 1);
                consecutiveDrains = drainOnly ? consecutiveDrains + 1 : 0;
                if (in.pos == offered) offered = V_MIN(ctotal, offered + inc);
                in.size = drainOnly ? in.pos : offered;
                if (stable) ob.size = total; else ob.size = V_MIN(total, ob.pos + outc);
                size_t const ib = in.pos, obp = ob.pos;
                if (!zb) ret = ZSTD_decompressStream(d, &ob, &in);
                else { size_t dcap = ob.size - ob.pos, ssz = in.size - in.pos; ret = ZBUFF_decompressContinue(zd, out + ob.pos, &dcap, dst + in.pos, &ssz); ob.pos += dcap; in.pos += ssz; }
                if (drainOnly) emptyInCalls++;
                lastFilledOut = !stable && (ob.pos == ob.size) && ob.size > obp;
                if (ZSTD_isError(ret)) { v_viol("roundtrip:streaming-decoder-fails-on-valid-stream", "%s stable=%d in=%zu/%zu out=%zu/%zu: %s", desc, stable, in.pos, ctotal, ob.pos, total, ZSTD_getErrorName(ret)); bad = 1; break; }
                if (in.pos < ib || ob.pos < obp) { v_viol("history:decoder-position-moved-backwards", "%s", desc); bad = 1; break; }
                if (ret == 0) {   /* completion reported: must be exactly at a frame end with that frame's output delivered */
                    int at = -1; for (int q = 0; q < nfb; q++) if (fb[q].cEnd == in.pos) at = q;
                    if (at < 0) { v_viol("history:decoder-returns-0-not-at-a-frame-end", "%s in.pos=%zu", desc, in.pos); bad = 1; break; }
                    if (ob.pos != fb[at].dEnd) { v_viol("history:decoder-returns-0-before-output-flushed", "%s in.pos=%zu out=%zu want=%zu", desc, in.pos, ob.pos, fb[at].dEnd); bad = 1; break; }
                    zeros++;
                }
                if (in.pos == ctotal && ob.pos == total && (ret == 0 || fb[nfb - 1].skippable)) break;
                if (in.pos == ctotal && ob.pos == total && ret != 0) { if (++guard > 64) { v_viol("history:decoder-never-reports-completion", "%s ret=%zu", desc, ret); bad = 1; break; } continue; }
                if (++guard > 40000000) { v_viol("history:decoder-loop-without-end", "%s", desc); bad = 1; break; }
            }
            if (!bad) { if (memcmp(out, x, total)) v_viol("roundtrip:streaming-decoder-mismatch", "%s stable=%d", desc, stable);
                int dataFrames = 0; for (int q = 0; q < nfb; q++) if (!fb[q].skippable) dataFrames++;
                if (zeros < dataFrames) v_viol("history:frame-completion-not-reported-for-every-frame", "%s zeros=%d frames=%d", desc, zeros, dataFrames);
                v_stat("decode_histories", 1); v_stat("drain_only_calls", emptyInCalls); v_cell("dhist", "in%s|out%s|%s", D.inChunk[0] < 8 ? "tiny" : D.inChunk[0] < 6000 ? "small" : "big", D.outChunk[0] < 8 ? "tiny" : D.outChunk[0] < 6000 ? "small" : "big", zb ? "ZBUFF" : stable ? "stable-out" : "buffered"); }
            if (zb) { ZBUFF_freeDCtx(zd); zd = NULL; }
        }
        /* buffer-less decoding driven by ZSTD_nextSrcSizeToDecompress (single data frame, no skippable, standard format) */
        if (nfb == 1 && !P.magicless) {
            ZSTD_DCtx_reset(d, ZSTD_reset_session_and_parameters); ZSTD_decompressBegin(d);
            size_t ip = 0, op = 0; int ok = 1; long guard = 0;
            while (1) { size_t const need = ZSTD_nextSrcSizeToDecompress(d); if (need == 0) break; if (need > ctotal - ip) { v_viol("bufferless:asks-beyond-frame", "%s need=%zu have=%zu", desc, need, ctotal - ip); ok = 0; break; }
                size_t const rr = ZSTD_decompressContinue(d, out + op, total - op, dst + ip, need); if (ZSTD_isError(rr)) { v_viol("bufferless:decompressContinue-fails", "%s: %s", desc, ZSTD_getErrorName(rr)); ok = 0; break; } ip += need; op += rr; if (++guard > 10000000) { ok = 0; break; } }
            if (ok && (ip != ctotal || op != total || memcmp(out, x, total))) v_viol("bufferless:mismatch", "%s consumed %zu/%zu produced %zu/%zu", desc, ip, ctotal, op, total);
            v_stat("bufferless_decodes", 1);
        }
        /* block-level API: Begin + compressBlock per block (<= ZSTD_getBlockSize), 0 = "store it yourself"; decoder side decompressBlock / insertBlock */
        if (total && vr_chance(&r, 1, 4)) {
            ZSTD_CCtx* bc = ZSTD_createCCtx(); int const lvl = (int)vr_range(&r, -5, 19); size_t pos = 0; int ok = 1; long nb = 0, stored = 0;
            size_t e = vr_chance(&r, 1, 2) ? ZSTD_compressBegin(bc, lvl) : ZSTD_compressBegin_usingDict(bc, x, 0, lvl); ZSTD_DCtx_reset(d, ZSTD_reset_session_and_parameters); ZSTD_decompressBegin(d);
            size_t const bs = ZSTD_isError(e) ? 0 : ZSTD_getBlockSize(bc); uint8_t* cb = (uint8_t*)malloc(ZSTD_compressBound(bs ? bs : 1) + 64); memset(out, 0, total);
            if (ZSTD_isError(e) || bs == 0 || bs > (128u << 10)) { v_viol("blockapi:begin-or-blocksize", "%s level=%d bs=%zu %s", desc, lvl, bs, ZSTD_isError(e) ? ZSTD_getErrorName(e) : ""); ok = 0; }
            while (ok && pos < total) { size_t len = vr_chance(&r, 1, 3) ? bs : 1 + vr_u64(&r, bs); if (len > total - pos) len = total - pos;
                size_t const cs = ZSTD_compressBlock(bc, cb, ZSTD_compressBound(len), x + pos, len);
                if (ZSTD_isError(cs)) { v_viol("blockapi:compressBlock-fails", "%s level=%d at %zu len=%zu: %s", desc, lvl, pos, len, ZSTD_getErrorName(cs)); ok = 0; break; }
                if (cs == 0) { memcpy(out + pos, x + pos, len); ZSTD_insertBlock(d, out + pos, len); stored++; }
                else { size_t const ds = ZSTD_decompressBlock(d, out + pos, total - pos, cb, cs); if (ZSTD_isError(ds) || ds != len) { v_viol("blockapi:decompressBlock-fails-or-wrong-size", "%s level=%d at %zu len=%zu: %s", desc, lvl, pos, len, ZSTD_isError(ds) ? ZSTD_getErrorName(ds) : "size"); ok = 0; break; } }
                pos += len; nb++; }
            if (ok && memcmp(out, x, total)) v_viol("blockapi:mismatch", "%s level=%d", desc, lvl);
            v_stat("blockapi_blocks", nb); v_stat("blockapi_blocks_stored", stored); free(cb); ZSTD_freeCCtx(bc);
        }
        ZSTD_freeDCtx(d); free(out);
    }
    if (P10 && nfb == 1 && !P.magicless) {
        /* (c) a decoder fed exactly what it asks for (hint = total size of the next input, leftover included) never asks beyond the frame and consumes exactly it */
        size_t const extra = 100; uint8_t* src2 = (uint8_t*)malloc(ctotal + extra); memcpy(src2, dst, ctotal); memset(src2 + ctotal, 0x28, extra);   /* other data follows the frame */
        ZSTD_DStream* d = ZSTD_createDStream(); ZSTD_DCtx_setParameter(d, ZSTD_d_windowLogMax, 30);
        if (vr_chance(&r, 1, 4)) { ZSTD_DCtx_setParameter(d, ZSTD_d_forceIgnoreChecksum, ZSTD_d_ignoreChecksum); v_stat("hint_runs_ignoring_checksums", 1); }      /* the 4 checksum bytes are still part of the frame to consume */
        size_t const oc = 1 + vr_u64(&r, vr_chance(&r, 1, 3) ? 8 : 200000); uint8_t* ob = (uint8_t*)malloc(total + 16);
        /* optional prior history on the same decoder: a frame read to some point - in half of the cases exactly to the point where the decoder keeps the last
         * input byte "hostage" because output is still pending - and abandoned with a session reset / ZSTD_initDStream */
        int const prior = (int)vr_u(&r, 3);
        if (prior) { ZSTD_inBuffer in = { dst, ctotal, 0 }; size_t const room = 1 + vr_u(&r, vr_chance(&r, 1, 2) ? 16 : 3000); long const stopAfter = vr_chance(&r, 1, 2) ? -1 : (long)vr_u(&r, 200); long calls = 0; size_t rr = 1;
            while (rr != 0 && !ZSTD_isError(rr) && calls < 4000000) { ZSTD_outBuffer o = { ob, V_MIN(room, total + 16), 0 }; rr = ZSTD_decompressStream(d, &o, &in); calls++;
                if (stopAfter >= 0 && calls > stopAfter) break;
                if (stopAfter < 0 && in.pos + 1 == ctotal && rr == 1) { v_stat("hint_runs_abandoned_at_hostage_point", 1); break; } }
            if (prior == 1) ZSTD_DCtx_reset(d, ZSTD_reset_session_only); v_stat("hint_runs_after_abandoned_frame", 1); }
        size_t hint = ZSTD_initDStream(d); size_t ip = 0, op = 0, avail = 0; long guard = 0; int ok = 1; int hostage = 0;
        while (1) {
            if (hint > avail) { size_t const add = hint - avail; if (ip + avail + add > ctotal) { v_viol("hint:decoder-asks-for-bytes-beyond-the-frame", "%s hint=%zu at ip=%zu leftover=%zu frame=%zu", desc, hint, ip, avail, ctotal); ok = 0; break; } avail += add; }
            ZSTD_inBuffer in = { src2 + ip, avail, 0 }; ZSTD_outBuffer o = { ob + op, V_MIN(oc, total + 16 - op), 0 };
            size_t const rr = ZSTD_decompressStream(d, &o, &in);
            if (ZSTD_isError(rr)) { v_viol("hint:decoder-fails-when-following-hints", "%s: %s", desc, ZSTD_getErrorName(rr)); ok = 0; break; }
            ip += in.pos; avail -= in.pos; op += o.pos; hint = rr;
            if (rr == 1 && avail == 1 && ip == ctotal - 1 && o.pos == o.size) { hostage = 1;      /* everything was supplied, the decoder handed the last byte back: output is pending */
                if (vr_chance(&r, 1, 2)) {   /* calls without any input while the decoder withholds the last byte, until nothing more comes out (legal; it must keep asking for 1 byte and lose nothing) */
                    int stop = 0; for (int q = 0; q < 100000 && !stop; q++) { ZSTD_inBuffer e = { src2 + ip, 0, 0 }; ZSTD_outBuffer o2 = { ob + op, V_MIN(oc, total + 16 - op), 0 }; size_t const r2 = ZSTD_decompressStream(d, &o2, &e);
                        if (ZSTD_isError(r2)) { if (ZSTD_getErrorCode(r2) != ZSTD_error_noForwardProgress_inputEmpty) { v_viol("hint:decoder-fails-on-an-empty-call-while-holding-the-last-byte", "%s: %s", desc, ZSTD_getErrorName(r2)); ok = 0; } stop = 2; break; }
                        op += o2.pos; hint = r2; if (r2 == 0) { v_viol("hint:completion-reported-before-the-last-byte-was-consumed", "%s", desc); ok = 0; stop = 1; } if (o2.pos == 0) stop = 1; }
                    v_stat("hint_runs_with_empty_calls_at_hostage_point", 1); if (stop == 2) ok = 0; if (!ok) break; } }
            if (rr == 0) break;
            if (++guard > 50000000) { v_viol("hint:no-end", "%s", desc); ok = 0; break; }
        }
        if (ok && (ip != ctotal || avail != 0)) v_viol("hint:finished-without-consuming-exactly-the-frame", "%s consumed=%zu leftover=%zu frame=%zu", desc, ip, avail, ctotal);
        if (ok && (op != total || memcmp(ob, x, total))) v_viol("hint:wrong-output", "%s", desc);
        v_stat("hint_runs", 1); if (hostage) v_stat("hint_runs_with_hostage_episode", 1);
        free(ob); free(src2); ZSTD_freeDStream(d);
    }
    v_sample("%s -> %zu bytes, %d frame(s)", desc, ctotal, nfb);
out:
    ZSTD_freeCCtx(c); free(x); free(dst); free(dict);
}

int main(int argc, char** argv)
{
    v_init(argc, argv);
    g_maxSize = (size_t)v_opt_long("maxsize", V.thorough ? (4 << 20) : (1 << 20));
    const char* p = v_opt("prop", "C02"); g_prop = atoi(p + 1);
    for (long i = V.from; i < V.to; i++) { v_case(i); v_budget(900); run_case(i); }
    return v_finish();
}
