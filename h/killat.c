/* killat.c - ptrace supervisor for C19: runs a command, counts syscall-entry stops over the whole thread/process tree and
 * either lets it finish (count mode) or, at the entry of the k-th syscall, SIGKILLs the whole tree ("just before syscall k")
 * or delivers SIGINT to the main process and lets it run on.
 *   killat count            -- cmd args...     prints: N=<syscalls> status=<exit|signal n>
 *   killat kill <k>         -- cmd args...     prints: killed_at=<k> sysno=<nr> | finished N=<n> status=...
 *   killat int  <k>         -- cmd args...     prints: int_at=<k> sysno=<nr> status=...
 * stdin of the command is /dev/null, stdout/stderr are discarded unless KILLAT_VERBOSE is set. */
#define _GNU_SOURCE
#include <stdio.h>
#include <stdlib.h>
#include <string.h>
#include <unistd.h>
#include <signal.h>
#include <errno.h>
#include <fcntl.h>
#include <sys/ptrace.h>
#include <sys/wait.h>
#include <sys/user.h>
#include <sys/types.h>
#include <sys/syscall.h>

#define MAXP 256
static pid_t pids[MAXP]; static int inSys[MAXP]; static int np;
static int find(pid_t p) { for (int i = 0; i < np; i++) if (pids[i] == p) return i; if (np < MAXP) { pids[np] = p; inSys[np] = 0; return np++; } return -1; }
static void drop(pid_t p) { for (int i = 0; i < np; i++) if (pids[i] == p) { pids[i] = pids[np - 1]; inSys[i] = inSys[np - 1]; np--; return; } }

int main(int argc, char** argv)
{
    if (argc < 4) { fprintf(stderr, "usage: killat count|kill <k>|int <k> -- cmd...\n"); return 2; }
    int mode = !strcmp(argv[1], "count") ? 0 : !strcmp(argv[1], "kill") ? 1 : !strcmp(argv[1], "int") ? 2 : !strcmp(argv[1], "intany") ? 3 : -1;
    long k = 0; int ai = 2;
    if (mode < 0) return 2;
    if (mode) { k = atol(argv[2]); ai = 3; }
    if (strcmp(argv[ai], "--")) return 2; ai++;
    pid_t const child = fork();
    if (child == 0) {
        int dn = open("/dev/null", O_RDWR);
        dup2(dn, 0); if (!getenv("KILLAT_VERBOSE")) { dup2(dn, 1); dup2(dn, 2); }
        ptrace(PTRACE_TRACEME, 0, 0, 0);
        raise(SIGSTOP);
        execvp(argv[ai], argv + ai);
        _exit(127);
    }
    int st; waitpid(child, &st, 0);
    ptrace(PTRACE_SETOPTIONS, child, 0, PTRACE_O_TRACESYSGOOD | PTRACE_O_TRACECLONE | PTRACE_O_TRACEFORK | PTRACE_O_TRACEVFORK | PTRACE_O_EXITKILL | PTRACE_O_TRACEEXEC);
    find(child);
    ptrace(PTRACE_SYSCALL, child, 0, 0);
    FILE* const logf = (mode == 0 && getenv("KILLAT_LOG")) ? fopen(getenv("KILLAT_LOG"), "w") : NULL;    /* index, syscall number, first argument of every syscall entry */
    int nSigintActions = 0, creatAfterLastSigaction = 0, creatAfterAction = 0;
    long count = 0; int mainStatus = -1; int done = 0; long actedAt = 0; long sysno = -1; int sawExec = 0;
    while (!done) {
        pid_t const p = waitpid(-1, &st, __WALL);
        if (p < 0) { if (errno == ECHILD) break; if (errno == EINTR) continue; break; }
        if (WIFEXITED(st) || WIFSIGNALED(st)) { if (p == child) { mainStatus = st; } drop(p); if (np == 0) done = 1; continue; }
        if (!WIFSTOPPED(st)) continue;
        int const idx = find(p); int sig = WSTOPSIG(st); int deliver = 0;
        if (sig == (SIGTRAP | 0x80)) {
            if (idx >= 0) inSys[idx] = !inSys[idx];
            if (idx >= 0 && inSys[idx] && sawExec) {       /* syscall entry (after the exec of the command) */
                count++;
                {   struct user_regs_struct lr;
                    if (ptrace(PTRACE_GETREGS, p, 0, &lr) == 0) {
                        if (logf) fprintf(logf, "%ld %lld %lld\n", count, (long long)lr.orig_rax, (long long)lr.rdi);
                        if (actedAt && (lr.orig_rax == SYS_openat && (lr.rdx & O_CREAT))) creatAfterAction = 1;     /* a file creation that was already under way when the signal was sent (another thread's syscall was the k-th) */
                        if (!actedAt) {      /* what happened up to and including the syscall at which the signal is injected (it completes before the signal is delivered), in this very run */
                            if (lr.orig_rax == SYS_rt_sigaction && lr.rdi == SIGINT) { nSigintActions++; creatAfterLastSigaction = 0; }
                            if (lr.orig_rax == SYS_openat && (lr.rdx & O_CREAT)) creatAfterLastSigaction = 1;
                            if (lr.orig_rax == SYS_open && (lr.rsi & O_CREAT)) creatAfterLastSigaction = 1; } } }
                if (mode && count == k && !actedAt) {
                    struct user_regs_struct regs; if (ptrace(PTRACE_GETREGS, p, 0, &regs) == 0) sysno = (long)regs.orig_rax;
                    actedAt = count;
                    if (mode == 1) { for (int i = 0; i < np; i++) kill(pids[i], SIGKILL); }
                    else if (mode == 2) syscall(SYS_tgkill, child, child, SIGINT);   /* thread-directed at the main thread: where the kernel delivers a terminal ^C when the main thread is eligible */
                    else kill(child, SIGINT);                                  /* process-directed while the stopped thread is not eligible: the handler runs on another thread */
                }
            }
        } else if ((st >> 8) == (SIGTRAP | (PTRACE_EVENT_EXEC << 8))) { sawExec = 1; if (idx >= 0) inSys[idx] = 0; }
        else if (sig == SIGTRAP && ((st >> 16) & 0xffff)) { /* clone/fork events: the new task will report with SIGSTOP */ }
        else if (sig == SIGSTOP && idx >= 0 && p != child) { /* new tracee's initial stop */ }
        else deliver = sig;
        ptrace(PTRACE_SYSCALL, p, 0, deliver);
    }
    char stbuf[64];
    if (mainStatus == -1) snprintf(stbuf, sizeof stbuf, "unknown");
    else if (WIFEXITED(mainStatus)) snprintf(stbuf, sizeof stbuf, "exit %d", WEXITSTATUS(mainStatus));
    else snprintf(stbuf, sizeof stbuf, "signal %d", WTERMSIG(mainStatus));
    if (logf) fclose(logf);
    if (mode == 0) printf("N=%ld status=%s\n", count, stbuf);
    else if (actedAt) printf("%s=%ld sysno=%ld status=%s sigint_actions_before=%d creat_after_last_sigint_action=%d\n", mode == 1 ? "killed_at" : "int_at", actedAt, sysno, stbuf, nSigintActions, creatAfterLastSigaction | creatAfterAction);
    else printf("finished N=%ld status=%s\n", count, stbuf);
    return 0;
}
