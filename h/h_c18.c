/* h_c18.c - C18: dictionary training yields a usable dictionary or an error, never a bad one.
 * --wrap=malloc fills fresh malloc() memory with seeded noise (calloc stays zero): single-thread results must not depend on it. */
#include "vcommon.h"
#include "zdict.h"
#include "refdec.h"

void* __real_malloc(size_t);
static int w_noise; static uint64_t w_state = 0x9E3779B97F4A7C15ULL;
void* __wrap_malloc(size_t n) { uint8_t* p = (uint8_t*)__real_malloc(n); if (p && w_noise) { uint64_t s = __atomic_fetch_add(&w_state, 0x9E3779B97F4A7C15ULL, __ATOMIC_RELAXED); for (size_t i = 0; i < n; i++) { s ^= s << 13; s ^= s >> 7; s ^= s << 17; p[i] = (uint8_t)s; } } return p; }

enum { A_DEFAULT, A_COVER, A_FASTCOVER, A_OPT_COVER, A_OPT_FASTCOVER, A_LEGACY, A_FINALIZE, A_ADDENTROPY, A_NB };
static const char* const a_name[A_NB] = { "trainFromBuffer", "cover", "fastCover", "optimizeCover", "optimizeFastCover", "legacy", "finalizeDictionary", "addEntropyTablesFromBuffer" };

typedef struct { int algo; unsigned k, d, f, accel, steps, nbThreads, shrink; double split; int level; unsigned notif; unsigned dictID; unsigned selectivity; } tparams;

static size_t train(const tparams* T, void* dict, size_t cap, const void* samples, const size_t* sizes, unsigned nb, const uint8_t* content, size_t contentLen)
{
    ZDICT_params_t zp; memset(&zp, 0, sizeof zp); zp.compressionLevel = T->level; zp.dictID = T->dictID;
    switch (T->algo) {
    case A_DEFAULT: return ZDICT_trainFromBuffer(dict, cap, samples, sizes, nb);
    case A_COVER: { ZDICT_cover_params_t p; memset(&p, 0, sizeof p); p.k = T->k; p.d = T->d; p.nbThreads = T->nbThreads; p.splitPoint = T->split; p.shrinkDict = T->shrink; p.zParams = zp; return ZDICT_trainFromBuffer_cover(dict, cap, samples, sizes, nb, p); }
    case A_FASTCOVER: { ZDICT_fastCover_params_t p; memset(&p, 0, sizeof p); p.k = T->k; p.d = T->d; p.f = T->f; p.accel = T->accel; p.nbThreads = T->nbThreads; p.splitPoint = T->split; p.shrinkDict = T->shrink; p.zParams = zp; return ZDICT_trainFromBuffer_fastCover(dict, cap, samples, sizes, nb, p); }
    case A_OPT_COVER: { ZDICT_cover_params_t p; memset(&p, 0, sizeof p); p.k = T->k; p.d = T->d; p.steps = T->steps; p.nbThreads = T->nbThreads; p.splitPoint = T->split; p.shrinkDict = T->shrink; p.zParams = zp; return ZDICT_optimizeTrainFromBuffer_cover(dict, cap, samples, sizes, nb, &p); }
    case A_OPT_FASTCOVER: { ZDICT_fastCover_params_t p; memset(&p, 0, sizeof p); p.k = T->k; p.d = T->d; p.f = T->f; p.accel = T->accel; p.steps = T->steps; p.nbThreads = T->nbThreads; p.splitPoint = T->split; p.shrinkDict = T->shrink; p.zParams = zp; return ZDICT_optimizeTrainFromBuffer_fastCover(dict, cap, samples, sizes, nb, &p); }
    case A_LEGACY: { ZDICT_legacy_params_t p; memset(&p, 0, sizeof p); p.selectivityLevel = T->selectivity; p.zParams = zp; return ZDICT_trainFromBuffer_legacy(dict, cap, samples, sizes, nb, p); }
    case A_FINALIZE: return ZDICT_finalizeDictionary(dict, cap, content, contentLen, samples, sizes, nb, zp);
    default: { if (contentLen > cap) return (size_t)-1; memcpy((char*)dict + cap - contentLen, content, contentLen); return ZDICT_addEntropyTablesFromBuffer(dict, contentLen, cap, samples, sizes, nb); }
    }
}

static unsigned g9_np; static uint8_t g9_plen[13001]; static uint16_t g9_order[13001 * 6]; static uint8_t g9_noise[13001 * 6];
static void run_case(long idx)
{
    vrng r = vr_make(V.seed, 118, (uint64_t)idx);
    /* ---- sample set */
    unsigned nb; size_t sizes[1200]; size_t total = 0; const char* sclass;
    int const scl = (idx % 40) == 7 ? 9 : (int)vr_u(&r, 9); int fam = vr_chance(&r, 2, 3) ? DF_TEXT : (int)vr_u(&r, DF_NB);
    switch (scl) {
    case 0: nb = vr_u(&r, 4); for (unsigned i = 0; i < nb; i++) sizes[i] = vr_u(&r, 200); sclass = "0..3-samples"; break;
    case 1: nb = 5 + vr_u(&r, 40); for (unsigned i = 0; i < nb; i++) sizes[i] = vr_u(&r, 9); sclass = "tiny-samples"; break;
    case 2: nb = 10 + vr_u(&r, 200); for (unsigned i = 0; i < nb; i++) sizes[i] = 50 + vr_u(&r, 100); fam = DF_SMALLALPHA; sclass = "tiny-alphabet"; break;
    case 3: nb = 20 + vr_u(&r, 300); for (unsigned i = 0; i < nb; i++) sizes[i] = 300; fam = DF_ZERO; sclass = "all-identical"; break;
    case 4: nb = 1; sizes[0] = 20000 + vr_u64(&r, V.thorough ? 2000000 : 500000); sclass = "one-huge-sample"; break;
    case 5: nb = 2 + vr_u(&r, 6); for (unsigned i = 0; i < nb; i++) sizes[i] = 1 + vr_u(&r, 60); sclass = "below-minimums"; break;
    case 6: nb = 300 + vr_u(&r, V.thorough ? 800 : 300); for (unsigned i = 0; i < nb; i++) sizes[i] = vr_chance(&r, 1, 10) ? 0 : 200 + vr_u(&r, V.thorough ? 3000 : 1200); sclass = "many-with-empty-samples"; break;
    case 9: {   /* 11000..13000 distinct incompressible patterns of 20..43 bytes, each occurring exactly 6 times in shuffled order, every occurrence followed by 5..11 noise bytes:
                 * more distinct repeated segments than the candidate tables of the trainers hold (10000 by default) */
        g9_np = 11000 + vr_u(&r, 2001); size_t tot9 = 0; for (unsigned i = 0; i < g9_np; i++) g9_plen[i] = (uint8_t)(20 + vr_u(&r, 24));
        unsigned const no = g9_np * 6; for (unsigned u = 0; u < no; u++) g9_order[u] = (uint16_t)(u % g9_np); for (unsigned u = no - 1; u > 0; u--) { unsigned const j = vr_u(&r, u + 1); uint16_t const t = g9_order[u]; g9_order[u] = g9_order[j]; g9_order[j] = t; }
        for (unsigned u = 0; u < no; u++) { g9_noise[u] = (uint8_t)(5 + vr_u(&r, 7)); tot9 += g9_plen[g9_order[u]] + g9_noise[u]; }
        nb = 64; for (unsigned i = 0; i < nb; i++) sizes[i] = tot9 / 64; sizes[63] = tot9 - (tot9 / 64) * 63; sclass = "10000+-distinct-repeated-segments"; break; }
    default: nb = 50 + vr_u(&r, V.thorough ? 600 : 300); for (unsigned i = 0; i < nb; i++) sizes[i] = 100 + vr_u(&r, V.thorough ? 4000 : 1500); sclass = "regular"; break;
    }
    for (unsigned i = 0; i < nb; i++) total += sizes[i];
    gbuf S = gb_alloc(total, 0);          /* sizes sum exactly to the buffer (contract); exact-size buffer: any read past it faults */
    if (scl == 3) { uint8_t pat[300]; vr_fill(&r, pat, 300); for (size_t o = 0; o + 300 <= total; o += 300) memcpy(S.p + o, pat, 300); }
    else if (scl == 9) { static uint8_t pat[13001][44]; for (unsigned i = 0; i < g9_np; i++) vr_fill(&r, pat[i], g9_plen[i]);
        size_t pos = 0; for (unsigned u = 0; u < g9_np * 6; u++) { unsigned const i = g9_order[u]; memcpy(S.p + pos, pat[i], g9_plen[i]); pos += g9_plen[i]; vr_fill(&r, S.p + pos, g9_noise[u]); pos += g9_noise[u]; } }
    else gen_data(&r, S.p, total, fam);
    /* ---- algorithm + parameters (at and beyond bounds: rejection is fine) */
    tparams T; memset(&T, 0, sizeof T); T.algo = (int)vr_u(&r, A_NB); if (scl == 9 && vr_chance(&r, 2, 3)) T.algo = A_LEGACY;
    T.d = vr_chance(&r, 1, 2) ? (vr_chance(&r, 1, 2) ? 6 : 8) : vr_chance(&r, 1, 8) ? vr_u(&r, 300) : vr_u(&r, 20); T.k = vr_chance(&r, 1, 6) ? vr_u(&r, 10) : T.d + vr_u(&r, 2000); if (vr_chance(&r, 1, 10)) T.k = 1u << 20;
    T.f = vr_chance(&r, 1, 8) ? (vr_chance(&r, 1, 2) ? vr_u(&r, 40) : vr_u(&r, 300)) : 10 + vr_u(&r, 11); T.accel = vr_chance(&r, 1, 8) ? vr_u(&r, 20) : vr_u(&r, 11); T.steps = vr_chance(&r, 1, 2) ? 0 : 1 + vr_u(&r, 6);
    T.nbThreads = (unsigned)v_opt_long("threads", -1) != (unsigned)-1 ? (unsigned)v_opt_long("threads", 1) : (vr_chance(&r, 1, 3) ? vr_u(&r, 5) : vr_u(&r, 2));
    T.split = vr_chance(&r, 1, 2) ? 0.0 : vr_chance(&r, 1, 4) ? 1.0 : 0.1 + 0.9 * (double)vr_u(&r, 100) / 100.0; T.shrink = vr_u(&r, 3) == 0; T.level = vr_chance(&r, 1, 8) ? (int)vr_range(&r, -300, 40) : (int)vr_range(&r, 0, 6); T.dictID = vr_chance(&r, 1, 3) ? 32768 + vr_u(&r, 1u << 20) : 0; if (vr_chance(&r, 1, 6)) { static const unsigned ids[] = { 0x80000000u, 0x80000001u, 0xFFFFFFFFu, 0x7FFFFFFFu, 1u, 0xC0000000u }; T.dictID = ids[vr_u(&r, 6)]; if (vr_chance(&r, 1, 3)) T.dictID = 0x80000000u + vr_u(&r, 1u << 30); }      /* forced IDs over the whole 32-bit range */ T.selectivity = vr_u(&r, 12);
    if ((T.algo == A_OPT_COVER || T.algo == A_OPT_FASTCOVER) && (total > 400000 || !V.thorough)) T.steps = 1 + vr_u(&r, 3);
    size_t cap; switch (vr_u(&r, 6)) { case 0: cap = vr_u(&r, 300); break; case 1: cap = 256 + vr_u(&r, 1000); break; default: cap = 1000 + vr_u64(&r, 110000); }
    size_t const contentLen = (T.algo == A_FINALIZE || T.algo == A_ADDENTROPY) ? (vr_chance(&r, 1, 5) ? vr_u(&r, 9) : vr_u64(&r, V_MIN(cap, (size_t)60000) + 1)) : 0;
    uint8_t* content = (uint8_t*)__real_malloc(contentLen + 8); gen_data(&r, content, contentLen, fam);
    char desc[400]; snprintf(desc, sizeof desc, "algo=%s samples=%s nb=%u total=%zu cap=%zu k=%u d=%u f=%u accel=%u steps=%u threads=%u split=%.2f shrink=%u level=%d dictID=%u content=%zu", a_name[T.algo], sclass, nb, total, cap, T.k, T.d, T.f, T.accel, T.steps, T.nbThreads, T.split, T.shrink, T.level, T.dictID, contentLen);
    if (getenv("VERIF_DBG")) fprintf(stderr, "DESC %s\n", desc);
    gbuf D = gb_alloc(cap, 0);
    w_noise = 1; w_state = vr_next(&r);
    size_t const ds = train(&T, D.p, cap, S.p, sizes, nb, content, contentLen);
    w_noise = 0;
    v_stat("trainings", 1);
    if (!gb_ok(&D)) v_viol("capacity:trainer-wrote-outside-the-dictionary-buffer", "%s", desc);
    const char* outcome = ZDICT_isError(ds) ? "error" : ds == 0 ? "zero(no dictionary)" : "dictionary";
    v_cell("outcome", "%s|%s|%s", a_name[T.algo], sclass, outcome);
    if (!ZDICT_isError(ds) && ds > cap) v_viol("capacity:returned-size-exceeds-capacity", "%s -> %zu", desc, ds);
    else if (!ZDICT_isError(ds) && ds > 0) {
        /* loadable on both sides, non-zero consistent ID, every sample round-trips */
        ZSTD_CDict* cd = ZSTD_createCDict(D.p, ds, 3); ZSTD_DDict* dd = ZSTD_createDDict(D.p, ds);
        if (!cd || !dd) { ZSTD_CCtx* cc = ZSTD_createCCtx(); size_t e = ZSTD_compressBegin_usingDict(cc, D.p, ds, 3); ZSTD_freeCCtx(cc);
            /* locate the content: header size = ds - content; report how much content is left */
            v_viol(T.algo == A_ADDENTROPY || T.algo == A_LEGACY ? "usable:result-not-loadable:entropy-tables-added-to-tiny-content" : "usable:result-not-loadable", "%s size=%zu cdict=%s ddict=%s loader says: %s; header %02x%02x%02x%02x id=%u", desc, ds, cd ? "ok" : "NULL", dd ? "ok" : "NULL", ZSTD_getErrorName(e), D.p[0], D.p[1], D.p[2], D.p[3], ZDICT_getDictID(D.p, ds)); }
        else {
            unsigned const i1 = ZDICT_getDictID(D.p, ds), i2 = ZSTD_getDictID_fromDict(D.p, ds), i3 = ZSTD_getDictID_fromCDict(cd), i4 = ZSTD_getDictID_fromDDict(dd);
            if (i1 == 0 || i1 != i2 || i1 != i3 || i1 != i4) v_viol("usable:dictID-zero-or-inconsistent", "%s ZDICT=%u fromDict=%u fromCDict=%u fromDDict=%u", desc, i1, i2, i3, i4);
            if (T.dictID && i1 != T.dictID && T.algo != A_DEFAULT && T.algo != A_ADDENTROPY) v_viol("usable:requested-dictID-not-used", "%s got %u", desc, i1);
            ZSTD_CCtx* c = ZSTD_createCCtx(); ZSTD_DCtx* d = ZSTD_createDCtx(); size_t off = 0; unsigned const stepS = nb > 40 ? nb / 40 : 1;
            refdec_dict_t* rd = refdec_dict_create(D.p, ds, 0);
            for (unsigned i = 0; i < nb; i++) { if (i % stepS == 0) { size_t const n = sizes[i]; size_t const cc = ZSTD_compressBound(n); uint8_t* dst = (uint8_t*)__real_malloc(cc + 1); uint8_t* out = (uint8_t*)__real_malloc(n + 1);
                    size_t const cs = ZSTD_compress_usingCDict(c, dst, cc, S.p + off, n, cd); size_t const rs = ZSTD_isError(cs) ? cs : ZSTD_decompress_usingDDict(d, out, n, dst, cs, dd);
                    if (ZSTD_isError(rs) || rs != n || memcmp(out, S.p + off, n)) v_viol("usable:sample-does-not-round-trip", "%s sample %u (%zu bytes): %s", desc, i, n, ZSTD_isError(rs) ? ZSTD_getErrorName(rs) : "mismatch");
                    else if (rd) { refdec_info_t I; memset(&I, 0, sizeof I); if (!refdec_decode(out, n, dst, cs, rd, &I, 0) || I.out_size != n || memcmp(out, S.p + off, n)) v_viol("usable:sample-does-not-round-trip(R)", "%s sample %u: %s", desc, i, I.err ? I.err : "mismatch"); refdec_info_free(&I); }
                    v_stat("sample_roundtrips", 1); free(dst); free(out); }
                off += sizes[i]; }
            if (!rd) v_viol("usable:R-cannot-parse-the-dictionary", "%s size=%zu", desc, ds);
            refdec_dict_free(rd); ZSTD_freeCCtx(c); ZSTD_freeDCtx(d);
        }
        ZSTD_freeCDict(cd); ZSTD_freeDDict(dd);
        /* single-thread determinism: same inputs and parameters, different heap noise => same bytes */
        if (T.nbThreads <= 1) {
            gbuf D2 = gb_alloc(cap, 0); w_noise = 1; w_state = vr_next(&r) ^ 0xABCDEF; { void* junk[8]; for (int j = 0; j < 8; j++) junk[j] = malloc(1 + vr_u(&r, 70000)); for (int j = 0; j < 8; j++) free(junk[j]); }
            size_t const ds2 = train(&T, D2.p, cap, S.p, sizes, nb, content, contentLen); w_noise = 0;
            if (ds2 != ds || memcmp(D.p, D2.p, ds)) v_viol("determinism:single-thread-training-returns-different-bytes", "%s first=%zu second=%zu", desc, ds, ZDICT_isError(ds2) ? 0 : ds2);
            v_stat("determinism_pairs", 1); gb_free(&D2);
        }
    }
    if (scl == 0 || scl == 1 || scl == 5) v_stat("degenerate_sets", 1);
    v_sample("%s -> %s%s", desc, outcome, ZDICT_isError(ds) ? ZDICT_getErrorName(ds) : "");
    free(content); gb_free(&D); gb_free(&S);
}

int main(int argc, char** argv)
{
    v_init(argc, argv);
    for (long i = V.from; i < V.to; i++) { v_case(i); v_budget(1500); run_case(i); }
    return v_finish();
}
