/* h_c13.c - C13: allocation failure anywhere -> clean error, no crash, no leak, context reusable.
 * Fault allocator = ZSTD_customMem (domain "custom") and --wrap=malloc/calloc/free (domain "default").
 * case index = scenario*10000 + k  (k = index of the failing allocation, 1-based); k = 0 is the counting run.
 * A second fault j allocations later is selected with fault2=j. */
#include "vcommon.h"
#include "zdict.h"
#include <pthread.h>
#include <execinfo.h>

/* ---------------------------------------------------------------- fault allocator (custom domain) */
#define FA_MAGIC 0x5AFEA110C8ED0001ULL
typedef struct fa_hdr { uint64_t magic; size_t size; long idx; struct fa_hdr *prev, *next; uint64_t pad[3]; } fa_hdr; /* 64 bytes */
static pthread_mutex_t fa_mu = PTHREAD_MUTEX_INITIALIZER;
static fa_hdr fa_live = { 0, 0, 0, &fa_live, &fa_live, {0,0,0} };
static long fa_count, fa_failAt, fa_failAt2, fa_nlive, fa_failed, fa_foreign, fa_armed = 1;
static size_t fa_liveBytes, fa_peakBytes;
static void* fa_failSite[6]; static int fa_failSiteN;
static int fa_fill = 0xAA;

static void* fa_alloc(void* opaque, size_t size)
{
    (void)opaque;
    pthread_mutex_lock(&fa_mu);
    long const idx = ++fa_count;
    if (fa_armed && (idx == fa_failAt || idx == fa_failAt2)) {
        fa_failed++;
        if (idx == fa_failAt) fa_failSiteN = backtrace(fa_failSite, 6);
        pthread_mutex_unlock(&fa_mu);
        if (getenv("VERIF_C13_TRACE")) { void* bt[12]; int n = backtrace(bt, 12); fprintf(stderr, "[fault] custom alloc #%ld (%zu bytes) fails at:\n", idx, size); backtrace_symbols_fd(bt, n, 2); }
        return NULL;
    }
    pthread_mutex_unlock(&fa_mu);
    fa_hdr* h = (fa_hdr*)malloc(sizeof(fa_hdr) + size + 32);
    if (!h) return NULL;
    h->magic = FA_MAGIC; h->size = size; h->idx = idx;
    memset((uint8_t*)(h + 1) + size, 0xFB, 32);
    memset(h + 1, fa_fill, size);
    pthread_mutex_lock(&fa_mu);
    h->next = fa_live.next; h->prev = &fa_live; fa_live.next->prev = h; fa_live.next = h; fa_nlive++;
    fa_liveBytes += size; if (fa_liveBytes > fa_peakBytes) fa_peakBytes = fa_liveBytes;
    pthread_mutex_unlock(&fa_mu);
    return h + 1;
}
static const char* g_scen = "?";
static void fa_free(void* opaque, void* p)
{
    (void)opaque;
    if (!p) return;
    pthread_mutex_lock(&fa_mu);
    fa_hdr* h = NULL;
    for (fa_hdr* e = fa_live.next; e != &fa_live; e = e->next) if ((void*)(e + 1) == p) { h = e; break; }
    if (!h) { fa_foreign++; pthread_mutex_unlock(&fa_mu); return; }   /* double free or a pointer we never handed out */
    h->prev->next = h->next; h->next->prev = h->prev; fa_nlive--; fa_liveBytes -= h->size;
    pthread_mutex_unlock(&fa_mu);
    for (int i = 0; i < 32; i++) if (((uint8_t*)(h + 1))[h->size + i] != 0xFB) { v_viol("custom:redzone-damaged", "scenario=%s alloc#%ld size=%zu", g_scen, h->idx, h->size); break; }
    h->magic = 0;
    free(h);
}
static ZSTD_customMem const g_cmem = { fa_alloc, fa_free, NULL };

/* ---------------------------------------------------------------- default domain: --wrap=malloc,calloc,free */
void* __real_malloc(size_t); void* __real_calloc(size_t, size_t); void __real_free(void*);
static int w_armed; static long w_count, w_failAt, w_failAt2, w_failed; static void* w_failSite[6]; static int w_failSiteN;
#define W_MAXLIVE 65536
static void* w_live[W_MAXLIVE]; static long w_nlive; static pthread_mutex_t w_mu = PTHREAD_MUTEX_INITIALIZER;
static void w_track(void* p) { if (!p) return; pthread_mutex_lock(&w_mu); if (w_nlive < W_MAXLIVE) w_live[w_nlive++] = p; pthread_mutex_unlock(&w_mu); }
static int w_gate(void)
{   /* returns 1 if this allocation must fail */
    int fail = 0;
    pthread_mutex_lock(&w_mu);
    long const idx = ++w_count;
    if (idx == w_failAt || idx == w_failAt2) { fail = 1; w_failed++; if (idx == w_failAt) { w_armed = 0; w_failSiteN = backtrace(w_failSite, 6); w_armed = 1; } }
    pthread_mutex_unlock(&w_mu);
    return fail;
}
void* __wrap_malloc(size_t n) { if (!w_armed) return __real_malloc(n); if (w_gate()) return NULL; { void* p = __real_malloc(n); if (p) memset(p, 0xAA, n); w_track(p); return p; } }
void* __wrap_calloc(size_t a, size_t b) { if (!w_armed) return __real_calloc(a, b); if (w_gate()) return NULL; { void* p = __real_calloc(a, b); w_track(p); return p; } }
void __wrap_free(void* p)
{
    if (p) { pthread_mutex_lock(&w_mu); for (long i = 0; i < w_nlive; i++) if (w_live[i] == p) { w_live[i] = w_live[--w_nlive]; break; } pthread_mutex_unlock(&w_mu); }
    __real_free(p);
}

/* ---------------------------------------------------------------- scenario helpers */
static uint8_t *g_src, *g_dst, *g_out, *g_dict; static size_t g_srcSize, g_dstCap, g_dictSize;
static uint8_t* g_frames[4]; static size_t g_frameSize[4];     /* pre-made frames for the decode scenarios (made with injection off) */

#define ST_OK 0          /* everything succeeded */
#define ST_FAILED 1      /* clean failure reported (NULL / error code) */
static int g_recovered;  /* recovery verified in this run */

static int rt(const void* c, size_t csz, size_t n, const void* dict, size_t dlen)
{
    long const a = fa_armed; int const wa = w_armed; fa_armed = 0; w_armed = 0; int ok;
    ZSTD_DCtx* d = ZSTD_createDCtx();
    size_t const r = dict ? ZSTD_decompress_usingDict(d, g_out, n, c, csz, dict, dlen) : ZSTD_decompressDCtx(d, g_out, n, c, csz);
    ZSTD_freeDCtx(d);
    ok = !ZSTD_isError(r) && r == n && !memcmp(g_out, g_src, n);
    fa_armed = a; w_armed = wa;
    return ok;
}
static size_t stream_compress(ZSTD_CCtx* c, size_t n, size_t chunk, int flushEvery)
{
    ZSTD_inBuffer in = { g_src, 0, 0 }; ZSTD_outBuffer out = { g_dst, g_dstCap, 0 }; int k = 0;
    while (in.size < n) {
        in.size = V_MIN(n, in.size + chunk);
        ZSTD_EndDirective const dir = (in.size == n) ? ZSTD_e_end : (flushEvery && (++k % flushEvery) == 0) ? ZSTD_e_flush : ZSTD_e_continue;
        size_t rem; int guard = 0;
        do { rem = ZSTD_compressStream2(c, &out, &in, dir); if (ZSTD_isError(rem)) return rem; if (++guard > 100000) return (size_t)-ZSTD_error_GENERIC; } while ((dir == ZSTD_e_continue) ? (in.pos < in.size) : (rem != 0));
    }
    if (n == 0) { size_t rem = ZSTD_compressStream2(c, &out, &in, ZSTD_e_end); if (ZSTD_isError(rem)) return rem; }
    return out.pos;
}
/* compress op on an existing context; on failure: reset session, retry with memory available, must round-trip */
typedef size_t (*op_fn)(ZSTD_CCtx*, void*);
static int g_abandonMode, g_abandoned;   /* abandon=1: after the first failed operation the scenario stops using the object and frees it at once (no reset, no retry) */
static int cctx_op_with_recovery(ZSTD_CCtx* c, op_fn op, void* arg, size_t n, const void* dict, size_t dlen, const char* what)
{
    if (g_abandoned) return ST_FAILED;
    size_t r = op(c, arg);
    if (ZSTD_isError(r) && g_abandonMode) { g_abandoned = 1; return ST_FAILED; }
    if (!ZSTD_isError(r)) {
        if (!rt(g_dst, r, n, dict, dlen)) v_viol("wrong-output-after-success", "scenario=%s op=%s: compression reported success (alloc failures injected: %ld) but frame does not round-trip", g_scen, what, fa_failed + w_failed);
        return ST_OK;
    }
    /* clean failure; now recovery */
    {   long const a = fa_armed; int const wa = w_armed; fa_armed = 0; w_armed = 0;
        ZSTD_CCtx_reset(c, ZSTD_reset_session_only);
        r = op(c, arg);
        if (ZSTD_isError(r)) v_viol("unrecoverable-after-failure", "scenario=%s op=%s: after reset(session) with memory available the same operation fails: %s", g_scen, what, ZSTD_getErrorName(r));
        else if (!rt(g_dst, r, n, dict, dlen)) v_viol("wrong-output-after-recovery", "scenario=%s op=%s", g_scen, what);
        else g_recovered++;
        fa_armed = a; w_armed = wa;
    }
    return ST_FAILED;
}
static size_t op_compress2(ZSTD_CCtx* c, void* arg) { size_t n = *(size_t*)arg; return ZSTD_compress2(c, g_dst, g_dstCap, g_src, n); }
typedef struct { size_t n, chunk; int flushEvery; } stream_arg;
static size_t op_stream(ZSTD_CCtx* c, void* arg) { stream_arg* a = (stream_arg*)arg; return stream_compress(c, a->n, a->chunk, a->flushEvery); }

/* ---------------------------------------------------------------- scenarios (custom domain) */
static int sc_cctx_levels(void)
{   /* create, compress at level 1, then level 19 (workspace grows), then level 3 with a bigger input */
    ZSTD_CCtx* c = ZSTD_createCCtx_advanced(g_cmem); if (!c) return ST_FAILED;
    int st = ST_OK; size_t n = 60000;
    ZSTD_CCtx_setParameter(c, ZSTD_c_compressionLevel, 1);
    st |= cctx_op_with_recovery(c, op_compress2, &n, n, NULL, 0, "compress2-L1");
    ZSTD_CCtx_setParameter(c, ZSTD_c_compressionLevel, 19);
    st |= cctx_op_with_recovery(c, op_compress2, &n, n, NULL, 0, "compress2-L19");
    n = 400000; ZSTD_CCtx_setParameter(c, ZSTD_c_compressionLevel, 5); ZSTD_CCtx_setParameter(c, ZSTD_c_checksumFlag, 1);
    st |= cctx_op_with_recovery(c, op_compress2, &n, n, NULL, 0, "compress2-L5-big");
    ZSTD_freeCCtx(c); return st;
}
static int sc_cctx_simple_api(void)
{
    ZSTD_CCtx* c = ZSTD_createCCtx_advanced(g_cmem); if (!c) return ST_FAILED;
    int st = ST_OK; size_t n = 100000;
    size_t r = ZSTD_compressCCtx(c, g_dst, g_dstCap, g_src, n, 6);
    if (ZSTD_isError(r)) { st = ST_FAILED; long a = fa_armed; fa_armed = 0; r = ZSTD_compressCCtx(c, g_dst, g_dstCap, g_src, n, 6); if (ZSTD_isError(r) || !rt(g_dst, r, n, NULL, 0)) v_viol("unrecoverable-after-failure", "scenario=%s op=compressCCtx retry: %s", g_scen, ZSTD_isError(r) ? ZSTD_getErrorName(r) : "bad round trip"); else g_recovered++; fa_armed = a; }
    else if (!rt(g_dst, r, n, NULL, 0)) v_viol("wrong-output-after-success", "scenario=%s op=compressCCtx", g_scen);
    r = ZSTD_compress_usingDict(c, g_dst, g_dstCap, g_src, n, g_dict, g_dictSize, 3);
    if (ZSTD_isError(r)) { st = ST_FAILED; long a = fa_armed; fa_armed = 0; r = ZSTD_compress_usingDict(c, g_dst, g_dstCap, g_src, n, g_dict, g_dictSize, 3); if (ZSTD_isError(r) || !rt(g_dst, r, n, g_dict, g_dictSize)) v_viol("unrecoverable-after-failure", "scenario=%s op=compress_usingDict retry", g_scen); else g_recovered++; fa_armed = a; }
    else if (!rt(g_dst, r, n, g_dict, g_dictSize)) v_viol("wrong-output-after-success", "scenario=%s op=compress_usingDict", g_scen);
    ZSTD_freeCCtx(c); return st;
}
static int sc_cstream(void)
{
    ZSTD_CStream* c = ZSTD_createCStream_advanced(g_cmem); if (!c) return ST_FAILED;
    int st = ST_OK; stream_arg a = { 300000, 7000, 5 };
    ZSTD_CCtx_setParameter(c, ZSTD_c_compressionLevel, 4);
    st |= cctx_op_with_recovery(c, op_stream, &a, a.n, NULL, 0, "stream-L4");
    ZSTD_CCtx_setParameter(c, ZSTD_c_compressionLevel, 12); ZSTD_CCtx_setParameter(c, ZSTD_c_windowLog, 21);
    a.n = 500000; a.chunk = 130000; a.flushEvery = 0;
    st |= cctx_op_with_recovery(c, op_stream, &a, a.n, NULL, 0, "stream-L12-w21");
    ZSTD_freeCStream(c); return st;
}
static int sc_cctx_ldm(void)
{
    ZSTD_CCtx* c = ZSTD_createCCtx_advanced(g_cmem); if (!c) return ST_FAILED;
    int st = ST_OK; size_t n = 600000; stream_arg a = { 600000, 100000, 2 };
    ZSTD_CCtx_setParameter(c, ZSTD_c_enableLongDistanceMatching, 1); ZSTD_CCtx_setParameter(c, ZSTD_c_windowLog, 20);
    st |= cctx_op_with_recovery(c, op_compress2, &n, n, NULL, 0, "ldm-compress2");
    st |= cctx_op_with_recovery(c, op_stream, &a, a.n, NULL, 0, "ldm-stream");
    ZSTD_freeCCtx(c); return st;
}
static int sc_cctx_mt(void)
{
    ZSTD_CCtx* c = ZSTD_createCCtx_advanced(g_cmem); if (!c) return ST_FAILED;
    int st = ST_OK; stream_arg a = { 2500000, 300000, 0 }; size_t n = 1200000;
    if (ZSTD_isError(ZSTD_CCtx_setParameter(c, ZSTD_c_nbWorkers, 2))) { ZSTD_freeCCtx(c); return ST_FAILED; }
    ZSTD_CCtx_setParameter(c, ZSTD_c_jobSize, 1); ZSTD_CCtx_setParameter(c, ZSTD_c_checksumFlag, 1);
    st |= cctx_op_with_recovery(c, op_stream, &a, a.n, NULL, 0, "mt-stream");
    st |= cctx_op_with_recovery(c, op_compress2, &n, n, NULL, 0, "mt-compress2");
    ZSTD_freeCCtx(c); return st;
}
static int sc_cctx_mt_sizes(void)
{   /* one MT context, frames whose jobs need buffers of different size classes (pooled buffers are dropped and re-allocated); mostly single-job frames,
     * so that which allocation fails does not depend on the schedule */
    ZSTD_CCtx* c = ZSTD_createCCtx_advanced(g_cmem); if (!c) return ST_FAILED;
    int st = ST_OK; size_t n = 600000; size_t n2 = 1100000; stream_arg a = { 600000, 200000, 0 };
    if (ZSTD_isError(ZSTD_CCtx_setParameter(c, ZSTD_c_nbWorkers, 2))) { ZSTD_freeCCtx(c); return ST_FAILED; }
    ZSTD_CCtx_setParameter(c, ZSTD_c_jobSize, 1 << 20);
    st |= cctx_op_with_recovery(c, op_compress2, &n, n, NULL, 0, "mt-job1M");
    ZSTD_CCtx_setParameter(c, ZSTD_c_jobSize, 16 << 20);
    st |= cctx_op_with_recovery(c, op_compress2, &n, n, NULL, 0, "mt-job16M");
    ZSTD_CCtx_setParameter(c, ZSTD_c_jobSize, 1 << 20); ZSTD_CCtx_setParameter(c, ZSTD_c_compressionLevel, 6);
    st |= cctx_op_with_recovery(c, op_stream, &a, a.n, NULL, 0, "mt-job1M-stream");
    ZSTD_CCtx_setParameter(c, ZSTD_c_jobSize, 1); ZSTD_CCtx_setParameter(c, ZSTD_c_overlapLog, 9); ZSTD_CCtx_setParameter(c, ZSTD_c_windowLog, 17);
    st |= cctx_op_with_recovery(c, op_compress2, &n2, n2, NULL, 0, "mt-job512K-overlap9-multi-job");
    ZSTD_CCtx_setParameter(c, ZSTD_c_jobSize, 4 << 20); ZSTD_CCtx_setParameter(c, ZSTD_c_windowLog, 21);
    st |= cctx_op_with_recovery(c, op_compress2, &n, n, NULL, 0, "mt-job4M-w21");
    ZSTD_freeCCtx(c); return st;
}
static int sc_cctx_mt_resize(void)
{   /* worker count changes between frames (pools are expanded) */
    ZSTD_CCtx* c = ZSTD_createCCtx_advanced(g_cmem); if (!c) return ST_FAILED;
    int st = ST_OK; size_t n = 1300000;
    ZSTD_CCtx_setParameter(c, ZSTD_c_nbWorkers, 1); ZSTD_CCtx_setParameter(c, ZSTD_c_jobSize, 1);
    st |= cctx_op_with_recovery(c, op_compress2, &n, n, NULL, 0, "mt1");
    ZSTD_CCtx_setParameter(c, ZSTD_c_nbWorkers, 3);
    st |= cctx_op_with_recovery(c, op_compress2, &n, n, NULL, 0, "mt3");
    ZSTD_CCtx_setParameter(c, ZSTD_c_nbWorkers, 4); ZSTD_CCtx_setParameter(c, ZSTD_c_enableLongDistanceMatching, 1);
    st |= cctx_op_with_recovery(c, op_compress2, &n, n, NULL, 0, "mt4-ldm");
    ZSTD_CCtx_setParameter(c, ZSTD_c_nbWorkers, 0);
    st |= cctx_op_with_recovery(c, op_compress2, &n, n, NULL, 0, "back-to-st");
    ZSTD_freeCCtx(c); return st;
}
static size_t op_usingCDict(ZSTD_CCtx* c, void* arg) { return ZSTD_compress_usingCDict(c, g_dst, g_dstCap, g_src, 90000, (ZSTD_CDict*)arg); }
static int sc_cdict(void)
{
    int st = ST_OK;
    ZSTD_CDict* cd1 = ZSTD_createCDict_advanced(g_dict, g_dictSize, ZSTD_dlm_byCopy, ZSTD_dct_auto, ZSTD_getCParams(3, 0, g_dictSize), g_cmem);
    ZSTD_CDict* cd2 = ZSTD_createCDict_advanced(g_dict, g_dictSize, ZSTD_dlm_byRef, ZSTD_dct_rawContent, ZSTD_getCParams(15, 0, g_dictSize), g_cmem);
    ZSTD_CCtx* c = ZSTD_createCCtx_advanced(g_cmem);
    if (!cd1 || !cd2 || !c) st = ST_FAILED;
    if (c && cd1) st |= cctx_op_with_recovery(c, op_usingCDict, cd1, 90000, g_dict, g_dictSize, "usingCDict-copy");
    if (c && cd2) st |= cctx_op_with_recovery(c, op_usingCDict, cd2, 90000, g_dict, g_dictSize, "usingCDict-ref");
    if (c && cd1) { size_t n = 90000; if (ZSTD_isError(ZSTD_CCtx_refCDict(c, cd1))) st = ST_FAILED; else { st |= cctx_op_with_recovery(c, op_compress2, &n, n, g_dict, g_dictSize, "refCDict+compress2"); } }
    ZSTD_freeCCtx(c); ZSTD_freeCDict(cd1); ZSTD_freeCDict(cd2); return st;
}
static int sc_loaddict(void)
{
    ZSTD_CCtx* c = ZSTD_createCCtx_advanced(g_cmem); if (!c) return ST_FAILED;
    int st = ST_OK; size_t n = 150000;
    size_t r = ZSTD_CCtx_loadDictionary(c, g_dict, g_dictSize);
    if (ZSTD_isError(r)) { st = ST_FAILED; long a = fa_armed; fa_armed = 0; r = ZSTD_CCtx_loadDictionary(c, g_dict, g_dictSize); fa_armed = a; if (ZSTD_isError(r)) v_viol("unrecoverable-after-failure", "scenario=%s op=loadDictionary retry: %s", g_scen, ZSTD_getErrorName(r)); else g_recovered++; }
    ZSTD_CCtx_setParameter(c, ZSTD_c_compressionLevel, 7);
    st |= cctx_op_with_recovery(c, op_compress2, &n, n, g_dict, g_dictSize, "loadDictionary+compress2");
    ZSTD_CCtx_setParameter(c, ZSTD_c_forceAttachDict, ZSTD_dictForceLoad);
    st |= cctx_op_with_recovery(c, op_compress2, &n, n, g_dict, g_dictSize, "loadDictionary+forceLoad");
    {   stream_arg a = { 150000, 9000, 3 }; st |= cctx_op_with_recovery(c, op_stream, &a, a.n, g_dict, g_dictSize, "loadDictionary+stream"); }
    ZSTD_freeCCtx(c); return st;
}
static size_t op_prefix(ZSTD_CCtx* c, void* arg) { size_t n = *(size_t*)arg; size_t e = ZSTD_CCtx_refPrefix(c, g_dict, g_dictSize); if (ZSTD_isError(e)) return e; return ZSTD_compress2(c, g_dst, g_dstCap, g_src, n); }
static int sc_prefix(void)
{
    ZSTD_CCtx* c = ZSTD_createCCtx_advanced(g_cmem); if (!c) return ST_FAILED;
    size_t n = 120000; ZSTD_CCtx_setParameter(c, ZSTD_c_compressionLevel, 9);
    int st = cctx_op_with_recovery(c, op_prefix, &n, n, g_dict, g_dictSize, "refPrefix+compress2");
    ZSTD_freeCCtx(c); return st;
}
static size_t op_seqs(ZSTD_CCtx* c, void* arg)
{
    size_t const n = *(size_t*)arg; size_t const cap = ZSTD_sequenceBound(n);
    long const a = fa_armed; fa_armed = 0;   /* harness-owned array: through libc, not under test */
    ZSTD_Sequence* seqs = (ZSTD_Sequence*)malloc(cap * sizeof(ZSTD_Sequence));
    fa_armed = a;
    size_t r;
    {   ZSTD_CCtx* g = ZSTD_createCCtx_advanced(g_cmem);
        if (!g) { free(seqs); return (size_t)-ZSTD_error_memory_allocation; }
        r = ZSTD_generateSequences(g, seqs, cap, g_src, n);
        ZSTD_freeCCtx(g); }
    if (!ZSTD_isError(r)) r = ZSTD_compressSequences(c, g_dst, g_dstCap, seqs, r, g_src, n);
    free(seqs); return r;
}
static int sc_sequences(void)
{
    ZSTD_CCtx* c = ZSTD_createCCtx_advanced(g_cmem); if (!c) return ST_FAILED;
    size_t n = 200000; ZSTD_CCtx_setParameter(c, ZSTD_c_blockDelimiters, ZSTD_sf_explicitBlockDelimiters);
    int st = cctx_op_with_recovery(c, op_seqs, &n, n, NULL, 0, "generateSequences+compressSequences");
    ZSTD_freeCCtx(c); return st;
}
static int sc_threadpool(void)
{   /* shared pool via refThreadPool; pool itself uses the default allocator (counted there) */
    ZSTD_threadPool* tp = ZSTD_createThreadPool(2);
    ZSTD_CCtx* c = ZSTD_createCCtx_advanced(g_cmem);
    int st = ST_OK; size_t n = 1100000;
    if (!tp || !c) { ZSTD_freeCCtx(c); ZSTD_freeThreadPool(tp); return ST_FAILED; }
    ZSTD_CCtx_refThreadPool(c, tp); ZSTD_CCtx_setParameter(c, ZSTD_c_nbWorkers, 2); ZSTD_CCtx_setParameter(c, ZSTD_c_jobSize, 1);
    st |= cctx_op_with_recovery(c, op_compress2, &n, n, NULL, 0, "refThreadPool+mt");
    ZSTD_freeCCtx(c); ZSTD_freeThreadPool(tp); return st;
}
/* decode side */
static int dec_check(size_t r, size_t n, const char* what, ZSTD_DCtx* d, int frame, const void* dict, size_t dlen)
{
    if (!ZSTD_isError(r)) { if (r != n || memcmp(g_out, g_src, n)) v_viol("wrong-output-after-success", "scenario=%s op=%s", g_scen, what); return ST_OK; }
    {   long const a = fa_armed; fa_armed = 0;
        ZSTD_DCtx_reset(d, ZSTD_reset_session_only);
        size_t r2 = dict ? ZSTD_decompress_usingDict(d, g_out, n, g_frames[frame], g_frameSize[frame], dict, dlen) : ZSTD_decompressDCtx(d, g_out, n, g_frames[frame], g_frameSize[frame]);
        if (ZSTD_isError(r2) || r2 != n || memcmp(g_out, g_src, n)) v_viol("unrecoverable-after-failure", "scenario=%s op=%s: retry after reset fails: %s", g_scen, what, ZSTD_isError(r2) ? ZSTD_getErrorName(r2) : "mismatch");
        else g_recovered++;
        fa_armed = a; }
    return ST_FAILED;
}
static size_t stream_decompress(ZSTD_DCtx* d, int frame, size_t inChunk, size_t outChunk, size_t n)
{
    ZSTD_inBuffer in = { g_frames[frame], 0, 0 }; ZSTD_outBuffer out = { g_out, 0, 0 }; size_t const fs = g_frameSize[frame]; int guard = 0;
    for (;;) {
        in.size = V_MIN(fs, in.pos + inChunk); out.size = V_MIN(n, out.pos + outChunk);
        size_t const r = ZSTD_decompressStream(d, &out, &in);
        if (ZSTD_isError(r)) return r;
        if (r == 0 && in.pos == fs) return out.pos;
        if (++guard > 2000000) return (size_t)-ZSTD_error_GENERIC;
        if (in.pos == fs && out.pos == n) return (size_t)-ZSTD_error_srcSize_wrong;
    }
}
static int sc_dctx(void)
{
    ZSTD_DCtx* d = ZSTD_createDCtx_advanced(g_cmem); if (!d) return ST_FAILED;
    int st = ST_OK;
    st |= dec_check(ZSTD_decompressDCtx(d, g_out, 300000, g_frames[0], g_frameSize[0]), 300000, "decompressDCtx", d, 0, NULL, 0);
    st |= dec_check(ZSTD_decompress_usingDict(d, g_out, 90000, g_frames[2], g_frameSize[2], g_dict, g_dictSize), 90000, "decompress_usingDict", d, 2, g_dict, g_dictSize);
    ZSTD_freeDCtx(d); return st;
}
static int sc_dstream(void)
{
    ZSTD_DStream* d = ZSTD_createDStream_advanced(g_cmem); if (!d) return ST_FAILED;
    int st = ST_OK;
    st |= dec_check(stream_decompress(d, 1, 1000, 3000, 200000), 200000, "decompressStream-small-window", d, 1, NULL, 0);
    st |= dec_check(stream_decompress(d, 0, 5000, 70000, 300000), 300000, "decompressStream-bigger-window", d, 0, NULL, 0);   /* buffers must grow */
    st |= dec_check(stream_decompress(d, 3, 4096, 4096, 700000), 700000, "decompressStream-w22", d, 3, NULL, 0);
    ZSTD_freeDStream(d); return st;
}
static int sc_ddict(void)
{
    int st = ST_OK;
    ZSTD_DDict* dd = ZSTD_createDDict_advanced(g_dict, g_dictSize, ZSTD_dlm_byCopy, ZSTD_dct_auto, g_cmem);
    ZSTD_DCtx* d = ZSTD_createDCtx_advanced(g_cmem);
    if (!dd || !d) { ZSTD_freeDDict(dd); ZSTD_freeDCtx(d); return ST_FAILED; }
    {   size_t r = ZSTD_decompress_usingDDict(d, g_out, 90000, g_frames[2], g_frameSize[2], dd);
        st |= dec_check(r, 90000, "decompress_usingDDict", d, 2, g_dict, g_dictSize); }
    {   size_t r = ZSTD_DCtx_loadDictionary(d, g_dict, g_dictSize);
        if (ZSTD_isError(r)) { st = ST_FAILED; long a = fa_armed; fa_armed = 0; r = ZSTD_DCtx_loadDictionary(d, g_dict, g_dictSize); fa_armed = a; if (ZSTD_isError(r)) v_viol("unrecoverable-after-failure", "scenario=%s op=DCtx_loadDictionary retry", g_scen); else g_recovered++; }
        r = ZSTD_decompressDCtx(d, g_out, 90000, g_frames[2], g_frameSize[2]);
        if (ZSTD_isError(r)) { st = ST_FAILED; long a = fa_armed; fa_armed = 0; ZSTD_DCtx_reset(d, ZSTD_reset_session_only); r = ZSTD_decompressDCtx(d, g_out, 90000, g_frames[2], g_frameSize[2]); fa_armed = a;
            if (ZSTD_isError(r) || r != 90000 || memcmp(g_out, g_src, 90000)) v_viol("unrecoverable-after-failure", "scenario=%s op=decompress-with-loaded-dict retry: %s", g_scen, ZSTD_isError(r) ? ZSTD_getErrorName(r) : "mismatch"); else g_recovered++; }
        else if (r != 90000 || memcmp(g_out, g_src, 90000)) v_viol("wrong-output-after-success", "scenario=%s op=decompress-with-loaded-dict", g_scen); }
    ZSTD_freeDDict(dd); ZSTD_freeDCtx(d); return st;
}
static int sc_multiddict(void)
{   /* refMultipleDDicts: hash set creation and growth */
    enum { ND = 40 };
    ZSTD_DDict* dds[ND]; int st = ST_OK; uint8_t* dcopy[ND];
    ZSTD_DCtx* d = ZSTD_createDCtx_advanced(g_cmem);
    memset(dds, 0, sizeof dds); memset(dcopy, 0, sizeof dcopy);
    if (!d) return ST_FAILED;
    if (ZSTD_isError(ZSTD_DCtx_setParameter(d, ZSTD_d_refMultipleDDicts, ZSTD_rmd_refMultipleDDicts))) st = ST_FAILED;
    for (int i = 0; i < ND; i++) {
        long const a = fa_armed; fa_armed = 0; dcopy[i] = (uint8_t*)malloc(g_dictSize); fa_armed = a;
        memcpy(dcopy[i], g_dict, g_dictSize);
        if (i) { uint32_t id = 1000u + (uint32_t)i * 7919u; memcpy(dcopy[i] + 4, &id, 4); }     /* distinct dictIDs; [0] keeps the real one */
        dds[i] = ZSTD_createDDict_advanced(dcopy[i], g_dictSize, ZSTD_dlm_byRef, ZSTD_dct_fullDict, g_cmem);
        if (!dds[i]) { st = ST_FAILED; continue; }
        if (ZSTD_isError(ZSTD_DCtx_refDDict(d, dds[i]))) st = ST_FAILED;
    }
    {   size_t r = ZSTD_decompressDCtx(d, g_out, 90000, g_frames[2], g_frameSize[2]);
        if (!ZSTD_isError(r)) { if (r != 90000 || memcmp(g_out, g_src, 90000)) v_viol("wrong-output-after-success", "scenario=%s op=multi-ddict decode", g_scen); }
        else if (st == ST_OK) v_viol("unrecoverable-after-failure", "scenario=%s: all refDDict calls succeeded but decode fails: %s", g_scen, ZSTD_getErrorName(r)); }
    ZSTD_freeDCtx(d);
    for (int i = 0; i < ND; i++) { ZSTD_freeDDict(dds[i]); free(dcopy[i]); }
    return st;
}

/* ---------------------------------------------------------------- scenarios (default-allocator domain) */
static uint8_t* g_samples; static size_t g_sampleSizes[400]; static unsigned g_nbSamples;
static int zd_finish(size_t r, uint8_t* dictBuf, const char* what)
{
    int const wa = w_armed; w_armed = 0;
    int st = ST_OK;
    if (ZDICT_isError(r)) st = ST_FAILED;
    else if (r > 20000) v_viol("trainer-result-exceeds-capacity", "scenario=%s %s", g_scen, what);
    else if (r > 0) { ZSTD_CDict* cd = ZSTD_createCDict(dictBuf, r, 3); ZSTD_DDict* dd = ZSTD_createDDict(dictBuf, r); if (!cd || !dd) v_viol("trainer-result-not-loadable", "scenario=%s %s (alloc failures injected: %ld)", g_scen, what, w_failed); ZSTD_freeCDict(cd); ZSTD_freeDDict(dd); }
    w_armed = wa;
    return st;
}
static uint8_t g_dictBuf[20000];
static int sc_zd_default(void) { w_armed = 1; size_t r = ZDICT_trainFromBuffer(g_dictBuf, sizeof g_dictBuf, g_samples, g_sampleSizes, g_nbSamples); w_armed = 0; return zd_finish(r, g_dictBuf, "trainFromBuffer"); }
static int sc_zd_cover(void) { ZDICT_cover_params_t p; memset(&p, 0, sizeof p); p.k = 200; p.d = 8; p.zParams.compressionLevel = 3; w_armed = 1; size_t r = ZDICT_trainFromBuffer_cover(g_dictBuf, sizeof g_dictBuf, g_samples, g_sampleSizes, g_nbSamples, p); w_armed = 0; return zd_finish(r, g_dictBuf, "cover"); }
static int sc_zd_fastcover(void) { ZDICT_fastCover_params_t p; memset(&p, 0, sizeof p); p.k = 200; p.d = 8; p.f = 16; p.accel = 2; w_armed = 1; size_t r = ZDICT_trainFromBuffer_fastCover(g_dictBuf, sizeof g_dictBuf, g_samples, g_sampleSizes, g_nbSamples, p); w_armed = 0; return zd_finish(r, g_dictBuf, "fastCover"); }
static int sc_zd_optcover(void) { ZDICT_cover_params_t p; memset(&p, 0, sizeof p); p.steps = 3; p.d = 8; p.nbThreads = (unsigned)v_opt_long("threads", 1); w_armed = 1; size_t r = ZDICT_optimizeTrainFromBuffer_cover(g_dictBuf, sizeof g_dictBuf, g_samples, g_sampleSizes, g_nbSamples, &p); w_armed = 0; return zd_finish(r, g_dictBuf, "optimizeCover"); }
static int sc_zd_optfastcover(void) { ZDICT_fastCover_params_t p; memset(&p, 0, sizeof p); p.steps = 3; p.d = 8; p.f = 15; p.nbThreads = (unsigned)v_opt_long("threads", 1); w_armed = 1; size_t r = ZDICT_optimizeTrainFromBuffer_fastCover(g_dictBuf, sizeof g_dictBuf, g_samples, g_sampleSizes, g_nbSamples, &p); w_armed = 0; return zd_finish(r, g_dictBuf, "optimizeFastCover"); }
static int sc_zd_optcover_mt(void) { ZDICT_cover_params_t p; memset(&p, 0, sizeof p); p.steps = 4; p.d = 6; p.nbThreads = 3; w_armed = 1; size_t r = ZDICT_optimizeTrainFromBuffer_cover(g_dictBuf, sizeof g_dictBuf, g_samples, g_sampleSizes, g_nbSamples, &p); w_armed = 0; return zd_finish(r, g_dictBuf, "optimizeCover-3threads"); }
static int sc_zd_optfastcover_mt(void) { ZDICT_fastCover_params_t p; memset(&p, 0, sizeof p); p.steps = 4; p.d = 6; p.f = 14; p.nbThreads = 3; w_armed = 1; size_t r = ZDICT_optimizeTrainFromBuffer_fastCover(g_dictBuf, sizeof g_dictBuf, g_samples, g_sampleSizes, g_nbSamples, &p); w_armed = 0; return zd_finish(r, g_dictBuf, "optimizeFastCover-3threads"); }
static int sc_zd_legacy(void) { ZDICT_legacy_params_t p; memset(&p, 0, sizeof p); p.selectivityLevel = 9; w_armed = 1; size_t r = ZDICT_trainFromBuffer_legacy(g_dictBuf, sizeof g_dictBuf, g_samples, g_sampleSizes, g_nbSamples, p); w_armed = 0; return zd_finish(r, g_dictBuf, "legacy"); }
static int sc_zd_finalize(void) { ZDICT_params_t p; memset(&p, 0, sizeof p); w_armed = 1; size_t r = ZDICT_finalizeDictionary(g_dictBuf, sizeof g_dictBuf, g_src + 1000, 8000, g_samples, g_sampleSizes, g_nbSamples, p); w_armed = 0; return zd_finish(r, g_dictBuf, "finalizeDictionary"); }
static int sc_default_ctx(void)
{   /* default allocator: plain create/compress/decompress objects (ZSTD_createCCtx etc. use malloc) incl. MT + POOL */
    int st = ST_OK; size_t n = 1200000; size_t r = 0;
    w_armed = 1;
    ZSTD_CCtx* c = ZSTD_createCCtx();
    if (!c) { w_armed = 0; return ST_FAILED; }
    ZSTD_CCtx_setParameter(c, ZSTD_c_nbWorkers, 2); ZSTD_CCtx_setParameter(c, ZSTD_c_jobSize, 1);
    r = ZSTD_compress2(c, g_dst, g_dstCap, g_src, n);
    if (ZSTD_isError(r)) { st = ST_FAILED; w_armed = 0; ZSTD_CCtx_reset(c, ZSTD_reset_session_only); r = ZSTD_compress2(c, g_dst, g_dstCap, g_src, n);
        if (ZSTD_isError(r) || !rt(g_dst, r, n, NULL, 0)) v_viol("unrecoverable-after-failure", "scenario=%s op=mt-compress2 (default allocator) retry: %s", g_scen, ZSTD_isError(r) ? ZSTD_getErrorName(r) : "mismatch"); else g_recovered++; w_armed = 1; }
    else { w_armed = 0; if (!rt(g_dst, r, n, NULL, 0)) v_viol("wrong-output-after-success", "scenario=%s", g_scen); w_armed = 1; }
    ZSTD_freeCCtx(c);
    {   ZSTD_DStream* d = ZSTD_createDStream();
        if (!d) st = ST_FAILED; else { size_t q = stream_decompress(d, 1, 1000, 3000, 200000); if (ZSTD_isError(q)) st = ST_FAILED; else if (q != 200000 || memcmp(g_out, g_src, 200000)) v_viol("wrong-output-after-success", "scenario=%s op=dstream", g_scen); ZSTD_freeDStream(d); } }
    w_armed = 0;
    return st;
}

typedef struct { const char* name; int (*fn)(void); int domain; /* 0 custom, 1 default */ } scenario_t;
static const scenario_t SC[] = {
    { "cctx_levels", sc_cctx_levels, 0 }, { "cctx_simple_api", sc_cctx_simple_api, 0 }, { "cstream", sc_cstream, 0 }, { "cctx_ldm", sc_cctx_ldm, 0 },
    { "cctx_mt", sc_cctx_mt, 0 }, { "cctx_mt_resize", sc_cctx_mt_resize, 0 }, { "cdict", sc_cdict, 0 }, { "loaddict", sc_loaddict, 0 }, { "prefix", sc_prefix, 0 },
    { "sequences", sc_sequences, 0 }, { "threadpool", sc_threadpool, 0 }, { "dctx", sc_dctx, 0 }, { "dstream", sc_dstream, 0 }, { "ddict", sc_ddict, 0 }, { "multiddict", sc_multiddict, 0 },
    { "zdict_default", sc_zd_default, 1 }, { "zdict_cover", sc_zd_cover, 1 }, { "zdict_fastcover", sc_zd_fastcover, 1 }, { "zdict_opt_cover", sc_zd_optcover, 1 },
    { "zdict_opt_fastcover", sc_zd_optfastcover, 1 }, { "zdict_opt_cover_mt", sc_zd_optcover_mt, 1 }, { "zdict_opt_fastcover_mt", sc_zd_optfastcover_mt, 1 },
    { "zdict_legacy", sc_zd_legacy, 1 }, { "zdict_finalize", sc_zd_finalize, 1 }, { "default_ctx_mt", sc_default_ctx, 1 },
    { "cctx_mt_sizes", sc_cctx_mt_sizes, 0 },
};
#define NSC ((int)(sizeof(SC) / sizeof(SC[0])))

static void on_alarm(int s) { (void)s; char b[64]; int n = snprintf(b, sizeof b, "HANG\t%ld\n", V.cur_case); if (write(1, b, (size_t)n)) {} _exit(77); }

static void print_site(void** site, int n)
{
    printf("SITE\t%ld", V.cur_case);
    for (int i = 0; i < n; i++) printf("\t%p", site[i]);
    printf("\n");
}

static long run_one(int s, long k, long k2)
{
    const scenario_t* sc = &SC[s]; g_scen = sc->name;
    fa_count = fa_failed = fa_foreign = 0; fa_failAt = fa_failAt2 = 0; fa_armed = 1; fa_failSiteN = 0; fa_peakBytes = fa_liveBytes = 0;
    w_count = w_failed = 0; w_failAt = w_failAt2 = 0; w_nlive = 0; w_failSiteN = 0; g_recovered = 0;
    if (sc->domain == 0) { fa_failAt = k; fa_failAt2 = k2; } else { w_failAt = k; w_failAt2 = k2; }
    alarm(300);
    int const st = sc->fn();
    alarm(0);
    w_armed = 0;
    long const nalloc = sc->domain == 0 ? fa_count : w_count;
    long const failed = sc->domain == 0 ? fa_failed : w_failed;
    if (k == 0) {
        if (st != ST_OK) v_viol("scenario-fails-without-injection", "scenario=%s", sc->name);
    } else {
        if (failed > 0) v_stat("injections_fired", 1);
        if (failed > 0 && st == ST_OK) v_stat("failure_absorbed(success despite failed allocation)", 1);   /* legal: e.g. optional buffers */
        if (failed > 0 && st != ST_OK) v_stat("clean_errors", 1);
        if (failed > 0) { v_cell("failed_alloc_index", "%s#%ld", sc->name, k); print_site(sc->domain == 0 ? fa_failSite : w_failSite, sc->domain == 0 ? fa_failSiteN : w_failSiteN); }
        v_stat("recoveries_verified", g_recovered);
    }
    /* teardown accounting */
    if (fa_nlive != 0) {
        long idxs[4] = {0,0,0,0}; int q = 0; size_t bytes = 0; for (fa_hdr* e = fa_live.next; e != &fa_live; e = e->next) { if (q < 4) idxs[q++] = e->idx; bytes += e->size; }
        v_viol("leak:custom-allocator", "scenario=%s k=%ld k2=%ld: %ld block(s) / %zu bytes obtained from the caller's allocator never returned (alloc# %ld %ld %ld %ld)", sc->name, k, k2, fa_nlive, bytes, idxs[0], idxs[1], idxs[2], idxs[3]);
        while (fa_live.next != &fa_live) { fa_hdr* e = fa_live.next; e->prev->next = e->next; e->next->prev = e->prev; free(e); } fa_nlive = 0;
    }
    if (fa_foreign) v_viol("foreign-or-double-free:custom-allocator", "scenario=%s k=%ld: customFree called %ld time(s) with a pointer that is not live in the caller's allocator", sc->name, k, fa_foreign);
    if (sc->domain == 1 && w_nlive != 0) { v_viol("leak:default-allocator", "scenario=%s k=%ld k2=%ld: %ld malloc'ed block(s) never freed", sc->name, k, k2, w_nlive); w_nlive = 0; }
    v_stat("runs", 1);
    return nalloc;
}

int main(int argc, char** argv)
{
    v_init(argc, argv);
    signal(SIGALRM, on_alarm);
    vrng r = vr_make(12345, 13, 0);
    g_srcSize = 2600000; g_src = (uint8_t*)malloc(g_srcSize); g_dstCap = ZSTD_compressBound(g_srcSize); g_dst = (uint8_t*)malloc(g_dstCap); g_out = (uint8_t*)malloc(g_srcSize);
    gen_data(&r, g_src, g_srcSize, DF_TEXT);
    for (size_t i = 0; i < g_srcSize; i += 997) g_src[i] = (uint8_t)vr_u(&r, 256);
    /* samples + a trained dictionary (so that dict scenarios exercise entropy-table loading) */
    g_nbSamples = 300; g_samples = g_src + 100000; { for (unsigned i = 0; i < g_nbSamples; i++) g_sampleSizes[i] = 600 + (i * 37) % 900; }
    g_dict = (uint8_t*)malloc(40000);
    g_dictSize = ZDICT_trainFromBuffer(g_dict, 40000, g_samples, g_sampleSizes, g_nbSamples);
    if (ZDICT_isError(g_dictSize)) { fprintf(stderr, "cannot train setup dictionary: %s\n", ZDICT_getErrorName(g_dictSize)); return 2; }
    {   /* frames for decode scenarios */
        ZSTD_CCtx* c = ZSTD_createCCtx(); size_t ns[4] = { 300000, 200000, 90000, 700000 }; int wl[4] = { 19, 12, 0, 22 };
        for (int i = 0; i < 4; i++) {
            ZSTD_CCtx_reset(c, ZSTD_reset_session_and_parameters); ZSTD_CCtx_setParameter(c, ZSTD_c_compressionLevel, 5); ZSTD_CCtx_setParameter(c, ZSTD_c_checksumFlag, 1);
            if (wl[i]) ZSTD_CCtx_setParameter(c, ZSTD_c_windowLog, wl[i]);
            if (i == 2) ZSTD_CCtx_loadDictionary(c, g_dict, g_dictSize);
            g_frames[i] = (uint8_t*)malloc(ZSTD_compressBound(ns[i]));
            ZSTD_inBuffer in = { g_src, ns[i], 0 }; ZSTD_outBuffer out = { g_frames[i], ZSTD_compressBound(ns[i]), 0 };   /* streaming => no single-segment, window as set */
            if (i == 2) g_frameSize[i] = ZSTD_compress2(c, g_frames[i], out.size, g_src, ns[i]);
            else { size_t rr = ZSTD_compressStream2(c, &out, &in, ZSTD_e_end); if (rr != 0) { fprintf(stderr, "setup frame failed\n"); return 2; } g_frameSize[i] = out.pos; }
            if (ZSTD_isError(g_frameSize[i])) { fprintf(stderr, "setup frame failed\n"); return 2; }
        }
        ZSTD_freeCCtx(c);
    }
    if (!strcmp(v_opt("mode", "run"), "count")) {
        for (int s = 0; s < NSC; s++) { v_case(s * 10000L); long n = run_one(s, 0, 0); printf("COUNT\t%d\t%s\t%ld\t%d\n", s, SC[s].name, n, SC[s].domain); }
        return v_finish();
    }
    long const f2 = v_opt_long("fault2", 0); g_abandonMode = (int)v_opt_long("abandon", 0);
    for (long i = V.from; i < V.to; i++) { g_abandoned = 0;
        int const s = (int)(i / 10000); long const k = i % 10000;
        if (s >= NSC || k == 0) continue;
        v_case(i);
        run_one(s, k, f2 ? k + f2 : 0);
    }
    return v_finish();
}
