/* vcommon.h - shared harness layer of /verif: PRNG, guard-page buffers, data families, reporting.
 * Header-only (static functions); every harness is one translation unit that includes it. */
#ifndef VCOMMON_H
#define VCOMMON_H
#define _GNU_SOURCE
#include <stdio.h>
#include <stdlib.h>
#include <string.h>
#include <stdint.h>
#include <stdarg.h>
#include <unistd.h>
#include <fcntl.h>
#include <signal.h>
#include <errno.h>
#include <sys/mman.h>
#include <sys/time.h>
#include <sys/resource.h>
#include <execinfo.h>

#define ZSTD_STATIC_LINKING_ONLY
#define ZDICT_STATIC_LINKING_ONLY
#include "zstd.h"
#include "zstd_errors.h"

/* single evaluation of each argument (the arguments are often PRNG draws) */
#define V_MIN(a,b) __extension__ ({ __typeof__(a) v_a_ = (a); __typeof__(b) v_b_ = (b); v_a_ < v_b_ ? v_a_ : v_b_; })
#define V_MAX(a,b) __extension__ ({ __typeof__(a) v_a_ = (a); __typeof__(b) v_b_ = (b); v_a_ > v_b_ ? v_a_ : v_b_; })

/* ------------------------------------------------------------------ PRNG */
typedef struct { uint64_t s; } vrng;
static inline uint64_t vr_mix(uint64_t z) { z += 0x9E3779B97F4A7C15ULL; z = (z ^ (z >> 30)) * 0xBF58476D1CE4E5B9ULL; z = (z ^ (z >> 27)) * 0x94D049BB133111EBULL; return z ^ (z >> 31); }
static inline vrng vr_make(uint64_t seed, uint64_t stream, uint64_t idx) { vrng r; r.s = vr_mix(vr_mix(seed) ^ vr_mix(stream * 0x100000001B3ULL + 7) ^ vr_mix(idx + 0x51ED27)); if (!r.s) r.s = 1; return r; }
static inline uint64_t vr_next(vrng* r) { uint64_t x = r->s; x ^= x >> 12; x ^= x << 25; x ^= x >> 27; r->s = x; return x * 0x2545F4914F6CDD1DULL; }
static inline uint32_t vr_u(vrng* r, uint32_t n) { return n ? (uint32_t)((vr_next(r) >> 32) % n) : 0; }   /* [0,n) */
static inline uint64_t vr_u64(vrng* r, uint64_t n) { return n ? vr_next(r) % n : 0; }
static inline long vr_range(vrng* r, long lo, long hi) { return hi <= lo ? lo : lo + (long)vr_u64(r, (uint64_t)(hi - lo + 1)); } /* inclusive */
static inline int vr_chance(vrng* r, uint32_t num, uint32_t den) { return vr_u(r, den) < num; }
static inline void vr_fill(vrng* r, void* p, size_t n) { uint8_t* b = (uint8_t*)p; while (n >= 8) { uint64_t v = vr_next(r); memcpy(b, &v, 8); b += 8; n -= 8; } if (n) { uint64_t v = vr_next(r); memcpy(b, &v, n); } }

/* ------------------------------------------------------------------ options / reporting */
static struct {
    uint64_t seed; long from, to; int thorough; long only; int casefd; const char* progname;
    long cur_case; int nsamples, max_samples; long nviol;
    const char* kv[64]; int nkv;
} V;

static const char* v_opt(const char* key, const char* dflt)
{
    size_t const kl = strlen(key);
    for (int i = 0; i < V.nkv; i++) if (!strncmp(V.kv[i], key, kl) && V.kv[i][kl] == '=') return V.kv[i] + kl + 1;
    return dflt;
}
static long v_opt_long(const char* key, long dflt) { const char* s = v_opt(key, NULL); return s ? strtol(s, NULL, 0) : dflt; }

/* counters and distinct-value sets */
typedef struct v_ent { struct v_ent* next; char kind; long count; char name[1]; } v_ent;
#define V_HT 4096
static v_ent* v_ht[V_HT];
static void v_bump(char kind, const char* name, long add)
{
    uint64_t h = 1469598103934665603ULL; for (const char* p = name; *p; p++) h = (h ^ (uint8_t)*p) * 1099511628211ULL; h = (h ^ (uint8_t)kind) % V_HT;
    for (v_ent* e = v_ht[h]; e; e = e->next) if (e->kind == kind && !strcmp(e->name, name)) { e->count += add; return; }
    v_ent* e = (v_ent*)malloc(sizeof(v_ent) + strlen(name)); if (!e) return;
    e->kind = kind; e->count = add; strcpy(e->name, name); e->next = v_ht[h]; v_ht[h] = e;
}
static void v_stat(const char* name, long add) { v_bump('S', name, add); }
static void v_statmax(const char* name, long v)
{   /* keeps the maximum */
    char nm[200]; snprintf(nm, sizeof nm, "%s", name);
    uint64_t h = 1469598103934665603ULL; for (const char* p = nm; *p; p++) h = (h ^ (uint8_t)*p) * 1099511628211ULL; h = (h ^ (uint8_t)'M') % V_HT;
    for (v_ent* e = v_ht[h]; e; e = e->next) if (e->kind == 'M' && !strcmp(e->name, nm)) { if (v > e->count) e->count = v; return; }
    v_bump('M', nm, v);
}
static void v_cell(const char* set, const char* fmt, ...) __attribute__((format(printf, 2, 3)));
static void v_cell(const char* set, const char* fmt, ...)
{
    char buf[512]; int n = snprintf(buf, sizeof buf, "%s\t", set);
    va_list ap; va_start(ap, fmt); vsnprintf(buf + n, sizeof buf - (size_t)n, fmt, ap); va_end(ap);
    v_bump('C', buf, 1);
}
static int v_dumped;
static void v_dump(void)
{
    if (v_dumped) return; v_dumped = 1;
    for (int i = 0; i < V_HT; i++) for (v_ent* e = v_ht[i]; e; e = e->next)
        printf("%s\t%s\t%ld\n", e->kind == 'S' ? "STAT" : e->kind == 'M' ? "MAX" : "CELL", e->name, e->count);
    printf("DONE\tfrom=%ld\tto=%ld\tlast=%ld\tviol=%ld\n", V.from, V.to, V.cur_case, V.nviol);
    fflush(stdout);
}
/* violation: key = stable description of WHAT failed (never seed-dependent) */
static void v_viol(const char* key, const char* fmt, ...) __attribute__((format(printf, 2, 3)));
static void v_viol(const char* key, const char* fmt, ...)
{
    char buf[1024]; va_list ap; va_start(ap, fmt); vsnprintf(buf, sizeof buf, fmt, ap); va_end(ap);
    for (char* p = buf; *p; p++) if (*p == '\n' || *p == '\t') *p = ' ';
    printf("VIOL\t%s\t%ld\t%s\n", key, V.cur_case, buf); fflush(stdout); V.nviol++;
#ifdef V_VIOL_ABORTS
    fprintf(stderr, "MONITOR-VIOLATION\t%s\t%s\n", key, buf); abort();      /* coverage-guided runs: the fuzzer keeps the input as an artifact */
#endif
}
static void v_sample(const char* fmt, ...) __attribute__((format(printf, 1, 2)));
static void v_sample(const char* fmt, ...)
{
    if (V.nsamples >= V.max_samples) return; V.nsamples++;
    char buf[1024]; va_list ap; va_start(ap, fmt); vsnprintf(buf, sizeof buf, fmt, ap); va_end(ap);
    for (char* p = buf; *p; p++) if (*p == '\n' || *p == '\t') *p = ' ';
    printf("SAMPLE\t%ld\t%s\n", V.cur_case, buf);
}
static void v_inconclusive(const char* why) { printf("INCONCLUSIVE\t%ld\t%s\n", V.cur_case, why); fflush(stdout); }

/* per-case CPU budget (logical bound on work linear in sizes); exceeding it exits 77 = hang candidate */
static void v_on_cpu(int sig) { (void)sig; char b[64]; int n = snprintf(b, sizeof b, "HANG\t%ld\n", V.cur_case); if (write(1, b, (size_t)n)) {} _exit(77); }
static void v_budget(double seconds)
{
    struct itimerval it; memset(&it, 0, sizeof it);
    {   static double slow = 0; if (slow == 0) { const char* e = getenv("VERIF_SLOW"); slow = e ? atof(e) : 1.0; if (slow < 1.0) slow = 1.0; } seconds *= slow; }   /* dynamic-instrumentation runs (valgrind) */
    if (seconds > 0) { it.it_value.tv_sec = (time_t)seconds; it.it_value.tv_usec = (suseconds_t)((seconds - (double)(time_t)seconds) * 1e6); }
    signal(SIGPROF, v_on_cpu); setitimer(ITIMER_PROF, &it, NULL);
}
static void v_case(long idx)
{
    V.cur_case = idx;
    if (V.casefd >= 0) { char b[32]; int n = snprintf(b, sizeof b, "%-20ld\n", idx); if (pwrite(V.casefd, b, (size_t)n, 0)) {} }
}
static void v_on_abort(int sig) { signal(sig, SIG_DFL); fflush(stdout); v_dump(); raise(sig); }
#if !defined(__SANITIZE_ADDRESS__) && !defined(__SANITIZE_THREAD__)
/* plain builds: print a backtrace on a fatal signal so that the driver can name the faulting function */
static void v_on_fatal(int sig) { void* bt[24]; int n; signal(sig, SIG_DFL); { char b[64]; int l = snprintf(b, sizeof b, "FATAL signal %d, backtrace:\n", sig); if (write(2, b, (size_t)l)) {} } n = backtrace(bt, 24); backtrace_symbols_fd(bt, n, 2); v_dump(); raise(sig); }
static void v_install_fatal(void) { static char stk[1 << 16]; stack_t ss; struct sigaction sa; ss.ss_sp = stk; ss.ss_size = sizeof stk; ss.ss_flags = 0; sigaltstack(&ss, NULL);
    memset(&sa, 0, sizeof sa); sa.sa_handler = v_on_fatal; sa.sa_flags = SA_ONSTACK; sigaction(SIGSEGV, &sa, NULL); sigaction(SIGBUS, &sa, NULL); sigaction(SIGFPE, &sa, NULL); sigaction(SIGILL, &sa, NULL); }
#else
static void v_install_fatal(void) {}
#endif
#if defined(__SANITIZE_ADDRESS__)
void __asan_on_error(void); void __asan_on_error(void) { fflush(stdout); v_dump(); }
const char* __asan_default_options(void); const char* __asan_default_options(void) { return "abort_on_error=1:detect_leaks=0:allocator_may_return_null=1:handle_abort=0:detect_stack_use_after_return=0:quarantine_size_mb=16:malloc_context_size=8"; }
const char* __ubsan_default_options(void); const char* __ubsan_default_options(void) { return "print_stacktrace=1:halt_on_error=1"; }
#endif
static void v_init(int argc, char** argv)
{
    V.seed = 1; V.from = 0; V.to = 1; V.only = -1; V.casefd = -1; V.max_samples = 3; V.progname = argv[0];
    for (int i = 1; i < argc; i++) {
        if (!strcmp(argv[i], "--seed") && i + 1 < argc) V.seed = strtoull(argv[++i], NULL, 0);
        else if (!strcmp(argv[i], "--from") && i + 1 < argc) V.from = strtol(argv[++i], NULL, 0);
        else if (!strcmp(argv[i], "--to") && i + 1 < argc) V.to = strtol(argv[++i], NULL, 0);
        else if (!strcmp(argv[i], "--only") && i + 1 < argc) { V.only = strtol(argv[++i], NULL, 0); V.from = V.only; V.to = V.only + 1; }
        else if (!strcmp(argv[i], "--thorough")) V.thorough = 1;
        else if (!strcmp(argv[i], "--samples") && i + 1 < argc) V.max_samples = atoi(argv[++i]);
        else if (strchr(argv[i], '=') && V.nkv < 64) V.kv[V.nkv++] = argv[i];
        else { fprintf(stderr, "%s: bad argument %s\n", argv[0], argv[i]); exit(2); }
    }
    {   const char* cf = getenv("VERIF_CASEFILE"); if (cf) V.casefd = open(cf, O_WRONLY | O_CREAT, 0644); }
    signal(SIGABRT, v_on_abort);
    v_install_fatal();
    setvbuf(stdout, NULL, _IOFBF, 1 << 16);
}
static int v_finish(void) { v_budget(0); v_dump(); return 0; }

/* ------------------------------------------------------------------ guard-page buffers
 * exact-size buffers: end-aligned against a PROT_NONE page (mode 0) or start-aligned after one (mode 1),
 * canary bytes on the unaligned side. Sees over-reads/over-writes by any code, incl. assembly. */
typedef struct { uint8_t* p; size_t size; uint8_t* map; size_t maplen; int mode; uint8_t* canary; size_t ncanary; } gbuf;
#define V_PAGE 4096
static gbuf gb_alloc(size_t size, int mode)
{
    gbuf g; memset(&g, 0, sizeof g);
    size_t const body = (size + V_PAGE - 1) / V_PAGE * V_PAGE + V_PAGE;   /* at least one spare page for canaries */
    g.maplen = body + 2 * V_PAGE; g.mode = mode; g.size = size;
    g.map = (uint8_t*)mmap(NULL, g.maplen, PROT_READ | PROT_WRITE, MAP_PRIVATE | MAP_ANONYMOUS, -1, 0);
    if (g.map == MAP_FAILED) { fprintf(stderr, "gb_alloc: mmap(%zu) failed\n", g.maplen); exit(2); }
    mprotect(g.map, V_PAGE, PROT_NONE); mprotect(g.map + V_PAGE + body, V_PAGE, PROT_NONE);
    if (mode == 0) { g.p = g.map + V_PAGE + body - size; g.canary = g.map + V_PAGE; g.ncanary = body - size; }
    else           { g.p = g.map + V_PAGE;               g.canary = g.p + size;      g.ncanary = body - size; }
    if (g.ncanary > 256) { if (mode == 0) { g.canary += g.ncanary - 256; } g.ncanary = 256; }
    memset(g.canary, 0xC5, g.ncanary);
    return g;
}
static int gb_ok(const gbuf* g) { for (size_t i = 0; i < g->ncanary; i++) if (g->canary[i] != 0xC5) return 0; return 1; }
static void gb_free(gbuf* g) { if (g->map) munmap(g->map, g->maplen); memset(g, 0, sizeof *g); }

/* ------------------------------------------------------------------ data families */
static uint8_t* v_text; static size_t v_textlen;
static void v_load_text(void)
{
    if (v_text) return;
    const char* root = getenv("VERIF_REPO"); if (!root) root = "/repo";
    static const char* files[] = { "lib/zstd.h", "doc/zstd_compression_format.md", "lib/compress/zstd_lazy.c", "CHANGELOG", "lib/common/xxhash.h", "programs/zstd.1.md", NULL };
    size_t cap = 4u << 20; v_text = (uint8_t*)malloc(cap); v_textlen = 0;
    for (int i = 0; files[i]; i++) { char path[512]; snprintf(path, sizeof path, "%s/%s", root, files[i]); FILE* f = fopen(path, "rb"); if (!f) continue; v_textlen += fread(v_text + v_textlen, 1, cap - v_textlen, f); fclose(f); }
    if (v_textlen < 4096) { for (size_t i = 0; i < 65536; i++) v_text[i] = (uint8_t)("the quick brown fox jumps over the lazy dog "[(i * 7 + i / 13) % 44]); v_textlen = 65536; }
}
enum { DF_RANDOM, DF_SMALLALPHA, DF_SKEWED, DF_RUNS, DF_LZ, DF_TEXT, DF_INTS, DF_MIX, DF_ISLANDS, DF_ZERO, DF_LONGREP, DF_REPBAIT, DF_SPARSE, DF_NB };
static const char* const v_df_name[DF_NB] = { "random", "smallalpha", "skewed", "runs", "lz", "text", "ints", "mix", "islands", "zero", "longrep", "repbait", "sparse" };
static int v_sparse_giant_force;   /* 1: force the "giant" sub-mode of DF_SPARSE (needs n >= 140000) */
static int v_repbait_force;   /* 1: force the "one long literal run" sub-mode of DF_REPBAIT */
static void gen_data(vrng* r, uint8_t* buf, size_t n, int fam);
static void gen_lz(vrng* r, uint8_t* buf, size_t n)
{   /* literals + matches with controlled offset / length distributions */
    size_t pos = 0; int const offClass = (int)vr_u(r, 5); int const litAlpha = 1 + (int)vr_u(r, 255);
    size_t rep[3] = { 1, 4, 8 };
    while (pos < n) {
        size_t ll = vr_chance(r, 1, 4) ? 0 : (vr_chance(r, 1, 8) ? vr_u(r, 300) : vr_u(r, 12));
        for (; ll && pos < n; ll--) buf[pos++] = (uint8_t)vr_u(r, (uint32_t)litAlpha);
        if (pos == 0 || pos >= n) continue;
        size_t ml = 3 + (vr_chance(r, 1, 50) ? vr_u(r, 70000) : vr_chance(r, 1, 6) ? vr_u(r, 400) : vr_u(r, 24));
        size_t off;
        switch (vr_u(r, 4) == 0 ? 5 : offClass) {
            case 0: off = 1 + vr_u(r, 8); break;
            case 1: off = 1 + vr_u64(r, pos); break;
            case 2: off = pos - vr_u64(r, V_MIN(pos, 64)); break;           /* near the start (window edge / dict-like) */
            case 3: off = (size_t)1 << vr_u(r, 24); off += vr_u(r, 3); off -= 1; break;  /* around powers of two */
            case 5: off = rep[vr_u(r, 3)]; break;                            /* repcode-heavy */
            default: off = 1 + vr_u(r, 70000); break;
        }
        if (off == 0) off = 1; if (off > pos) off = pos;
        rep[2] = rep[1]; rep[1] = rep[0]; rep[0] = off;
        if (ml > n - pos) ml = n - pos;
        for (size_t i = 0; i < ml; i++) buf[pos + i] = buf[pos + i - off];
        pos += ml;
    }
}
static void gen_data(vrng* r, uint8_t* buf, size_t n, int fam)
{
    if (n == 0) return;
    switch (fam) {
    default:
    case DF_RANDOM: vr_fill(r, buf, n); break;
    case DF_SMALLALPHA: { int const k = 1 + (int)vr_u(r, 4); uint8_t sym[4]; for (int i = 0; i < 4; i++) sym[i] = (uint8_t)vr_u(r, 256); for (size_t i = 0; i < n; i++) buf[i] = sym[vr_u(r, (uint32_t)k)]; break; }
    case DF_SKEWED: { /* geometric distribution: deep Huffman trees */
        int const shift = 1 + (int)vr_u(r, 3); uint8_t perm[256]; for (int i = 0; i < 256; i++) perm[i] = (uint8_t)i;
        for (int i = 255; i > 0; i--) { int j = (int)vr_u(r, (uint32_t)i + 1); uint8_t t = perm[i]; perm[i] = perm[j]; perm[j] = t; }
        for (size_t i = 0; i < n; i++) { uint64_t v = vr_next(r); int s = 0; while ((v & ((1u << shift) - 1)) == 0 && s < 60) { v >>= shift; s++; } buf[i] = perm[s & 255]; }
        break; }
    case DF_RUNS: { size_t pos = 0; while (pos < n) { size_t run = vr_chance(r, 1, 4) ? 1 + vr_u(r, 200000) : 1 + vr_u(r, 64); if (run > n - pos) run = n - pos; if (vr_chance(r, 3, 4)) memset(buf + pos, (int)vr_u(r, 256), run); else vr_fill(r, buf + pos, run); pos += run; } break; }
    case DF_LZ: gen_lz(r, buf, n); break;
    case DF_TEXT: { v_load_text(); size_t pos = 0; while (pos < n) { size_t const st = vr_u64(r, v_textlen); size_t l = 1 + vr_u64(r, V_MIN(v_textlen - st, (size_t)1 << 18)); if (l > n - pos) l = n - pos; memcpy(buf + pos, v_text + st, l); pos += l; } break; }
    case DF_INTS: { uint32_t v = (uint32_t)vr_next(r); uint32_t const stride = vr_u(r, 1000); int const w = 1 << vr_u(r, 3); for (size_t i = 0; i < n; i++) { if (i % (size_t)w == 0) v += stride + (vr_chance(r, 1, 10) ? vr_u(r, 5) : 0); buf[i] = (uint8_t)(v >> (8 * (i % (size_t)w))); } break; }
    case DF_MIX: { /* statistics switch at or near block boundaries (splitter / pre-split bait) */
        size_t pos = 0; while (pos < n) { static const size_t edges[] = { 1 << 10, 4 << 10, 32 << 10, 92 << 10, 128 << 10, 128 << 10, 256 << 10 };
            size_t seg = edges[vr_u(r, 7)] + vr_u(r, 5) - 2; if (vr_chance(r, 1, 3)) seg = 1 + vr_u(r, 3000); if (seg > n - pos) seg = n - pos;
            int f2 = (int)vr_u(r, DF_NB); if (f2 == DF_MIX) f2 = DF_TEXT; gen_data(r, buf + pos, seg, f2); pos += seg; } break; }
    case DF_ISLANDS: { vr_fill(r, buf, n); size_t k = 1 + vr_u(r, 8); while (k--) { size_t st = vr_u64(r, n); size_t l = 1 + vr_u(r, 3000); if (l > n - st) l = n - st; if (vr_chance(r, 1, 2)) memset(buf + st, 0, l); else if (st > l) memcpy(buf + st, buf + st - l, l); } break; }
    case DF_ZERO: memset(buf, vr_chance(r, 1, 2) ? 0 : (int)vr_u(r, 256), n); break;
    case DF_SPARSE: {   /* noise with one short match every few hundred bytes (near offsets, often from one offset-code / length-code class): blocks and - with
                         * targetCBlockSize - sub-blocks that hold a single cheap sequence (tiny sequence sections, tables in RLE / repeat mode) */
        int const narrow = vr_chance(r, 1, 2);
        /* sub-mode "giant": all matches 3..6 bytes long plus ONE match of >= 65539 bytes inside one block: a match-length table whose description is a long run of
         * zero-probability symbols between the lowest codes and the highest one */
        int const giant = n >= 90000 && (vr_chance(r, 1, 4) || v_sparse_giant_force);
        size_t const gapLo = 100 + vr_u(r, 900), gapSpan = 1 + vr_u(r, narrow ? 60 : 900); size_t const offLo = 1 + vr_u(r, 60), offSpan = 1 + vr_u(r, narrow ? 8 : vr_chance(r, 1, 2) ? 20 : 3000); size_t const mlLo = giant ? 4 + vr_u(r, 2) : 4 + vr_u(r, 30); size_t const mlSpan = giant ? 1 + vr_u(r, 2) : 1 + vr_u(r, narrow ? 4 : 40); size_t pos = 0;
        while (pos < n) { size_t g = gapLo + vr_u64(r, gapSpan); if (g > n - pos) g = n - pos; vr_fill(r, buf + pos, g); pos += g; if (pos >= n) break;
            size_t ml = mlLo + vr_u64(r, mlSpan); if (ml > n - pos) ml = n - pos; size_t off = offLo + vr_u64(r, offSpan); if (off > pos) off = pos; for (size_t i = 0; i < ml; i++) buf[pos + i] = buf[pos + i - off]; pos += ml; }
        if (giant) { size_t const L = 65539 + vr_u64(r, V_MIN((size_t)20000, n - 65539 - 8000)); size_t const nblk = (n + (128u << 10) - 1) / (128u << 10); size_t const blk = vr_u64(r, nblk); size_t const blkLen = V_MIN((size_t)(128u << 10), n - blk * (128u << 10));
            size_t const q = blk * (128u << 10) + ((blkLen > L + 6000) ? 6000 + vr_u64(r, blkLen - L - 6000) : 6000);
            size_t const dist = (q >= L && vr_chance(r, 1, 2)) ? L + vr_u64(r, q - L + 1) : 200 + vr_u64(r, 5000);      /* far copy, or a periodic stretch (offset < length) */
            if (q + L <= n) for (size_t i = 0; i < L; i++) buf[q + i] = buf[q + i - dist]; }
        break; }
    case DF_REPBAIT: { /* repcode-history bait: periodic data whose period flips among a few values (rep1/rep2/rep3 traffic,
                          matches after 0 / 1 literal), interrupted by incompressible stretches that contain isolated short
                          matches at fresh distances (sub-block / raw-tail decisions with pending sequences) */
        if (n >= 200000 && (v_repbait_force == 1 || vr_chance(r, 1, 4))) {   /* sub-mode "one long literal run": [many short sequences alternating between two offsets] [noise of exactly L bytes,
                                                     * L around 65536] [the same period again, repcode matches only], so that a block carries a sequence with a 16-bit-overflowing
                                                     * literal length in the middle of a long repcode history, and the following block depends on that history */
            size_t const p1 = 5 + vr_u(r, 3000), p2 = p1 + 1 + vr_u(r, 40); size_t const a = 20000 + vr_u(r, 40000); static const size_t Ls[] = { 65535, 65536, 65536, 65537, 65538, 65534 }; size_t const L = Ls[vr_u(r, 6)];
            size_t pos = V_MIN(n, p2); vr_fill(r, buf, pos); size_t per = p1;
            while (pos < n) {
                if (pos >= a && pos < a + 64 && a + L + 1000 < n) { vr_fill(r, buf + pos, L); pos += L; continue; }      /* the long literal run (once) */
                size_t run = 3 + vr_u(r, 30); if (run > n - pos) run = n - pos; for (size_t i = 0; i < run; i++) buf[pos + i] = buf[pos + i - per]; pos += run; if (pos >= n) break;
                if (pos < a - 300) { if (vr_chance(r, 1, 6)) per = (per == p1) ? p2 : p1; }                                   /* both offsets enter the history before the run */
                if (vr_chance(r, 2, 3)) { buf[pos] = (uint8_t)(buf[pos - per] ^ (1 + vr_u(r, 255))); pos++; }             /* one deviating byte: next match is a repcode after 1 literal */
            }
            break; }
        size_t per[3]; per[0] = vr_chance(r, 1, 3) ? 4 + vr_u(r, 300) : vr_chance(r, 1, 2) ? 1000 + vr_u(r, 70000) : 1 + vr_u(r, 200000);
        per[1] = per[0] + 1 + vr_u(r, 3); per[2] = per[0] > 8 ? per[0] - 1 - vr_u(r, 3) : per[0] + 7; int cur = 0;
        size_t const gapMax = 2 + vr_u(r, vr_chance(r, 1, 2) ? 40 : 600); int const islandPerMille = (int)vr_u(r, 4);
        size_t pos = V_MIN(n, per[0]); if (vr_chance(r, 1, 2)) vr_fill(r, buf, pos); else gen_data(r, buf, pos, DF_TEXT);
        while (pos < n) {
            size_t run = 1 + vr_u64(r, gapMax); if (run > n - pos) run = n - pos;
            size_t const p = V_MIN(per[cur], pos);
            for (size_t i = 0; i < run; i++) buf[pos + i] = buf[pos + i - p];
            pos += run; if (pos >= n) break;
            switch (vr_u(r, 8)) { case 0: cur = (int)vr_u(r, 3); break;                                  /* switch period: offsets alternate among 3 values */
                case 1: case 2: case 3: buf[pos] = (uint8_t)(buf[pos - p] ^ (1 + vr_u(r, 255))); pos++; break;     /* 1 deviating byte: rep1 after 1 literal */
                default: break; }                                                                         /* nothing: consecutive matches, litLength 0 */
            if (pos < n && (int)vr_u(r, 1000) < islandPerMille) {
                size_t isl = 500 + vr_u(r, 12000); int k = (int)vr_u(r, 4);
                if (vr_chance(r, 1, 3)) { static const size_t edge[] = { 65535, 65536, 65537, 65538, 32767, 32768, 131071, 131072, 16383, 16384 }; isl = edge[vr_u(r, 10)]; k = 0; }   /* literal runs of exactly the lengths where the length codes / 16-bit fields change */
                if (isl > n - pos) isl = n - pos; vr_fill(r, buf + pos, isl); while (k-- && isl > 64) { size_t const at = pos + 16 + vr_u64(r, isl - 48); size_t const ml = 4 + vr_u(r, 20); size_t const d = 1 + vr_u64(r, at - 1); if (d >= ml) memcpy(buf + at, buf + at - d, ml); }
                pos += isl; }
        }
        break; }
    case DF_LONGREP: { /* long-range repetition: a chunk repeated at a large distance */
        size_t const chunk = 1 + vr_u64(r, V_MIN(n, (size_t)1 << 16)); size_t const dist = chunk + vr_u64(r, n); size_t pos = 0;
        while (pos < n) { size_t l = V_MIN(chunk, n - pos); if (pos >= dist && vr_chance(r, 2, 3)) memcpy(buf + pos, buf + pos - dist, l); else if (vr_chance(r, 1, 2)) vr_fill(r, buf + pos, l); else gen_lz(r, buf + pos, l); pos += l; } break; }
    }
}
/* sizes: 0..16 dense, then around 2^k, block size +-1, and random up to maxSize */
static size_t pick_size(vrng* r, size_t maxSize)
{
    size_t s;
    switch (vr_u(r, 11)) {
    case 10: { static const size_t fcsEdges[] = { 255, 256, 257, 65535, 65536, 65791, 65792, 65793, 65794 }; s = fcsEdges[vr_u(r, 9)]; break; }   /* frame-content-size field width boundaries */
    case 0: s = vr_u(r, 17); break;
    case 1: case 2: s = vr_u(r, 1200); break;
    case 3: case 4: { int k = 8 + (int)vr_u(r, 13); s = ((size_t)1 << k) + vr_u(r, 5) - 2; break; }
    case 5: case 6: { size_t m = 1 + vr_u(r, 4); s = m * (128u << 10) + vr_u(r, 7) - 3; break; }
    case 7: s = (92u << 10) * (1 + vr_u(r, 3)) + vr_u(r, 5) - 2; break;
    default: s = vr_u64(r, maxSize + 1); break;
    }
    if (s > maxSize) s = vr_u64(r, maxSize + 1);
    return s;
}

#endif /* VCOMMON_H */
