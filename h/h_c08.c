/* h_c08.c - C08: dictionary compression round-trips for every dictionary, supply mode and input; IDs are recorded and checked;
 * arbitrary bytes offered as a dictionary are memory-safe on both sides. */
#include "vparams.h"
#include "refdec.h"
#include "zdict.h"
#include "vdict.h"

static size_t g_maxSize;
static uint8_t* g_trainBuf; static size_t g_trainSizes[600];

enum { CM_USINGDICT, CM_CDICT_COPY, CM_CDICT_REF, CM_LOAD, CM_REFCDICT, CM_REFPREFIX, CM_NB };
static const char* const cm_name[CM_NB] = { "usingDict", "CDict-byCopy", "CDict-byRef", "loadDictionary", "refCDict", "refPrefix" };
enum { DM_USINGDICT, DM_DDICT, DM_LOAD, DM_REFDDICT, DM_MULTI, DM_REFPREFIX, DM_NB };
static const char* const dm_name[DM_NB] = { "usingDict", "usingDDict", "DCtx_loadDictionary", "refDDict", "multi-DDict", "DCtx_refPrefix" };

static void run_case(long idx)
{
    vrng r = vr_make(V.seed, 108, (uint64_t)idx);
    /* ---- the dictionary */
    uint8_t* dict = (uint8_t*)malloc((1u << 20) + 4096); size_t dl = 0; const char* dclass; char feat[96] = ""; int formatted = 0; int safetyOnly = 0;
    size_t const clen = vr_chance(&r, 1, 8) ? 8 + vr_u(&r, 100) : 64 + vr_u64(&r, vr_chance(&r, 1, 6) ? 200000 : 30000);
    uint8_t* content = (uint8_t*)malloc(clen + 8); int const fam = vr_chance(&r, 2, 3) ? DF_TEXT : (int)vr_u(&r, DF_NB); gen_data(&r, content, clen, fam);
    switch (vr_u(&r, 8)) {
    case 0: dl = vr_chance(&r, 1, 3) ? vr_u(&r, 9) : 1 + vr_u64(&r, vr_chance(&r, 1, 8) ? (1u << 20) : 50000); gen_data(&r, dict, dl, fam); if (dl >= 4 && vr_chance(&r, 1, 10)) { dict[0] = 0x37; dict[1] = 0xA4; dict[2] = 0x30; dict[3] = 0xEC; dclass = "raw-with-accidental-magic"; } else dclass = dl < 8 ? "raw<8" : "raw"; break;
    case 1: case 2: { size_t const cap = 2000 + vr_u(&r, 60000); size_t d = ZDICT_trainFromBuffer(dict, cap, g_trainBuf, g_trainSizes, 400 + vr_u(&r, 200)); if (ZDICT_isError(d)) { dl = clen; memcpy(dict, content, clen); dclass = "raw"; } else { dl = d; dclass = "trained"; formatted = 1; } break; }
    case 3: { const char* root = getenv("VERIF_REPO"); if (!root) root = "/repo"; char p[512]; snprintf(p, sizeof p, "%s/tests/%s", root, vr_chance(&r, 1, 2) ? "golden-dictionaries/http-dict-missing-symbols" : "dict-files/zero-weight-dict"); FILE* f = fopen(p, "rb"); if (f) { dl = fread(dict, 1, 1u << 20, f); fclose(f); dclass = "golden"; formatted = 1; } else { dl = clen; memcpy(dict, content, clen); dclass = "raw"; } break; }
    case 4: case 5: case 6: { dl = build_dict(&r, dict, (1u << 20) + 4096, content, clen, feat, sizeof feat); if (!dl) { dl = clen; memcpy(dict, content, clen); dclass = "raw"; } else { dclass = "assembled-unusual"; formatted = 1; } break; }
    default: { /* arbitrary / mutated bytes behind the magic: memory safety only */
        size_t d = ZDICT_trainFromBuffer(dict, 20000, g_trainBuf, g_trainSizes, 500); if (ZDICT_isError(d)) d = 0; dl = d ? d : 64; if (!d) vr_fill(&r, dict, dl); dict[0] = 0x37; dict[1] = 0xA4; dict[2] = 0x30; dict[3] = 0xEC;
        int k = 1 + (int)vr_u(&r, 6); while (k--) { size_t o = 8 + vr_u64(&r, V_MIN(dl - 8, (size_t)400)); dict[o] = (uint8_t)vr_u(&r, 256); } if (vr_chance(&r, 1, 4)) dl = 8 + vr_u64(&r, dl - 8); dclass = "mutated"; formatted = 1; safetyOnly = 1; break; }
    }
    v_stat("dictionaries", 1);
    /* ---- both loaders */
    int const accidental = !strcmp(dclass, "raw-with-accidental-magic");
    /* raw bytes that happen to start with the dictionary magic load only when the caller says "raw content" explicitly: the modes without a
     * content-type argument (usingDict, plain loaders, ID queries) interpret them as a formatted dictionary and legitimately refuse them */
    ZSTD_dictContentType_e const dct = accidental ? ZSTD_dct_rawContent : formatted ? ZSTD_dct_auto : (vr_chance(&r, 1, 2) ? ZSTD_dct_auto : ZSTD_dct_rawContent);
    int const level = (int)vr_range(&r, -2, 19);
    gbuf gd = gb_alloc(dl, 0); if (dl) memcpy(gd.p, dict, dl);     /* exact-size: loaders reading past the dictionary fault */
    ZSTD_CDict* cd = ZSTD_createCDict_advanced(gd.p, dl, ZSTD_dlm_byRef, dct, ZSTD_getCParams(level, 0, dl), ZSTD_defaultCMem);
    ZSTD_DDict* dd = ZSTD_createDDict_advanced(gd.p, dl, ZSTD_dlm_byRef, dct, ZSTD_defaultCMem);
    v_cell("dict_class", "%s|c%s|d%s", dclass, cd ? "ok" : "rej", dd ? "ok" : "rej");
    if (cd && !dd) v_viol("loaders:compressor-accepts-a-dictionary-the-decompressor-rejects", "class=%s len=%zu %s", dclass, dl, feat);
    if (!cd || !dd) { v_stat("dictionaries_not_loadable", 1); ZSTD_freeCDict(cd); ZSTD_freeDDict(dd); gb_free(&gd); free(dict); free(content); return; }
    if (feat[0]) v_cell("unusual", "%s", feat);
    unsigned const idD = ZSTD_getDictID_fromDict(gd.p, dl), idC = ZSTD_getDictID_fromCDict(cd), idDD = ZSTD_getDictID_fromDDict(dd), idZ = ZDICT_getDictID(gd.p, dl);
    if (!accidental && (idD != idC || idD != idDD || (dct == ZSTD_dct_auto && idZ != idD && dl >= 8 && formatted))) v_viol("ids:dictID-queries-disagree", "class=%s fromDict=%u fromCDict=%u fromDDict=%u ZDICT=%u", dclass, idD, idC, idDD, idZ);
    refdec_dict_t* rd = refdec_dict_create(gd.p, dl, dct == ZSTD_dct_rawContent ? 1 : 0);
    /* ---- inputs: copy dictionary content, use high symbols absent from odd tables, small first blocks */
    for (int rep = 0; rep < 3; rep++) {
        size_t n; uint8_t* x;
        switch (rep) { case 0: n = 1 + vr_u(&r, 3000); break; case 1: n = pick_size(&r, g_maxSize); break; default: n = (size_t)vr_range(&r, 100, 300000); }
        int istyle = (int)vr_u(&r, 5); if (feat[0] && vr_chance(&r, 1, 2)) istyle = 4; if (formatted && vr_chance(&r, 1, 6)) istyle = 5;
        if (istyle == 4) n = (size_t)vr_range(&r, 120000, 140000) + (vr_chance(&r, 1, 3) ? 131072 : 0);
        if (istyle == 5) n = (size_t)(131072 * vr_range(&r, 1, 3)) + 2000 + vr_u(&r, 20000);     /* 1..3 incompressible (raw) first blocks, then matches reaching far back into the dictionary */
        x = (uint8_t*)malloc(n + 8);
        switch (istyle) {
            case 5: { size_t const rawLen = (n / 131072) * 131072; vr_fill(&r, x, n); size_t pos = rawLen + vr_u(&r, 500); while (pos + 40 < n && dl > 64) { size_t const cl = V_MIN((size_t)(16 + vr_u(&r, 1500)), V_MIN(n - pos, dl / 2)); size_t const from = vr_u64(&r, dl - cl); memcpy(x + pos, dict + from, cl); pos += cl + vr_u(&r, 300); } break; }
            case 4: { /* few sequences, one far match: incompressible bytes, then a chunk of dictionary content near the end of the (first) block:
                       * its offset is about the block position + the distance to the dictionary chunk, i.e. it needs the high offset codes */
                vr_fill(&r, x, n); if (dl > 64) { size_t const cl = V_MIN((size_t)(64 + vr_u(&r, 2000)), dl / 2); size_t const from = vr_u64(&r, dl - cl); size_t const at = n - cl - vr_u(&r, 5000) % (n - cl); memcpy(x + at, dict + from, cl); } break; } case 0: for (size_t i = 0; i < n; i++) x[i] = dl ? dict[(dl - 1) - ((n - 1 - i) % dl)] : 0; break;                 /* replays the dictionary tail */
            case 1: gen_data(&r, x, n, fam); if (dl > 16 && n > 16) memcpy(x + n / 3, dict + dl / 2, V_MIN(n / 3, dl / 2)); break;
            case 2: for (size_t i = 0; i < n; i++) x[i] = (uint8_t)(200 + vr_u(&r, 56)); break;                                                        /* high-byte alphabet */
            default: gen_data(&r, x, n, (int)vr_u(&r, DF_NB)); }
        size_t const cap = ZSTD_compressBound(n) + 64; uint8_t* dst = (uint8_t*)malloc(cap); uint8_t* out = (uint8_t*)malloc(n + 8);
        int cm = (int)vr_u(&r, CM_NB); if (accidental && (cm == CM_USINGDICT)) cm = CM_LOAD; int lvl = (istyle >= 4 && vr_chance(&r, 1, 2)) ? (int)vr_range(&r, 1, 5) : (int)vr_range(&r, -2, 19); int const attach = (int)vr_u(&r, 4); int const dds = (cm == CM_CDICT_COPY || cm == CM_CDICT_REF) ? (int)vr_u(&r, 2) : ((int)vr_u(&r, 3) == 0); if (dds && vr_chance(&r, 1, 2)) lvl = (int)vr_range(&r, 5, 12);      /* dedicated dictionary search exists for the greedy..lazy2 strategies */ int const noID = (int)vr_u(&r, 6) == 0;
        ZSTD_CCtx* c = ZSTD_createCCtx(); size_t cs; ZSTD_CDict* cd2 = NULL; int prefix = 0;
        int const tcb = (istyle == 5 ? vr_chance(&r, 2, 3) : vr_chance(&r, 1, 5)) ? (int)vr_range(&r, 1340, 9000) : 0; if (tcb) ZSTD_CCtx_setParameter(c, ZSTD_c_targetCBlockSize, tcb);      /* effective for the compress2-based supply modes */
        ZSTD_CCtx_setParameter(c, ZSTD_c_compressionLevel, lvl); ZSTD_CCtx_setParameter(c, ZSTD_c_forceAttachDict, attach); if (dds) ZSTD_CCtx_setParameter(c, ZSTD_c_enableDedicatedDictSearch, 1); if (noID) ZSTD_CCtx_setParameter(c, ZSTD_c_dictIDFlag, 0); ZSTD_CCtx_setParameter(c, ZSTD_c_checksumFlag, (int)vr_u(&r, 2));
        switch (cm) {
        case CM_USINGDICT: cs = ZSTD_compress_usingDict(c, dst, cap, x, n, gd.p, dl, lvl); break;
        case CM_CDICT_COPY: case CM_CDICT_REF: { ZSTD_compressionParameters cp = ZSTD_getCParams(lvl, vr_chance(&r, 1, 2) ? n : 0, dl); if (dds) { ZSTD_CCtx_params* pp = ZSTD_createCCtxParams(); ZSTD_CCtxParams_init(pp, lvl); ZSTD_CCtxParams_setParameter(pp, ZSTD_c_enableDedicatedDictSearch, 1); cd2 = ZSTD_createCDict_advanced2(gd.p, dl, cm == CM_CDICT_COPY ? ZSTD_dlm_byCopy : ZSTD_dlm_byRef, dct, pp, ZSTD_defaultCMem); ZSTD_freeCCtxParams(pp); } else cd2 = ZSTD_createCDict_advanced(gd.p, dl, cm == CM_CDICT_COPY ? ZSTD_dlm_byCopy : ZSTD_dlm_byRef, dct, cp, ZSTD_defaultCMem);
            if (!cd2) { cs = (size_t)-ZSTD_error_dictionary_wrong; break; } cs = ZSTD_compress_usingCDict(c, dst, cap, x, n, cd2); break; }
        case CM_LOAD: { size_t e = ZSTD_CCtx_loadDictionary_advanced(c, gd.p, dl, vr_chance(&r, 1, 2) ? ZSTD_dlm_byCopy : ZSTD_dlm_byRef, dct); cs = ZSTD_isError(e) ? e : ZSTD_compress2(c, dst, cap, x, n); break; }
        case CM_REFCDICT: { size_t e = ZSTD_CCtx_refCDict(c, cd); cs = ZSTD_isError(e) ? e : ZSTD_compress2(c, dst, cap, x, n); break; }
        default: { prefix = 1; size_t e = ZSTD_CCtx_refPrefix_advanced(c, gd.p, dl, dct); cs = ZSTD_isError(e) ? e : ZSTD_compress2(c, dst, cap, x, n); break; }
        }
        char desc[300]; snprintf(desc, sizeof desc, "dict=%s(len %zu, id %u, %s) cmode=%s level=%d attach=%d dds=%d noID=%d tcb=%d input=%d n=%zu", dclass, dl, idD, feat, cm_name[cm], lvl, attach, dds, noID, tcb, istyle, n);
        v_stat("compressions", 1);
        if (ZSTD_isError(cs)) {
            if (!safetyOnly) v_viol("roundtrip:compression-with-a-loadable-dictionary-fails", "%s: %s", desc, ZSTD_getErrorName(cs));
        } else if (!safetyOnly) {
            /* frame dictID */
            unsigned const fid = ZSTD_getDictID_fromFrame(dst, cs); int const usesID = !(cm == CM_USINGDICT || cm == CM_CDICT_COPY || cm == CM_CDICT_REF) ? !noID : 1;   /* simple API ignores advanced parameters */
            unsigned const expect = accidental ? 0 : usesID ? idD : 0;
            if (fid != expect) v_viol("ids:frame-dictID-wrong", "%s: frame says %u, expected %u", desc, fid, expect);
            /* decode modes */
            for (int dm = 0; dm < DM_NB; dm++) {
                if (dm == DM_REFPREFIX && formatted && dct != ZSTD_dct_rawContent) { /* refPrefix on the decoder side takes raw content: use full-dict typed prefix */ }
                if (accidental && dm == DM_USINGDICT) continue;
                ZSTD_DCtx* d = ZSTD_createDCtx(); size_t ds; enum { MAXX = 140 }; ZSTD_DDict* extra[MAXX]; uint8_t* extraBuf[MAXX]; int nExtra = 0; memset(extra, 0, sizeof extra); memset(extraBuf, 0, sizeof extraBuf);
                switch (dm) {
                case DM_USINGDICT: ds = ZSTD_decompress_usingDict(d, out, n, dst, cs, gd.p, dl); break;
                case DM_DDICT: ds = ZSTD_decompress_usingDDict(d, out, n, dst, cs, dd); break;
                case DM_LOAD: { size_t e = ZSTD_DCtx_loadDictionary_advanced(d, gd.p, dl, ZSTD_dlm_byRef, dct); ds = ZSTD_isError(e) ? e : ZSTD_decompressDCtx(d, out, n, dst, cs); break; }
                case DM_REFDDICT: { ZSTD_DCtx_refDDict(d, dd); ZSTD_inBuffer in = { dst, cs, 0 }; ZSTD_outBuffer o = { out, n, 0 }; size_t rr = 1; int g = 0; while (!ZSTD_isError(rr) && rr != 0 && ++g < 100000) { size_t const ib = in.pos, obp = o.pos; rr = ZSTD_decompressStream(d, &o, &in); if (!ZSTD_isError(rr) && in.pos == ib && o.pos == obp) break; } ds = ZSTD_isError(rr) ? rr : (rr == 0 ? o.pos : (size_t)-ZSTD_error_srcSize_wrong); break; }
                case DM_MULTI: {   /* table of referenced DDicts (ZSTD_d_refMultipleDDicts): other dictionaries with other IDs around the right one; table sizes on both sides of the
                                    * hash set's growth steps (17, 33, 65, 129 entries), the right dictionary referenced first / somewhere in between / last */
                    ZSTD_DCtx_setParameter(d, ZSTD_d_refMultipleDDicts, 1);
                    if (dl >= 8 && formatted) { static const int ks[] = { 0, 1, 5, 15, 16, 17, 20, 31, 32, 33, 36, 64, 65, 70, 128, 129, 132 }; nExtra = vr_chance(&r, 1, 3) ? ks[vr_u(&r, 17)] : ks[vr_u(&r, 4)]; if (dl > 20000 && nExtra > 36) nExtra = 36; }
                    int const at = (int)vr_u(&r, (uint32_t)nExtra + 1);
                    for (int q = 0, slot = 0; q <= nExtra; q++) {
                        if (q == at) { ZSTD_DCtx_refDDict(d, dd); continue; }
                        uint8_t* cp2 = (uint8_t*)malloc(dl); memcpy(cp2, gd.p, dl); uint32_t nid = idD + 1 + (uint32_t)slot * 7 + (uint32_t)vr_u(&r, 5); if (nid == idD || nid == 0) nid = idD + 100000u + (uint32_t)slot; memcpy(cp2 + 4, &nid, 4);
                        extraBuf[slot] = cp2; extra[slot] = ZSTD_createDDict_byReference(cp2, dl); if (extra[slot]) ZSTD_DCtx_refDDict(d, extra[slot]); slot++; }
                    v_statmax("multi_ddict_table_max", nExtra + 1); v_cell("multi_ddict_table", "%d", nExtra + 1);
                    ds = ZSTD_decompressDCtx(d, out, n, dst, cs); break; }
                default: { size_t e = ZSTD_DCtx_refPrefix_advanced(d, gd.p, dl, dct); ds = ZSTD_isError(e) ? e : ZSTD_decompressDCtx(d, out, n, dst, cs); break; }
                }
                if (dm == DM_MULTI && fid == 0 && formatted) { /* no ID in the frame: the table cannot select a dictionary; not a required success */ }
                else if (ZSTD_isError(ds) || ds != n || memcmp(out, x, n)) v_viol("roundtrip:decode-with-the-same-dictionary-fails", "%s dmode=%s: %s", desc, dm_name[dm], ZSTD_isError(ds) ? ZSTD_getErrorName(ds) : "mismatch");
                v_stat("roundtrips", 1); v_cell("modes", "%s|%s", cm_name[cm], dm_name[dm]);
                ZSTD_freeDCtx(d);       /* the table of referenced DDicts lives as long as the DCtx */
                for (int q = 0; q < MAXX; q++) { ZSTD_freeDDict(extra[q]); free(extraBuf[q]); }
            }
            /* reference decoder with the dictionary parsed by R itself */
            if (rd) { refdec_info_t I; memset(&I, 0, sizeof I); I.keep_blocks = 1; if (!refdec_decode(out, n, dst, cs, rd, &I, 0) || I.out_size != n || memcmp(out, x, n)) v_viol("roundtrip:R-with-dictionary-rejects-or-differs", "%s: %s", desc, I.err ? I.err : "mismatch");
                else { if (I.nb_blocks && I.blocks[0].type == 2) { int const m = I.blocks[0].seq_modes; if (I.blocks[0].lit_type == 3) v_stat("first_blocks_reusing_dict_huffman_table", 1); if (I.blocks[0].nb_seq && m >= 0 && ((((m >> 6) & 3) == 3) || (((m >> 4) & 3) == 3) || (((m >> 2) & 3) == 3))) v_stat("first_blocks_reusing_dict_fse_tables", 1); } if (I.frames[0].dict_refs) v_stat("frames_referencing_dictionary_content", 1); }
                refdec_info_free(&I); }
            else if (formatted) v_stat("dictionaries_R_cannot_parse", 1);
            /* decoding with a dictionary of another ID, or none, must be refused when the frame names an ID */
            if (fid != 0 && formatted) {
                ZSTD_DCtx* d = ZSTD_createDCtx(); size_t ds = ZSTD_decompressDCtx(d, out, n, dst, cs);
                if (!ZSTD_isError(ds)) v_viol("ids:frame-naming-a-dictionary-decodes-without-any-dictionary", "%s", desc);
                uint8_t* other = (uint8_t*)malloc(dl); memcpy(other, gd.p, dl); uint32_t oid = fid ^ 0x5A5A; if (!oid) oid = 77; memcpy(other + 4, &oid, 4);
                ds = ZSTD_decompress_usingDict(d, out, n, dst, cs, other, dl);
                if (!ZSTD_isError(ds)) v_viol("ids:frame-decodes-with-a-dictionary-of-another-ID", "%s other id %u", desc, oid);
                free(other); ZSTD_freeDCtx(d); v_stat("wrong_id_checks", 1);
            }
        }
        (void)prefix;
        if (rep == 0) v_sample("%s -> %s", desc, ZSTD_isError(cs) ? ZSTD_getErrorName(cs) : "ok");
        ZSTD_freeCDict(cd2); ZSTD_freeCCtx(c); free(x); free(dst); free(out);
    }
    /* a prefix is single-use: the frame AFTER a prefix frame on the same context (nothing re-referenced) must not reach into the old prefix, i.e. it decodes without any dictionary;
     * single-thread and multithreaded (first source above one job, so that the workers produce the frame) */
    if ((idx % 8) == 5 && dl >= 64) {
        int const w = (int)vr_u(&r, 3); size_t const n1 = w ? 600000 + vr_u(&r, 300000) : 20000 + vr_u(&r, 100000); size_t const n2 = V_MIN(dl, (size_t)200000);
        uint8_t* x1 = (uint8_t*)malloc(n1); gen_data(&r, x1, n1, DF_TEXT); uint8_t* f1 = (uint8_t*)malloc(ZSTD_compressBound(n1)); uint8_t* f2 = (uint8_t*)malloc(ZSTD_compressBound(n2) + 64); uint8_t* o2 = (uint8_t*)malloc(n2 + 1);
        ZSTD_CCtx* c = ZSTD_createCCtx(); ZSTD_CCtx_setParameter(c, ZSTD_c_compressionLevel, (int)vr_range(&r, 1, 6)); ZSTD_CCtx_setParameter(c, ZSTD_c_nbWorkers, w);
        ZSTD_CCtx_refPrefix_advanced(c, gd.p, dl, ZSTD_dct_rawContent);
        size_t const c1 = ZSTD_compress2(c, f1, ZSTD_compressBound(n1), x1, n1);
        if (!ZSTD_isError(c1)) { memcpy(o2, gd.p, n2); uint8_t* x2 = (uint8_t*)malloc(n2 + 1); memcpy(x2, gd.p, n2); size_t const c2 = ZSTD_compress2(c, f2, ZSTD_compressBound(n2) + 64, x2, n2); free(x2);      /* a COPY of the old prefix as the next input (its own memory: input overlapping the prefix buffer would invalidate it): every byte has a match in the stale prefix */
            if (!ZSTD_isError(c2)) { size_t const d2 = ZSTD_decompress(o2, n2, f2, c2); if (ZSTD_isError(d2) || d2 != n2 || memcmp(o2, gd.p, n2)) v_viol("prefix:frame-after-a-prefix-frame-needs-the-old-prefix", "nbWorkers=%d first source %zu bytes, prefix %zu bytes: %s", w, n1, dl, ZSTD_isError(d2) ? ZSTD_getErrorName(d2) : "mismatch"); }
            v_stat("prefix_single_use_checks", 1); }
        ZSTD_freeCCtx(c); free(x1); free(f1); free(f2); free(o2);
    }
    refdec_dict_free(rd); ZSTD_freeCDict(cd); ZSTD_freeDDict(dd); gb_free(&gd); free(dict); free(content);
}

int main(int argc, char** argv)
{
    v_init(argc, argv);
    g_maxSize = (size_t)v_opt_long("maxsize", V.thorough ? (1 << 20) : (300 << 10));
    {   vrng r = vr_make(4242, 8, 0); size_t const tot = 600 * 1500; g_trainBuf = (uint8_t*)malloc(tot); gen_data(&r, g_trainBuf, tot, DF_TEXT); for (int i = 0; i < 600; i++) g_trainSizes[i] = 1500; }
    for (long i = V.from; i < V.to; i++) { v_case(i); v_budget(900); run_case(i); }
    return v_finish();
}
