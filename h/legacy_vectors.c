/* brings in the legacy-format test vectors of /repo/tests/legacy.c (COMPRESSED / EXPECTED) without its main() */
#define main verif_unused_legacy_c_main
#include "legacy.c"
