#!/bin/bash
# tools/try_patch.sh <patch.diff> <ID> [<ID>...]   applies a seeded change to /repo, runs the quick checks, always reverts
set -u
P=$1; shift
cd /repo || exit 2
if ! git diff --quiet; then echo "/repo has uncommitted changes; refusing"; exit 2; fi
git apply "$P" || { echo "PATCH DOES NOT APPLY"; exit 3; }
trap 'git -C /repo checkout -- . ' EXIT
cd /verif
for id in "$@"; do
  s=$(date +%s)
  out=$(./check "$id" --tier "${TIER:-quick}" 2>&1); rc=$?
  echo "== $id rc=$rc ($(( $(date +%s)-s ))s) $(echo "$out" | grep -c '^VIOLATION') violation line(s)"
  echo "$out" | grep -E "^VIOLATION|^  key=|^HELD|HARNESS|INCONCL" | cut -c1-400 | head -8
done
