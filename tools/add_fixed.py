#!/usr/bin/env python3
"""tools/add_fixed.py <property> <commit-subject-substring> <key-pattern> <what failed>  : append a 'fixed' entry to known_findings.json"""
import sys, json, subprocess
prop, sub, key, what = sys.argv[1:5]
log = subprocess.run(['git', '-C', '/repo', 'log', '--format=%h %s'], capture_output=True, text=True).stdout.split('\n')
c = [l.split()[0] for l in log if sub in l]
assert len(c) == 1, c
p = '/verif/known_findings.json'
j = json.load(open(p))
j['fixed'].append({'property': prop, 'commit': c[0], 'line': 'fixed: property=%s %s %s' % (prop, c[0], what), 'key': key})
json.dump(j, open(p, 'w'), indent=1)
print(j['fixed'][-1]['line'])
