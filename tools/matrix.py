#!/usr/bin/env python3
"""tools/matrix.py [names...] : run the quick checks against every seeded change under /verif/seeded/ in a scratch worktree of /repo
(never in /repo itself), record which checks detect it in seeded/<name>/meta.json and print the matrix."""
import os, sys, json, subprocess, shutil, glob, time
V = '/verif'
names = sys.argv[1:] or sorted(os.path.basename(d) for d in glob.glob(V + '/seeded/*') if os.path.isdir(d))
ALSO = {'C01': ['C05'], 'C02': ['C10'], 'C03': ['C06', 'C04'], 'C04': ['C03'], 'C05': ['C01'], 'C06': ['C03'], 'C09': [], 'C10': ['C02'], 'C11': [], 'C12': [], 'C13': [], 'C14': [], 'C15': ['C04'], 'C16': [], 'C17': [], 'C18': [], 'C19': [], 'C20': [], 'C07': [], 'C08': []}
for n in names:
    d = os.path.join(V, 'seeded', n)
    meta = json.load(open(d + '/meta.json'))
    prop = meta['property']
    wt = '/tmp/mx_' + n
    subprocess.run(['git', '-C', '/repo', 'worktree', 'remove', '--force', wt], capture_output=True)
    shutil.rmtree(wt, ignore_errors=True)
    subprocess.run(['git', '-C', '/repo', 'worktree', 'add', '-f', '--detach', wt, 'HEAD'], capture_output=True, check=True)
    ap = subprocess.run(['git', '-C', wt, 'apply', d + '/patch.diff'], capture_output=True, text=True)
    res = {}
    if ap.returncode != 0:
        res = {'apply': 'FAILED: ' + ap.stderr[-200:]}
    else:
        for chk in [prop] + ([] if os.environ.get('MATRIX_ONLY_OWN') else ALSO.get(prop, [])):
            env = dict(os.environ, VERIF_REPO=wt, VERIF_EVIDENCE_DIR='/tmp/mx_evidence', VERIF_KEEP_BUILDS='6', VERIF_NO_CLANG_STAGES='' if os.environ.get('MATRIX_CLANG') else '1')
            t = time.time()
            p = subprocess.run([V + '/check', chk, '--tier', 'quick'], cwd=V, env=env, capture_output=True, text=True)
            keys = [l.strip()[4:].split(' cases=')[0] for l in p.stdout.split('\n') if l.startswith('  key=')]
            res[chk] = {'rc': p.returncode, 'seconds': round(time.time() - t), 'violation_keys': keys[:6]}
    meta['detection'] = {'repo_head': subprocess.run(['git', '-C', '/repo', 'rev-parse', '--short', 'HEAD'], capture_output=True, text=True).stdout.strip(), 'quick_checks': res}
    json.dump(meta, open(d + '/meta.json', 'w'), indent=1)
    subprocess.run(['git', '-C', '/repo', 'worktree', 'remove', '--force', wt], capture_output=True)
    shutil.rmtree(wt, ignore_errors=True)
    print(n, {k: (v['rc'] if isinstance(v, dict) else v) for k, v in res.items()}, flush=True)
