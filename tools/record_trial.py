#!/usr/bin/env python3
"""tools/record_trial.py <name> <check> <rc> <key;key...> : record in seeded/<name>/meta.json the outcome of a manual trial made with
tools/try_wt.sh (same procedure as tools/matrix.py: patch applied in a scratch worktree of /repo HEAD, the quick check run with VERIF_REPO pointing at it)."""
import sys, json, subprocess
name, chk, rc, keys = sys.argv[1], sys.argv[2], int(sys.argv[3]), [k for k in sys.argv[4].split(';') if k]
p = '/verif/seeded/%s/meta.json' % name
m = json.load(open(p))
det = m.setdefault('detection', {'quick_checks': {}})
det['repo_head'] = subprocess.run(['git', '-C', '/repo', 'rev-parse', '--short', 'HEAD'], capture_output=True, text=True).stdout.strip()
det.setdefault('quick_checks', {})[chk] = {'rc': rc, 'seconds': 0, 'violation_keys': keys, 'via': 'tools/try_wt.sh'}
json.dump(m, open(p, 'w'), indent=1)
print(name, chk, rc)
