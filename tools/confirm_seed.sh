#!/bin/bash
# tools/confirm_seed.sh <name>   e.g. C06_a : confirm a seeded change from /tmp/seed_out/<name> in a scratch worktree of /repo HEAD:
# applies, builds, passes `make check`, demo fails with it and passes without. Writes /tmp/seed_out/<name>/confirm.json
set -u
N=$1; D=${SEED_OUT:-/tmp/seed_out}/$N; WT=/tmp/confirm_$N
[ -f $D/patch.diff ] || { echo "no patch for $N"; exit 2; }
git -C /repo worktree remove --force $WT >/dev/null 2>&1; rm -rf $WT
git -C /repo worktree add -f --detach $WT HEAD >/dev/null 2>&1 || exit 2
cd $WT
applies=0; check_rc=-1; demo_with=-1; demo_without=-1
if git apply $D/patch.diff; then applies=1
  ( make -k -j${JOBS:-6} check > $D/confirm_make_check.log 2>&1 ); check_rc=$?
  ( cd $D && timeout 1800 bash ./build_and_run.sh $WT > $D/confirm_demo_with.log 2>&1 ); demo_with=$?
  git checkout -- . ; git clean -fdxq
  ( cd $D && timeout 1800 bash ./build_and_run.sh $WT > $D/confirm_demo_without.log 2>&1 ); demo_without=$?
fi
cd /; git -C /repo worktree remove --force $WT >/dev/null 2>&1; rm -rf $WT
head=$(git -C /repo rev-parse --short HEAD)
echo "{\"name\":\"$N\",\"repo_head\":\"$head\",\"applies\":$applies,\"make_check_rc\":$check_rc,\"demo_rc_with_patch\":$demo_with,\"demo_rc_without_patch\":$demo_without}" | tee $D/confirm.json
