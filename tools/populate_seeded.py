#!/usr/bin/env python3
"""tools/populate_seeded.py <name>... : copy a confirmed seeded change from /tmp/seed_out/<name> (written by a sub-agent, confirmed by
tools/confirm_seed.sh) to /verif/seeded/<name>/ with patch.diff, the demonstration, notes.md and meta.json. Refuses unconfirmed ones."""
import json, os, shutil, sys

NEEDS = {
    'C04_a': 'prefetching ("long") sequence decoder (cold DDict / >16 MB history with long offsets) + a block regenerating > 64 KB of literals that cannot live in dst (streaming, stable-out, buffer-less, exact-size one-shot) + the sequence crossing into litExtraBuffer among the last 8 of the block',
    'C04_b': 'single-segment frame with content size <= 3 and checksum, decoded by ZSTD_decompressStream with the last 4 bytes split across calls, on a DCtx whose input buffer was not grown by an earlier larger frame',
    'C08_a': 'structurally valid dictionary whose offset-code table gives probability 0 to exactly highbit32(dictContentSize+128KB) but not to a higher code + strategy fast/dfast/greedy + a first-block match with that offset code (reaching >= 131069 bytes back into the dictionary content)',
    'C08_b': 'enableDedicatedDictSearch=1 with a greedy/lazy/lazy2 level (hashLog > chainLog) + forceAttachDict=ZSTD_dictForceCopy or forceMaxWindow + a dictionary repetitive enough to overflow hash buckets',
    'C15_a': 'one CCtx that consumed > 3484 MiB in total and starts a new (< 16 MiB) frame while the running index is in the 16 MiB margin below 3500 MiB (ZSTD_indexTooCloseToMax reset path); ZSTD_WINDOW_OVERFLOW_CORRECT_FREQUENTLY does not reach it',
    'C15_b': 'streaming decode through the internal ring buffer (or buffer-less with a round buffer) of a frame larger than window+2*block whose blocks are not exact 128 KiB multiples, with a block carrying > 64 KiB of compressed literals after the ring wrapped',
    'C19_a': 'sparse writing active (--sparse, or -d -f over an existing regular file) + a zero run covering >= one 32 KB write segment and ending within the first 0..7 bytes of a segment boundary, followed by non-zero data',
    'C19_b': 'several input files in one decompression / -t invocation where an earlier file is truncated inside a frame and a later one is valid',
    'C20_a': 'seekable compression with an output buffer too small for the end of a frame (ZSTD_endStream returns > 0 at least once for that frame), then a later frame read through the seekable reader or the table accessors',
    'C20_b': 'seekable frame > 128 KB of incompressible data (full raw block that is not the last) + a read starting inside the frame (skip-decode into the scratch buffer)',
}
SKIP = ('confirm_make_check.log', 'baseline_check.log', 'make_check.log', 'check.log', 'base_check.log', 'check_with_patch.log')


def main():
    for name in sys.argv[1:]:
        src = os.environ.get('SEED_OUT', '/tmp/seed_out') + '/' + name
        c = json.load(open(src + '/confirm.json'))
        if not (c['applies'] == 1 and c['make_check_rc'] == 0 and c['demo_rc_with_patch'] != 0 and c['demo_rc_without_patch'] == 0):
            print(name, 'NOT confirmed:', c); continue
        dst = '/verif/seeded/' + name
        os.makedirs(dst, exist_ok=True)
        for f in os.listdir(src):
            if f in SKIP or f.endswith('_check.log') or os.path.getsize(os.path.join(src, f)) > 400000: continue
            if os.path.isfile(os.path.join(src, f)): shutil.copy(os.path.join(src, f), dst)
        meta = {'property': name[:3], 'breaks': name[:3], 'needs_to_manifest': NEEDS.get(name, 'see notes.md'),
                'origin': 'written by an independent sub-agent that saw only the property text and a scratch worktree',
                'confirmed': dict(what_was_run='tools/confirm_seed.sh: scratch worktree of /repo HEAD %s; git apply patch.diff; make -k -j check (exit 0); build_and_run.sh with the patch (exit %d) and after git checkout (exit 0)' % (c['repo_head'], c['demo_rc_with_patch']), **c)}
        mp = dst + '/meta.json'
        if os.path.exists(mp):
            old = json.load(open(mp))
            if 'detection' in old: meta['detection'] = old['detection']
        json.dump(meta, open(mp, 'w'), indent=1)
        print(name, 'ok')


if __name__ == '__main__':
    main()
