#!/usr/bin/env python3
import json, os, sys
sys.path.insert(0, '/verif')
from checks.registry import REG
props = [json.loads(l) for l in open('/verif/properties.jsonl')]
old = json.load(open('/verif/MANIFEST.json')) if os.path.exists('/verif/MANIFEST.json') else {}
hooks = old.get('hooks')
checks, na = [], []
for p in props:
    i = p['id']
    if i in REG and os.path.exists('/verif/checks/%s.py' % i.lower()):
        r = REG[i]
        checks.append({'property_id': i, 'quick_cmd': './check %s --tier quick' % i, 'thorough_cmd': './check %s --tier thorough' % i,
                       'evidence_file': 'evidence/%s.json' % i, 'replay_cmd_template': './check %s --replay {path}' % i, 'engine': 'verif-rt',
                       'level_claimed': {'category': r['cat'], 'text': r['text'], 'design_ref': r['ref']}, 'level_note': r['note'], 'technique': r['tech']})
    else:
        na.append({'property_id': i, 'reason': 'check not built yet (work in progress; design in DESIGN.md section 4)'})
m = {'version': 1, 'setup_cmd': './setup.sh', 'hooks': hooks,
     'engines': [{'name': 'verif-rt', 'path': 'check', 'serves_properties': [c['property_id'] for c in checks],
                  'kind_free_text': 'runtime monitoring: C harnesses built from /repo working tree under sanitizers/guard pages, independent reference decoder, fault allocator, deterministic scheduler shim, ptrace kill-point tracer; python driver'}],
     'checks': checks, 'notes': 'see DESIGN.md; known_findings.json lists repaired (fixed:) and recorded (known) genuine defects', 'not_applicable': na}
json.dump(m, open('/verif/MANIFEST.json', 'w'), indent=1)
print(len(checks), 'checks,', len(na), 'not applicable')
