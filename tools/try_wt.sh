#!/bin/bash
# tools/try_wt.sh <patch.diff> <ID> [<ID>...] : like try_patch.sh but in a scratch worktree of /repo HEAD (VERIF_REPO), so /repo stays usable meanwhile
set -u
P=$1; shift
WT=/tmp/try_$$_$(basename $(dirname $P))
git -C /repo worktree add -f --detach $WT HEAD >/dev/null 2>&1 || exit 2
trap 'git -C /repo worktree remove --force '$WT' >/dev/null 2>&1; rm -rf '$WT EXIT
git -C $WT apply "$P" || { echo "PATCH DOES NOT APPLY"; exit 3; }
cd /verif
for id in "$@"; do
  s=$(date +%s)
  out=$(VERIF_REPO=$WT VERIF_EVIDENCE_DIR=/tmp/mx_evidence VERIF_KEEP_BUILDS=8 ./check "$id" --tier "${TIER:-quick}" 2>&1); rc=$?
  echo "== $id rc=$rc ($(( $(date +%s)-s ))s) $(echo "$out" | grep -c '^VIOLATION') violation line(s)"
  echo "$out" | grep -E "^  key=|^HELD|HARNESS|INCONCL" | cut -c1-300 | head -6
done
