"""Build layer: compiles /repo's current working tree (never its make objects) into /verif/build/<variant>/<treehash>/.
Variants are sanitizer / knob combinations; harnesses are single C files under /verif/h linked against a variant."""
import time, os, sys, glob, hashlib, subprocess, shutil, fcntl, time
from concurrent.futures import ThreadPoolExecutor

VERIF = os.path.dirname(os.path.dirname(os.path.abspath(__file__)))
REPO = os.environ.get('VERIF_REPO', '/repo')
BUILD = os.path.join(VERIF, 'build')
HDIR = os.path.join(VERIF, 'h')
NPROC = int(os.environ.get('VERIF_JOBS', '16'))

COMMON_DEFS = ['-DZSTD_MULTITHREAD', '-DZSTD_LEGACY_SUPPORT=5', '-DXXH_NAMESPACE=ZSTD_', '-DDEBUGLEVEL=0']
# pointer-overflow: zstd deliberately forms (never dereferences) wrapped pointers in the decoder (ZSTD_ALLOW_POINTER_OVERFLOW_ATTR,
# ZSTD_wrappedPtr*); gcc drops the attribute when those helpers are inlined, so that one check is switched off for the whole build.
ASAN = ['-O1', '-g', '-fno-omit-frame-pointer', '-fsanitize=address,undefined', '-fno-sanitize=pointer-overflow', '-fno-sanitize-recover=all']
VARIANTS = {
    'asan':  dict(cc='gcc', cflags=ASAN, ld=['-fsanitize=address,undefined']),
    'tsan':  dict(cc='gcc', cflags=['-O1', '-g', '-fsanitize=thread'], ld=['-fsanitize=thread']),
    'plain': dict(cc='gcc', cflags=['-O2', '-g'], ld=[]),
    'ovf':   dict(cc='gcc', cflags=['-O2', '-g', '-DZSTD_WINDOW_OVERFLOW_CORRECT_FREQUENTLY=1'], ld=[]),
    'asan_ovf': dict(cc='gcc', cflags=ASAN + ['-DZSTD_WINDOW_OVERFLOW_CORRECT_FREQUENTLY=1'], ld=['-fsanitize=address,undefined']),
    'val':   dict(cc='gcc', cflags=['-O1', '-g'], ld=[]),
    'v_noasm':   dict(cc='gcc', cflags=['-O2', '-g', '-DZSTD_DISABLE_ASM'], ld=[]),
    'v_nobmi2':  dict(cc='gcc', cflags=['-O2', '-g', '-DDYNAMIC_BMI2=0'], ld=[]),
    'v_x1':      dict(cc='gcc', cflags=['-O2', '-g', '-DHUF_FORCE_DECOMPRESS_X1'], ld=[]),
    'v_x2':      dict(cc='gcc', cflags=['-O2', '-g', '-DHUF_FORCE_DECOMPRESS_X2'], ld=[]),
    'v_seqshort': dict(cc='gcc', cflags=['-O2', '-g', '-DZSTD_FORCE_DECOMPRESS_SEQUENCES_SHORT'], ld=[]),
    'v_seqlong':  dict(cc='gcc', cflags=['-O2', '-g', '-DZSTD_FORCE_DECOMPRESS_SEQUENCES_LONG'], ld=[]),
    'v_nolegacy': dict(cc='gcc', cflags=['-O2', '-g'], ld=[], defs=['-DZSTD_MULTITHREAD', '-DZSTD_LEGACY_SUPPORT=0', '-DXXH_NAMESPACE=ZSTD_', '-DDEBUGLEVEL=0']),
    'asan_noasm': dict(cc='gcc', cflags=ASAN + ['-DZSTD_DISABLE_ASM'], ld=['-fsanitize=address,undefined']),
    'msan':  dict(cc='clang', cflags=['-O1', '-g', '-fsanitize=memory', '-fsanitize-memory-track-origins', '-fno-omit-frame-pointer'], ld=['-fsanitize=memory']),
    'fuzz':  dict(cc='clang', cflags=['-O1', '-g', '-fsanitize=fuzzer-no-link,address,undefined', '-fno-sanitize=pointer-overflow', '-fno-sanitize-recover=all', '-fno-omit-frame-pointer'], ld=['-fsanitize=fuzzer,address,undefined']),
}

LIB_DIRS = ['common', 'compress', 'decompress', 'dictBuilder', 'legacy', 'deprecated']


class BuildError(Exception):
    pass


def lib_sources():
    out = []
    for d in LIB_DIRS:
        out += sorted(glob.glob(os.path.join(REPO, 'lib', d, '*.c')))
    out += sorted(glob.glob(os.path.join(REPO, 'lib', 'decompress', '*.S')))
    return out


def _hash_files(files, extra=''):
    h = hashlib.sha1()
    h.update(extra.encode())
    for f in sorted(files):
        h.update(f.encode())
        try:
            with open(f, 'rb') as fh:
                h.update(fh.read())
        except OSError:
            h.update(b'<missing>')
    return h.hexdigest()[:16]


_tree_hash_cache = {}


def tree_hash(subdirs=('lib',)):
    key = tuple(subdirs)
    if key in _tree_hash_cache:
        return _tree_hash_cache[key]
    files = []
    for sd in subdirs:
        for root, dirs, fs in os.walk(os.path.join(REPO, sd)):
            dirs[:] = [d for d in dirs if d not in ('.git', 'obj')]
            for f in fs:
                if f.endswith(('.c', '.h', '.S')):
                    files.append(os.path.join(root, f))
    _tree_hash_cache[key] = _hash_files(files)
    return _tree_hash_cache[key]


def _run(cmd, what):
    p = subprocess.run(cmd, stdout=subprocess.PIPE, stderr=subprocess.STDOUT, text=True)
    if p.returncode != 0:
        raise BuildError('%s failed:\n%s\n%s' % (what, ' '.join(cmd), p.stdout[-4000:]))
    return p.stdout


class _Lock:
    def __init__(self, path):
        self.path = path

    def __enter__(self):
        os.makedirs(os.path.dirname(self.path), exist_ok=True)
        self.fd = open(self.path, 'w')
        fcntl.flock(self.fd, fcntl.LOCK_EX)

    def __exit__(self, *a):
        fcntl.flock(self.fd, fcntl.LOCK_UN)
        self.fd.close()


def _includes():
    L = os.path.join(REPO, 'lib')
    return ['-I' + L, '-I' + os.path.join(L, 'common'), '-I' + os.path.join(L, 'compress'), '-I' + os.path.join(L, 'decompress'),
            '-I' + os.path.join(L, 'dictBuilder'), '-I' + os.path.join(L, 'legacy'), '-I' + os.path.join(L, 'deprecated')]


def variant_dir(variant):
    v = VARIANTS[variant]
    fh = hashlib.sha1(' '.join([v['cc']] + v['cflags'] + v.get('defs', COMMON_DEFS)).encode()).hexdigest()[:6]
    return os.path.join(BUILD, variant, tree_hash() + '-' + fh)


def build_lib(variant):
    """compile lib/ of the current tree for this variant; returns directory holding libzstd.a"""
    v = VARIANTS[variant]
    d = variant_dir(variant)
    lib = os.path.join(d, 'libzstd.a')
    with _Lock(os.path.join(BUILD, variant, '.lock')):
        if os.path.exists(lib):
            try:
                os.utime(d, None)
            except OSError:
                pass
            return d
        # drop stale trees of this variant (disk): keep the 3 most recently used besides the one being built
        olds = [o for o in glob.glob(os.path.join(BUILD, variant, '*')) if os.path.isdir(o) and o != d]
        olds.sort(key=lambda o: os.path.getmtime(o), reverse=True)
        # ... and never a tree used in the last hours: a check running concurrently on another tree (seeded-change matrix, thorough tier) still executes from it
        minAge = float(os.environ.get('VERIF_BUILD_MIN_AGE_H', '5')) * 3600
        for old in olds[int(os.environ.get('VERIF_KEEP_BUILDS', '3')):]:
            if time.time() - os.path.getmtime(old) > minAge:
                shutil.rmtree(old, ignore_errors=True)
        od = os.path.join(d, 'obj')
        os.makedirs(od, exist_ok=True)
        defs = v.get('defs', COMMON_DEFS)
        srcs = lib_sources()
        objs = []
        cmds = []
        for s in srcs:
            o = os.path.join(od, os.path.basename(os.path.dirname(s)) + '_' + os.path.basename(s) + '.o')
            objs.append(o)
            cmds.append(([v['cc']] + v['cflags'] + defs + _includes() + ['-c', s, '-o', o], s))
        with ThreadPoolExecutor(NPROC) as ex:
            list(ex.map(lambda c: _run(c[0], 'compile ' + c[1]), cmds))
        tmp = lib + '.tmp'
        if os.path.exists(tmp):
            os.unlink(tmp)
        _run(['ar', 'rcs', tmp] + objs, 'ar')
        os.rename(tmp, lib)
        shutil.rmtree(od, ignore_errors=True)
    return d


def build_refdec(variant):
    """R is the oracle: compiled without sanitizers whatever the variant (clang for clang variants, for ABI of msan irrelevant)."""
    d = build_lib(variant)
    v_ = VARIANTS[variant]
    o = os.path.join(d, 'refdec.o')
    src = [os.path.join(HDIR, 'refdec', f) for f in ('refdec.c', 'refdec_core.c', 'refdec.h', 'refdec_core.h')]
    stamp = _hash_files(src)
    sf = o + '.stamp'
    with _Lock(os.path.join(BUILD, variant, '.lock')):
        if os.path.exists(o) and os.path.exists(sf) and open(sf).read() == stamp:
            return o
        if variant == 'msan':    # MemorySanitizer needs every object of the process instrumented, the oracle included (no verdict comes from that instrumentation)
            _run([v_['cc']] + v_['cflags'] + ['-c', src[0], '-o', o], 'compile refdec (msan)')
        else:
            _run(['gcc', '-O2', '-g', '-c', src[0], '-o', o], 'compile refdec')
        open(sf, 'w').write(stamp)
    return o


def build_harness(name, variant, sources=None, cflags=(), ldflags=(), repo_sources=(), refdec=True, hash_subdirs=None, defs=None):
    """name: output name; sources: files under /verif/h (default [name + '.c']); repo_sources: extra files of /repo compiled in
    (e.g. contrib/seekable_format/*.c) with the variant's flags. Returns the executable path."""
    v = VARIANTS[variant]
    d = build_lib(variant)
    sources = [os.path.join(HDIR, s) for s in (sources or [name + '.c'])]
    rsrc = [os.path.join(REPO, s) for s in repo_sources]
    hdrs = glob.glob(os.path.join(HDIR, '*.h')) + glob.glob(os.path.join(HDIR, 'refdec', '*'))
    extra_hash = tree_hash(tuple(hash_subdirs)) if hash_subdirs else ''
    stamp = _hash_files(sources + rsrc + hdrs, ' '.join(list(cflags) + list(ldflags)) + extra_hash)
    exe = os.path.join(d, '%s-%s' % (name, stamp))
    if os.path.exists(exe):
        return exe
    objs = [build_refdec(variant)] if refdec else []
    with _Lock(os.path.join(BUILD, variant, '.lock-' + name)):
        if os.path.exists(exe):
            return exe
        for old in glob.glob(os.path.join(d, name + '-*')):
            try:
                os.unlink(old)
            except OSError:
                pass
        dd = defs if defs is not None else v.get('defs', COMMON_DEFS)
        cmd = [v['cc']] + v['cflags'] + dd + _includes() + ['-I' + HDIR, '-I' + os.path.join(HDIR, 'refdec'), '-I' + os.path.join(REPO, 'lib'),
              '-Wall', '-Wno-unused-function', '-Wno-unused-variable'] + list(cflags) + sources + rsrc + objs + [os.path.join(d, 'libzstd.a')] + v['ld'] + list(ldflags) + ['-lpthread', '-o', exe + '.tmp']
        _run(cmd, 'build harness ' + name)
        os.rename(exe + '.tmp', exe)
    return exe


def build_many(specs):
    """specs: list of (name, variant, kwargs) built in parallel (libs first, deduplicated)."""
    variants = sorted(set(s[1] for s in specs))
    with ThreadPoolExecutor(max(1, min(len(variants), 4))) as ex:
        list(ex.map(build_lib, variants))
    with ThreadPoolExecutor(8) as ex:
        return list(ex.map(lambda s: build_harness(s[0], s[1], **(s[2] if len(s) > 2 else {})), specs))


if __name__ == '__main__':
    t = time.time()
    for vname in sys.argv[1:] or ['asan', 'plain', 'tsan']:
        print(vname, build_lib(vname), '%.1fs' % (time.time() - t))
