"""Driver core: sharded harness execution, crash/hang attribution, violation keys, known findings, evidence."""
import os, sys, re, json, time, hashlib, subprocess, tempfile, threading, fnmatch, shutil, signal
from concurrent.futures import ThreadPoolExecutor
from . import build

VERIF = build.VERIF
OUT = os.path.join(VERIF, 'out')          # replay files, sanitizer logs (ignored by git)
NPROC = build.NPROC


class Result:
    """aggregated monitor output of many harness processes"""

    def __init__(self):
        self.stats = {}
        self.maxes = {}
        self.cells = {}       # set -> {value: count}
        self.samples = []
        self.viol = []        # dicts: key, case, msg, replay(dict)
        self.inconclusive = []
        self.cases_done = 0
        self.procs = 0
        self.other = {}       # tag -> list of field lists (harness-specific lines)
        self.lock = threading.Lock()

    def stat(self, name, dflt=0):
        return self.stats.get(name, dflt)

    def ncells(self, setname):
        return len(self.cells.get(setname, {}))

    def merge_line(self, line, ctx):
        parts = line.rstrip('\n').split('\t')
        tag = parts[0]
        if tag == 'STAT' and len(parts) >= 3:
            self.stats[parts[1]] = self.stats.get(parts[1], 0) + int(parts[2])
        elif tag == 'MAX' and len(parts) >= 3:
            self.maxes[parts[1]] = max(self.maxes.get(parts[1], -(1 << 62)), int(parts[2]))
        elif tag == 'CELL' and len(parts) >= 4:
            d = self.cells.setdefault(parts[1], {})
            d[parts[2]] = d.get(parts[2], 0) + int(parts[3])
        elif tag == 'SAMPLE' and len(parts) >= 3:
            if len(self.samples) < 12:
                self.samples.append({'case': int(parts[1]), 'what': parts[2], 'harness': ctx.get('label')})
        elif tag == 'VIOL' and len(parts) >= 4:
            self.viol.append({'key': parts[1], 'case': int(parts[2]), 'msg': parts[3], 'replay': dict(ctx, case=int(parts[2]))})
        elif tag == 'INCONCLUSIVE' and len(parts) >= 3:
            self.inconclusive.append({'case': int(parts[1]), 'why': parts[2], 'harness': ctx.get('label')})
        elif tag in ('DONE', 'HANG'):
            pass
        elif tag.isupper() and len(parts) >= 2:
            self.other.setdefault(tag, []).append(parts[1:])


_SAN_RE = re.compile(r'ERROR: (AddressSanitizer|ThreadSanitizer|LeakSanitizer|MemorySanitizer): ([A-Za-z0-9_-]+)')
_UB_RE = re.compile(r'^(\S+?):(\d+):(\d+): runtime error: (.*)$', re.M)
_VG_RE = re.compile(r'^==\d+== (Invalid read|Invalid write|Conditional jump or move depends on uninitialised|Use of uninitialised value|Syscall param[^\n]*uninitialised|Invalid free|Mismatched free|Source and destination overlap|Jump to the invalid address|Process terminating with default action of signal \d+)', re.M)
_FRAME_RE = re.compile(r'^\s*#\d+ (?:0x[0-9a-f]+ in )?(\S+) (\S+)', re.M)


def _norm_ub(msg):
    msg = re.sub(r'0x[0-9a-f]+', 'ADDR', msg)
    msg = re.sub(r'-?\d+', 'N', msg)
    return msg[:60].strip().replace(' ', '_')


def crash_key(stderr, rc, exe=None):
    """stable key from a sanitizer report / signal: tool, bug type, first frame inside the repository"""
    func = None
    for m in _FRAME_RE.finditer(stderr):
        fn, loc = m.group(1), m.group(2)
        if build.REPO + '/' in loc:
            func = fn
            break
    m = _UB_RE.search(stderr)
    ms = _SAN_RE.search(stderr)
    if m and (not ms or m.start() < ms.start()):
        where = os.path.basename(m.group(1))
        return 'san:ubsan:%s:%s' % (_norm_ub(m.group(4)), func or where)
    if ms:
        kind = ms.group(2)
        if kind == 'attempting':
            kind = 'bad-free' if 'attempting free' in stderr else 'double-free' if 'double-free' in stderr else kind
        if kind == 'SEGV' or kind == 'FPE' or kind == 'BUS' or kind == 'ILL':
            kind = 'signal-' + kind
        return 'san:%s:%s:%s' % (ms.group(1).replace('Sanitizer', '').lower(), kind, func or 'unknown')
    mv = _VG_RE.search(stderr)
    if mv:   # valgrind memcheck report: kind + first frame inside the repository
        kind = mv.group(1).strip().lower()
        kind = 'uninitialised-value' if 'uninitialised' in kind else kind.replace(' ', '-')
        vf = None
        for m4 in re.finditer(r'^==\d+==\s+(?:at|by) 0x[0-9A-Fa-f]+: (\S+) \(([^)]*)\)', stderr[mv.start():], re.M):
            if build.REPO + '/' in m4.group(2) or m4.group(2).startswith('in '):
                if build.REPO + '/' in m4.group(2):
                    vf = m4.group(1)
                    break
        return 'valgrind:%s:%s' % (kind, vf or 'unknown')
    if 'WARNING: ThreadSanitizer: ' in stderr:
        m2 = re.search(r'WARNING: ThreadSanitizer: ([^(\n]+)', stderr)
        return 'san:thread:%s:%s' % (m2.group(1).strip().replace(' ', '-'), func or 'unknown')
    # plain build: try the backtrace printed by the harness signal handler
    if exe:
        for m3 in re.finditer(r'\(\+0x([0-9a-f]+)\)', stderr):
            try:
                o = subprocess.run(['addr2line', '-f', '-e', exe, '0x' + m3.group(1)], capture_output=True, text=True, timeout=20).stdout.split('\n')
                if len(o) >= 2 and build.REPO + '/' in o[1]:
                    func = o[0]
                    break
            except Exception:
                pass
    if rc < 0:
        return 'crash:signal%d:%s' % (-rc, func or 'unknown')
    return 'crash:exit%d:%s' % (rc, func or 'unknown')


BLOCKED_SECONDS = 25


def _proc_cpu_and_sleep(pid):
    """(cpu seconds of the whole process tree rooted at pid, True if every thread of it is in state S)"""
    try:
        tck = os.sysconf('SC_CLK_TCK'); total = 0.0; asleep = True; pids = [pid]
        try:
            kids = open('/proc/%d/task/%d/children' % (pid, pid)).read().split()
            pids += [int(k) for k in kids]
        except Exception:
            pass
        for q in pids:
            for t in os.listdir('/proc/%d/task' % q):
                f = open('/proc/%d/task/%s/stat' % (q, t)).read()
                rest = f[f.rindex(')') + 2:].split()
                if rest[0] not in ('S',):
                    asleep = False
                total += (int(rest[11]) + int(rest[12])) / tck
        return total, asleep
    except Exception:
        return None, False


class Runner:
    def __init__(self, prop, tier, seed):
        self.prop, self.tier, self.seed = prop, tier, seed
        self.thorough = (tier == 'thorough')
        os.makedirs(OUT, exist_ok=True)
        self.tmp = tempfile.mkdtemp(prefix='%s-' % prop, dir=OUT)
        self.wall_timeout = 3 * 3600 if self.thorough else 1500

    def cleanup(self):
        shutil.rmtree(self.tmp, ignore_errors=True)

    def _one(self, exe, args, env, casefile, wall=None):
        e = dict(os.environ)
        e.update({'VERIF_CASEFILE': casefile, 'VERIF_REPO': build.REPO})
        e.update({k: v for k, v in (env or {}).items() if k != '__wrapper__'})
        wrapper = (env or {}).get('__wrapper__', '').split()     # e.g. valgrind memcheck in front of the harness
        # A process whose threads are ALL asleep and which consumes no CPU time for BLOCKED_SECONDS consecutive one-second samples is blocked
        # for ever (lost wake-up, wait on a job that never completes): a logical criterion (no runnable thread), not a wall-clock deadline,
        # reported as exit code 78. The generous wall-clock watchdog stays and only ever yields "inconclusive".
        outf = tempfile.TemporaryFile(dir=self.tmp); errf = tempfile.TemporaryFile(dir=self.tmp)
        p = subprocess.Popen(wrapper + [exe] + args, stdout=outf, stderr=errf, env=e)
        deadline = time.time() + (wall or self.wall_timeout)
        idle = 0; last_cpu = -1.0; rc = None; blocked = False
        while True:
            try:
                rc = p.wait(timeout=1.0)
                break
            except subprocess.TimeoutExpired:
                pass
            if time.time() > deadline:
                p.kill(); p.wait(); rc = None
                break
            cpu, all_asleep = _proc_cpu_and_sleep(p.pid)
            if cpu is not None and all_asleep and last_cpu >= 0 and cpu - last_cpu < 0.02:
                idle += 1
            else:
                idle = 0
            last_cpu = cpu if cpu is not None else last_cpu
            if idle >= BLOCKED_SECONDS and not wrapper:
                blocked = True
                p.kill(); p.wait(); rc = 78
                break
        outf.seek(0); errf.seek(0)
        out = outf.read().decode(errors='replace'); err = errf.read().decode(errors='replace')
        outf.close(); errf.close()
        if blocked:
            err += '\nBLOCKED: no thread runnable and no CPU time consumed for %d s\n' % BLOCKED_SECONDS
        return rc, out, ('' if rc is None else err)

    def run_range(self, res, exe, base_args, lo, hi, env=None, label=None, variant=None, max_crashes=25, wall=None):
        """run cases [lo,hi) in one process; on a crash attribute it to the case in the case file and resume after it"""
        casefile = os.path.join(self.tmp, 'case-%d-%d-%d' % (os.getpid(), threading.get_ident(), lo))
        ctx = {'exe_name': label, 'variant': variant, 'args': base_args, 'seed': self.seed, 'label': label, 'env': env or {}}
        crashes = 0
        hangs = 0
        cur = lo
        while cur < hi:
            open(casefile, 'w').write('%-20d\n' % -1)
            args = base_args + ['--seed', str(self.seed), '--from', str(cur), '--to', str(hi)] + (['--thorough'] if self.thorough else [])
            rc, out, err = self._one(exe, args, env, casefile, wall)
            with res.lock:
                res.procs += 1
                for line in out.split('\n'):
                    if line:
                        res.merge_line(line, ctx)
            if rc == 0:
                with res.lock:
                    res.cases_done += hi - cur
                break
            try:
                case = int(open(casefile).read().strip() or -1)
            except Exception:
                case = -1
            if rc is None:
                with res.lock:
                    res.inconclusive.append({'case': case, 'why': 'wall-clock watchdog (%ds) hit; range %d..%d abandoned' % (wall or self.wall_timeout, cur, hi), 'harness': label})
                break
            if rc == 2:
                raise build.BuildError('harness %s failed (exit 2): %s' % (label, err[-2000:]))
            if case < cur:
                # died outside any case
                with res.lock:
                    res.viol.append({'key': crash_key(err, rc, exe) + ':outside-case', 'case': case, 'msg': err[-1500:], 'replay': dict(ctx, case=cur)})
                break
            if rc == 79:
                pass   # deadlock/livelock already reported through a VIOL line by the harness
            elif rc in (77, 78) and hangs >= 3:
                with res.lock:
                    res.inconclusive.append({'case': case, 'why': 'watchdog hit repeatedly in this shard; range %d..%d abandoned after 3 confirmed hangs' % (case, hi), 'harness': label})
                break
            elif rc == 78:
                hangs += 1
                # every thread asleep, no CPU consumed: re-run alone once before calling it blocked for ever
                rc2, out2, err2 = self._one(exe, base_args + ['--seed', str(self.seed), '--only', str(case)] + (['--thorough'] if self.thorough else []), env, casefile)
                with res.lock:
                    if rc2 == 78:
                        res.viol.append({'key': 'blocked-forever:%s' % label, 'case': case, 'msg': 'no thread runnable and no CPU time consumed for %d s, twice (call never returns)' % BLOCKED_SECONDS, 'replay': dict(ctx, case=case)})
                    else:
                        res.inconclusive.append({'case': case, 'why': 'process looked blocked once, not on re-run', 'harness': label})
            elif rc == 77:
                hangs += 1
                # CPU budget exceeded: re-run alone once before calling it a hang
                rc2, out2, err2 = self._one(exe, base_args + ['--seed', str(self.seed), '--only', str(case)] + (['--thorough'] if self.thorough else []), env, casefile)
                with res.lock:
                    if rc2 == 77:
                        res.viol.append({'key': 'hang:%s' % label, 'case': case, 'msg': 'CPU-time budget exceeded twice (logical bound on work linear in sizes)', 'replay': dict(ctx, case=case)})
                    else:
                        res.inconclusive.append({'case': case, 'why': 'CPU budget hit once, not on re-run', 'harness': label})
            else:
                key = crash_key(err, rc, exe)
                rep = os.path.join(OUT, 'report-%s-%s-%d.txt' % (self.prop, (label or 'h').replace('/', '_'), case))
                try:
                    open(rep, 'w').write(err[-20000:])
                except Exception:
                    pass
                with res.lock:
                    res.viol.append({'key': key, 'case': case, 'msg': _first_report_lines(err), 'replay': dict(ctx, case=case, report=rep)})
            with res.lock:
                res.cases_done += case + 1 - cur
            cur = case + 1
            crashes += 1
            if crashes >= max_crashes:
                with res.lock:
                    res.inconclusive.append({'case': case, 'why': 'too many crashes in one shard; range %d..%d not run' % (cur, hi), 'harness': label})
                break
        try:
            os.unlink(casefile)
        except OSError:
            pass

    def run_sharded(self, res, exe, base_args, ncases, env=None, label=None, variant=None, nshards=None, first=0, executor=None, wall=None):
        """cases first..first+ncases split into contiguous shards run in parallel"""
        nshards = nshards or NPROC
        nshards = max(1, min(nshards, ncases))
        bounds = [first + ncases * i // nshards for i in range(nshards + 1)]
        jobs = [(bounds[i], bounds[i + 1]) for i in range(nshards) if bounds[i + 1] > bounds[i]]
        if executor is not None:
            return [executor.submit(self.run_range, res, exe, base_args, lo, hi, env, label, variant, 25, wall) for lo, hi in jobs]
        with ThreadPoolExecutor(NPROC) as ex:
            futs = [ex.submit(self.run_range, res, exe, base_args, lo, hi, env, label, variant, 25, wall) for lo, hi in jobs]
            for f in futs:
                f.result()


VALGRIND = 'valgrind -q --tool=memcheck --error-exitcode=98 --exit-on-first-error=yes --fullpath-after= --undef-value-errors=yes --track-origins=no --num-callers=12'


def valgrind_stage(R, res, spec, base_args, ncases, first, env=None, slow=60, wall=None):
    """run ncases of a harness built WITHOUT sanitizers (variant 'val': gcc -O1 -g, assembly loops on) under valgrind memcheck:
    definedness of every value a branch / address depends on + addressability, which ASan and guard pages do not see.
    A memcheck report stops the process (exit 98) and becomes a violation key valgrind:<kind>:<first frame in the repository>."""
    kw = dict(spec[2]) if len(spec) > 2 else {}
    exe = build.build_harness(spec[0], 'val', **kw)
    venv = dict(env or {}, __wrapper__=VALGRIND, VERIF_SLOW=str(slow))
    before = res.cases_done
    R.run_sharded(res, exe, base_args, ncases, env=venv, label=spec[0] + '/val', variant='val', first=first, wall=wall or (10800 if R.thorough else 1800))
    return res.cases_done - before


MSAN_ENV = {'MSAN_OPTIONS': 'abort_on_error=1:halt_on_error=1:print_stats=0:allocator_may_return_null=1:poison_in_dtor=1'}


def msan_stage(R, res, spec, base_args, ncases, first, env=None, slow=4, wall=None):
    """run ncases of a harness built with clang -fsanitize=memory (library, harness and oracle all instrumented; zstd switches its assembly off and
    poisons its workspace itself in such builds): a branch, address or libc call (memcmp of two outputs included) that depends on an uninitialised
    byte stops the process and becomes the key san:memory:use-of-uninitialized-value:<first frame in the repository>."""
    if os.environ.get('VERIF_NO_CLANG_STAGES'):      # seeded-change trials only (tools/matrix.py): skips the clang builds; what is then detected is a subset of what the check detects
        return 0
    kw = dict(spec[2]) if len(spec) > 2 else {}
    exe = build.build_harness(spec[0], 'msan', **kw)
    menv = dict(env or {}, VERIF_SLOW=str(slow)); menv.update(MSAN_ENV)
    before = res.cases_done
    R.run_sharded(res, exe, base_args, ncases, env=menv, label=spec[0] + '/msan', variant='msan', first=first, wall=wall or (10800 if R.thorough else 1800))
    return res.cases_done - before


def _first_report_lines(err):
    lines = [l for l in err.split('\n') if l.strip()]
    keep = []
    for l in lines:
        if 'ERROR:' in l or 'runtime error' in l or 'WARNING: ThreadSanitizer' in l or re.match(r'\s*#[0-5] ', l) or re.match(r'==\d+== \S', l):
            keep.append(l.strip())
        if len(keep) >= 8:
            break
    return ' | '.join(keep)[:900] if keep else (err[-600:].replace('\n', ' | '))


# ---------------------------------------------------------------------------------------- known findings
def load_findings():
    p = os.path.join(VERIF, 'known_findings.json')
    if not os.path.exists(p):
        return {'known': [], 'fixed': []}
    return json.load(open(p))


def match_known(prop, key, findings):
    for k in findings.get('known', []):
        if k.get('property') == prop and (k['key'] == key or fnmatch.fnmatchcase(key, k['key'])):
            return k
    return None


# ---------------------------------------------------------------------------------------- finishing a check
def finish(prop, tier, seed, level, res, coverage, assumptions, t0, runner=None, extra_viol=None):
    """classify violations against known findings, write replay files + evidence, print verdict lines, return exit code"""
    findings = load_findings()
    viols = list(res.viol) + list(extra_viol or [])
    unknown, known = [], {}
    for v in viols:
        k = match_known(prop, v['key'], findings)
        if k:
            known.setdefault(k['key'], [k, 0])
            known[k['key']][1] += 1
        else:
            unknown.append(v)
    for key, (k, n) in sorted(known.items()):
        print('KNOWN-FINDING: property=%s %s [key=%s, %d occurrence(s) this run]' % (prop, k.get('what', ''), key, n))
    # one VIOLATION line per distinct key (first witness), replay file each
    seen = {}
    for v in unknown:
        seen.setdefault(v['key'], []).append(v)
    os.makedirs(OUT, exist_ok=True)
    for key, vs in sorted(seen.items()):
        v = vs[0]
        rp = os.path.join(OUT, 'replay-%s-%s-%s.json' % (prop, re.sub(r'[^A-Za-z0-9_.-]+', '_', key)[:70], hashlib.sha1(key.encode()).hexdigest()[:8]))
        json.dump({'property': prop, 'key': key, 'msg': v['msg'], 'occurrences': len(vs), 'tier': tier, 'replay': v.get('replay'), 'other_cases': [x['case'] for x in vs[1:20]]}, open(rp, 'w'), indent=1)
        print('VIOLATION property=%s replay=%s' % (prop, rp))
        print('  key=%s cases=%d first: %s' % (key, len(vs), v['msg'][:700]))
    cov = dict(coverage)
    cov.setdefault('samples', res.samples[:8] if res.samples else [])
    cov['inconclusive'] = len(res.inconclusive)
    if res.inconclusive:
        cov['inconclusive_samples'] = res.inconclusive[:5]
    cov['harness_processes'] = res.procs
    cov['known_findings_seen'] = {k: n for k, (kk, n) in known.items()}
    cov['violation_keys'] = sorted(seen.keys())
    ev = {'property_id': prop, 'tier': tier, 'seed': int(seed), 'level': level, 'coverage': cov, 'assumptions': assumptions,
          'wall_s': round(time.time() - t0, 1), 'violations': len(unknown)}
    evdir = os.environ.get('VERIF_EVIDENCE_DIR') or os.path.join(VERIF, 'evidence')     # the override is for seeded-change trials only
    os.makedirs(evdir, exist_ok=True)
    json.dump(ev, open(os.path.join(evdir, prop + '.json'), 'w'), indent=1, sort_keys=True)
    if runner:
        runner.cleanup()
    if unknown:
        return 1
    if not cov.get('samples'):
        print('INCONCLUSIVE property=%s: harness emitted no sample cases (evidence would be invalid)' % prop)
        return 2
    # a run whose monitors observed nothing is not "held"
    if cov.get('evaluations', 0) < 1 or cov.get('distinct_nontrivial', 0) < 2:
        print('INCONCLUSIVE property=%s: monitors observed too little (evaluations=%s distinct_nontrivial=%s)' % (prop, cov.get('evaluations'), cov.get('distinct_nontrivial')))
        return 2
    print('HELD property=%s tier=%s seed=%s evaluations=%s distinct_nontrivial=%s inconclusive=%d wall=%.0fs' % (
        prop, tier, seed, cov.get('evaluations'), cov.get('distinct_nontrivial'), len(res.inconclusive), time.time() - t0))
    return 0


def topcells(res, setname, n=12):
    d = res.cells.get(setname, {})
    return dict(sorted(d.items(), key=lambda kv: -kv[1])[:n])
